#!/usr/bin/env python3
"""development helper: rebuild work/facts_{default,tracing}.json from /repo"""
import os, sys, shutil
HERE = os.path.dirname(os.path.dirname(os.path.abspath(__file__)))
sys.path.insert(0, os.path.join(HERE, 'rules'))
import driver
os.makedirs(os.path.join(HERE, 'work'), exist_ok=True)
for feats, name in (((), 'default'), (('tracing',), 'tracing')):
    p, tmp, dt = driver.build_facts(sys.argv[1] if len(sys.argv) > 1 else '/repo', feats)
    shutil.copy(p, os.path.join(HERE, 'work', 'facts_%s.json' % name))
    shutil.rmtree(tmp)
    print(name, round(dt, 1), 's')
