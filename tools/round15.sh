#!/bin/bash
# verify + harvest + evaluate one round-15 agent result (one variant, stored as <ID>-AA): tools/round15.sh C05
p=$1
python3 tools/seeded.py verify /tmp/wt/$p A > work/verify/$p-AA.json 2>&1
python3 -c "
import json; r=json.load(open('work/verify/$p-AA.json')); print('$p-AA', 'confirmed' if r.get('confirmed') else 'NOT-CONFIRMED', r.get('suite_with_change'), r.get('demo_with_change',{}).get('rc'), r.get('demo_without_change'), r.get('error') or '')"
SEED_ROUND=15 python3 tools/harvest.py $p
[ -f seeded/$p-AA/patch.diff ] && python3 tools/seeded.py eval seeded/$p-AA/patch.diff | python3 -c "import json,sys; r=json.load(sys.stdin); print('$p-AA', {k:[x[:130] for x in v[:2]] for k,v in r.get('fired',{}).items()}, r.get('error') or '')"
