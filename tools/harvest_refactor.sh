#!/bin/bash
# verify (compiles, 83 tests pass) and harvest the neutral refactors of one agent round: tools/harvest_refactor.sh R9
r=$1
wt=/tmp/wt/$r
for f in $wt/seeded/variant?.diff; do
  v=$(basename $f .diff | sed 's/variant//')
  git -C $wt checkout -q -- . 
  if ! git -C $wt apply $f 2>/dev/null; then echo "$r-$v patch does not apply"; continue; fi
  out=$(cd $wt && CARGO_NET_OFFLINE=true cargo test --offline 2>&1)
  p=$(echo "$out" | grep -o "[0-9]* passed" | awk '{s+=$1} END {print s}')
  fl=$(echo "$out" | grep -o "[0-9]* failed" | awk '{s+=$1} END {print s}')
  git -C $wt checkout -q -- .
  if [ "${p:-0}" -ge 83 ] && [ "$fl" = "0" ]; then cp $f seeded/refactors/$r-$v.diff; echo "$r-$v ok ($p passed)"; else echo "$r-$v REJECTED passed=$p failed=$fl"; fi
done
cp $wt/seeded/NOTES.md seeded/refactors/$r-NOTES.md 2>/dev/null
git -C /repo worktree remove --force $wt
