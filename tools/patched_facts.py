#!/usr/bin/env python3
"""development helper: facts of /repo + a patch -> work/p/<name>/facts_{default,tracing}.json
   usage: patched_facts.py seeded/C20-D/patch.diff [name]"""
import os, sys, shutil, subprocess
HERE = os.path.dirname(os.path.dirname(os.path.abspath(__file__)))
sys.path.insert(0, os.path.join(HERE, 'rules'))
import driver
patch = os.path.abspath(sys.argv[1])
name = sys.argv[2] if len(sys.argv) > 2 else os.path.basename(os.path.dirname(patch))
dst = os.path.join(HERE, 'work', 'p', name)
os.makedirs(dst, exist_ok=True)
tmp = driver.copy_tree('/repo')
try:
    subprocess.check_call('patch -p1 -s < %s' % patch, shell=True, cwd=tmp)
    for feats, nm in (((), 'default'), (('tracing',), 'tracing')):
        p, t2, dt = driver.build_facts(tmp, feats)
        shutil.copy(p, os.path.join(dst, 'facts_%s.json' % nm))
        shutil.rmtree(t2)
finally:
    shutil.rmtree(tmp, ignore_errors=True)
print(dst)
