#!/usr/bin/env python3
"""regenerate the "caught" table of DESIGN.md §5 from mutants/mutants.py and seeded/RESULTS.json"""
import json, os, re, sys
HERE = os.path.dirname(os.path.abspath(__file__))
ROOT = os.path.dirname(HERE)
sys.path.insert(0, os.path.join(ROOT, 'mutants'))
sys.path.insert(0, os.path.join(ROOT, 'rules'))
import mutants
res = json.load(open(os.path.join(ROOT, 'seeded', 'RESULTS.json')))
props = sorted({k.split('-')[0] for k in res})
lines = ['| id | mutants (all caught) | seeded changes: variant[rule] |', '|----|----------------------|-------------------------------|']
for p in props:
    ms = ' '.join(re.match(r'(m\d+)', m['id']).group(1) for m in mutants.by_prop(p))
    cells = []
    for k in sorted(x for x in res if x.startswith(p + '-')):
        v = k.split('-')[1]
        fired = res[k].get('fired') or {}
        if p in fired:
            rules = sorted({x.split('/')[0] for x in fired[p]})
            cells.append('%s[%s]' % (v, ','.join(rules)))
        elif fired:
            cells.append('%s[→%s]' % (v, '/'.join(sorted(fired))))
        else:
            cells.append('**%s[missed]**' % v)
    lines.append('| %s | %s | %s |' % (p, ms, ' '.join(cells)))
table = '\n'.join(lines)
d = open(os.path.join(ROOT, 'DESIGN.md')).read()
a = d.index('| id | mutants (all caught) |')
b = d.index('\n\n', a)
d = d[:a] + table + d[b:]
open(os.path.join(ROOT, 'DESIGN.md'), 'w').write(d)
print(table[:400])
