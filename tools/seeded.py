#!/usr/bin/env python3
"""Handling of sub-agent seeded changes.

  seeded.py verify <worktree> <variant> : confirm in the agent's scratch worktree that the change compiles,
                                          the existing suite passes, the demo fails with / passes without it
  seeded.py eval <patch.diff> [ID ...]  : apply the patch to a scratch copy of /repo and run the checks
  seeded.py evalall                     : run every kept change under /verif/seeded/*/patch.diff
"""
import json
import os
import re
import shutil
import subprocess
import sys

HERE = os.path.dirname(os.path.dirname(os.path.abspath(__file__)))
sys.path.insert(0, os.path.join(HERE, 'rules'))
import driver  # noqa: E402


def sh(cmd, cwd=None, timeout=1200, env=None):
    r = subprocess.run(cmd, shell=True, cwd=cwd, capture_output=True, text=True, timeout=timeout, env=env)
    return r.returncode, r.stdout + r.stderr


def test_summary(out):
    """(passed, failed) totals from cargo test output, and per-binary lines"""
    tot_p = tot_f = 0
    for m in re.finditer(r'test result: (\w+)\. (\d+) passed; (\d+) failed', out):
        tot_p += int(m.group(2))
        tot_f += int(m.group(3))
    return tot_p, tot_f


def verify(wt, variant):
    sd = os.path.join(wt, 'seeded')
    diff = os.path.join(sd, 'variant%s.diff' % variant)
    demo = os.path.join(sd, 'demo%s.rs' % variant)
    res = {'worktree': wt, 'variant': variant}
    sh('git checkout -- . && git clean -fdq tests', cwd=wt)
    rc, out = sh('git apply %s' % diff, cwd=wt)
    if rc != 0:
        res['error'] = 'patch does not apply: ' + out[-500:]
        return res
    tname = 'seeded_demo%s' % variant
    # 1. existing suite with the change (demo not yet present)
    rc, out = sh('cargo test --offline 2>&1', cwd=wt)
    p, f = test_summary(out)
    res['suite_with_change'] = {'rc': rc, 'passed': p, 'failed': f}
    compiled = 'error: could not compile' not in out
    res['compiles'] = compiled
    # 2. demo with the change
    shutil.copy(demo, os.path.join(wt, 'tests', tname + '.rs'))
    rc, out = sh('cargo test --offline --test %s 2>&1' % tname, cwd=wt)
    p, f = test_summary(out)
    res['demo_with_change'] = {'rc': rc, 'passed': p, 'failed': f, 'tail': out[-600:]}
    # 3. demo without the change
    sh('git checkout -- src', cwd=wt)
    rc, out = sh('cargo test --offline --test %s 2>&1' % tname, cwd=wt)
    p, f = test_summary(out)
    res['demo_without_change'] = {'rc': rc, 'passed': p, 'failed': f}
    os.remove(os.path.join(wt, 'tests', tname + '.rs'))
    res['confirmed'] = bool(compiled and res['suite_with_change']['failed'] == 0 and res['suite_with_change']['passed'] >= 83
                            and res['demo_with_change']['rc'] != 0   # a failing or aborting (SIGABRT) demo
                            and res['demo_without_change']['rc'] == 0 and res['demo_without_change']['failed'] == 0)
    return res


def evaluate(patch, pids=None):
    tmp = driver.copy_tree('/repo')
    try:
        rc, out = sh('patch -p1 -s < %s' % os.path.abspath(patch), cwd=tmp)
        if rc != 0:
            return {'error': 'patch failed: ' + out[-300:]}
        cmd = '%s/check all --repo %s' % (HERE, tmp)
        env = dict(os.environ)
        env['VERIF_EVIDENCE_DIR'] = os.path.join(HERE, 'work', 'evidence-eval')
        rc, out = sh(cmd, cwd=HERE, env=env)
        fired = {}
        for m in re.finditer(r'VIOLATION property=(\w+) replay=(\S+)', out):
            rp = os.path.join(HERE, m.group(2))
            key = ''
            try:
                key = json.load(open(rp)).get('key', '')
            except Exception:
                pass
            fired.setdefault(m.group(1), []).append(key)
        return {'rc': rc, 'fired': fired, 'tail': out[-300:] if not fired else ''}
    finally:
        shutil.rmtree(tmp, ignore_errors=True)


def main():
    cmd = sys.argv[1]
    if cmd == 'verify':
        r = verify(sys.argv[2], sys.argv[3])
        print(json.dumps(r, indent=1))
    elif cmd == 'eval':
        r = evaluate(sys.argv[2])
        print(json.dumps(r, indent=1))
    elif cmd in ('evalall', 'evalsome'):
        # evalsome <dir names>: evaluate only those seeds and merge them into RESULTS.json
        base = os.path.join(HERE, 'seeded')
        summary = json.load(open(os.path.join(base, 'RESULTS.json'))) if cmd == 'evalsome' else {}
        dirs = [d for d in sorted(os.listdir(base)) if os.path.exists(os.path.join(base, d, 'patch.diff'))]
        if cmd == 'evalsome':
            dirs = [d for d in dirs if d in sys.argv[2:]]
        from multiprocessing.pool import ThreadPool
        with ThreadPool(6) as pool:
            results = pool.map(lambda d: evaluate(os.path.join(base, d, 'patch.diff')), dirs)
        for d, r in zip(dirs, results):
            meta = json.load(open(os.path.join(base, d, 'meta.json')))
            target = meta['property']
            hit = target in r.get('fired', {})
            summary[d] = {'property': target, 'caught_by_target': hit, 'fired': r.get('fired', {}), 'error': r.get('error')}
            print(d, target, 'CAUGHT' if hit else ('caught-by-other ' + ','.join(r.get('fired', {})) if r.get('fired') else 'MISSED'),
                  {k: v[:2] for k, v in r.get('fired', {}).items()})
        json.dump(dict(sorted(summary.items())), open(os.path.join(base, 'RESULTS.json'), 'w'), indent=1)


def evalrefactors():
    base = os.path.join(HERE, 'seeded', 'refactors')
    res = {}
    files = [f for f in sorted(os.listdir(base)) if f.endswith('.diff')]
    from multiprocessing.pool import ThreadPool
    with ThreadPool(6) as pool:
        results = pool.map(lambda f: evaluate(os.path.join(base, f)), files)
    for f, r in zip(files, results):
        res[f] = r.get('fired', {}) or r.get('error') or {}
        print(f, 'SILENT' if not r.get('fired') and not r.get('error') else 'ALARM %s' % {k: v[:2] for k, v in r.get('fired', {}).items()}, r.get('error') or '')
    json.dump(res, open(os.path.join(base, 'RESULTS.json'), 'w'), indent=1)


if __name__ == '__main__':
    if sys.argv[1] == 'evalrefactors':
        evalrefactors()
    else:
        main()
