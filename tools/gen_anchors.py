#!/usr/bin/env python3
"""Record the signatures of today's local functions (rules/anchors.json).  The rules name many
private functions; when such a path is missing in the analysed tree, facts.resolve() looks for a
function with the recorded signature (a rename / move keeps the signature) instead of failing."""
import json, os, sys
HERE = os.path.dirname(os.path.dirname(os.path.abspath(__file__)))
f = json.load(open(os.path.join(HERE, 'work', 'facts_default.json')))
out = {}
for fn in f['items']['fns']:
    out[fn['path']] = {'inputs': [t['s'] for t in fn['inputs']], 'output': fn['output']['s'], 'pub': fn['pub']}
json.dump(out, open(os.path.join(HERE, 'rules', 'anchors.json'), 'w'), indent=0, sort_keys=True)
print(len(out), 'signatures')
