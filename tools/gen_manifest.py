#!/usr/bin/env python3
"""Regenerate MANIFEST.json from the property registry (rules/props.py) and the texts below."""
import json
import os
import sys

HERE = os.path.dirname(os.path.dirname(os.path.abspath(__file__)))
sys.path.insert(0, os.path.join(HERE, 'rules'))
import props  # noqa: E402

NOTE = ("trusted: rustc type checking / MIR construction, the mirlint fact dump, std's documented I/O and "
        "collection contracts, the idiom tables in rules/ (enumerated from the tree, one reason per exception); "
        "only the clauses named in level_claimed.text are decided -- value-level behaviour is not")

TEXT = {
    'C01': ("Partial. Decides: Err only originates in the reader/writer (S: AL+EP+ED on the decode path); a parser "
            "error can never abort or redirect the parse (S: SW, both feature configurations); each unsafe operation "
            "on the input path is guarded by its enumerated guard and nothing else touches the raw-pointer buffer "
            "(N: UG); input-sized allocations are bounded by a constant (N: AB); every byte the encoder writes with "
            "write_all is valid UTF-8 (S: U8); explicit panic calls are guarded and str byte-offset slicing uses only "
            "offsets that are char boundaries (N: PX); no usize subtraction of the curve length fit can go below zero under "
            "the symbolically tracked vector lengths (N: LS); the Bezier scratch vectors are grown for the very slice of control "
            "points before the code that indexes them, on every path (N: BZ-S); the lossy UTF-8 replacement loop ends when the "
            "input stops inside a character (N). Not decided: index/overflow "
            "panics elsewhere, termination of numeric loops.",
            "error-provenance and swallow dataflow, unsafe-guard dominance, allocation-bound backward slices over MIR"),
    'C02': ("Partial, table level (N): every key the decoder reads is written by the writer of the same section "
            "(minus the statement's own exclusions), from the field the decoder stores it in; literal key text and "
            "numeric enum encodings are read back to the same key/variant; values of the key/value, event and colour "
            "sections are written as stored (no rounding/cast/arithmetic, K7); spinner/hold end-time separator by kind "
            "(K8); encoder redundancy tolerance not coarser than the decoder's (K9); records are lines (K10); list "
            "fields written whole (K11), the four control-point lists reach the timing lines whole (K11b); a key omitted for a value is omitted only for the decoder's default (K12); timing-line "
            "columns read the control point kind they are decoded into (K13); slider path: type letters, segment decision on "
            "the whole path type, letter followed by the position-dependent separator (K5); conversions copy fields "
            "unmodified (DG-D6); section headers are recognised. Not "
            "decided: equality of decoded values (control-point merge, float text).",
            "encoder/decoder key-table agreement over typed HIR (format_args templates decoded) and MIR"),
    'C03': ("Partial (N): the value of a key/value line is the remainder after the first colon; the six key/value "
            "parsers split only through that one function; metadata lines are not comment-stripped (also not by a "
            "delegating decoder); writer key<->field pairing, values written as stored, lists written whole and "
            "conversions copying fields unmodified as in C02; the decoder stores each key's value as read and feeds each field "
            "from one key only (K15); the decode-side "
            "numeric limits and funnel of C11. Not decided: that an arbitrary edited value "
            "prints in a form the parser accepts.",
            "callee/constant checks on MIR of the splitter and its callers + key-table agreement"),
    'C04': ("Framing clause only (S for framing): the version line is written first; the 8 section writers are "
            "called once each, unconditionally, in canonical order; each starts with its own header, which the "
            "decoder's header table maps to that section; no other bracketed header is written; literal keys are "
            "accepted; values are written with plain `{}` (N: K7); a spinner's end time is followed by `,` and a hold's "
            "by `:` by kind alone (N: K8); every begun "
            "record line is ended before the next record (N: K10); event type numbers (K4), slider path letters and "
            "separators (K5), timing-line column sources (K13); no bool is formatted with `{}` in any monomorphised encoder "
            "function (K14); the hit-object sample suffix parser rejects nothing the number parser accepted (SC-C04). "
            "Not decided: that every record line is accepted "
            "by its parser (value-level; the known "
            "trailing-type-letter defect F3 is not visible to this technique).",
            "ordered write-event extraction from typed HIR + header-table agreement"),
    'C05': ("Partial (S for the structural clauses): section->parser dispatch pairing for all 11 sections; header "
            "table equals the format's and strips exactly one bracket pair; skip test dominates header test "
            "dominates parser call on the same line; a skipped line only leads to the next read; the section loop "
            "ends only at end of input/I-O error; parser results cannot influence control flow; no impl overrides "
            "the driver; the parser is re-chosen from every header parse_section returns and dispatched on that header; "
            "LF delimiter and trailing trim; the same line-loop facts as one symbolic decision table over (read_line result, "
            "skip?, header?) that also holds for classify-then-act pipelines; the version search stops at the first non-blank "
            "line; skip rule and version-line decision tables (N: SC-C05); the "
            "line buffers are cleared before they are appended to (S: LB). Not decided: BOM/CRLF behaviour as "
            "values.",
            "dominance and reachability checks on the driver's MIR + match-table extraction from HIR"),
    'C06': ("Essentially whole (S): on every CFG path of each of the 8 primary section parsers that may end in Err, "
            "nothing reachable from the state was written, except scratch buffers proven kill-before-use (and never "
            "read by the final conversion) or clean-on-exit; the 13 delegations are transparent wrappers (one parse_* "
            "call plus pure result plumbing, no state-capturing error closure); the driver "
            "discards the Err (SW).",
            "interprocedural may-write dataflow over the mono call graph + kill-before-use must-analysis"),
    'C07': ("Essentially whole (S): 99 section methods classified (8 primary / 13 delegation / 78 no-op); delegation "
            "graph type-complete and transparent; 279 conversion field initialisers copied by name from the "
            "matching sub-value; sub-states created with their own create(version); no driver overrides; no global "
            "state.",
            "delegation-graph and conversion-table check over MIR shapes and typed HIR"),
    'C08': ("Partial: all entry points are thin wrappers of the one driver (S); every byte taken from the reader is "
            "kept or is a recognised BOM -- consume amounts, reader-filled buffers never dropped, drains limited to "
            "the BOM length (N); primitives that can surface Interrupted sit in the retry idiom, everything else is "
            "a retrying std wrapper (N). Not decided: chunk independence of std's read_until/read_to_end (trusted).",
            "input-conservation dataflow on MIR (consume/drain amounts, buffer ownership) + I/O discipline"),
    'C09': ("Near-whole (S): every io::Result produced in the decode and encode paths is propagated on every path "
            "on which it may be Err (never dropped, defaulted or replaced); encode's Ok comes from a checked flush; "
            "only write_all/write_fmt are used; no error is synthesised or converted into io::Error on the decode "
            "path; Interrupted idiom (N). Not decided: 'neither panics'.",
            "forward path exploration of io::Result values over MIR (typestate of Result/ControlFlow holders)"),
    'C11': ("Partial (N): numeric conversions in the six parsers go through the limit-checking parser (exceptions "
            "enumerated with reasons); the five flag keys are `== 1`; slider multiplier / tick rate clamps; break end "
            ">= start and every parsed break stored; limit constant; background precedence as a symbolic decision table "
            "(background always, sprite only while none is set, video only with a 3-byte non-video extension, other kinds "
            "never; the 7 extensions); Mode = exact texts 0..3; Combo* keys by prefix; "
            "bookmark entries skipped, not cut or reordered; value "
            "splitting (KV). 'Invalid values leave the field untouched' is C06 (EA). Not decided: "
            "last-valid-occurrence-wins as behaviour.",
            "spec-constant backward slices and numeric-funnel callee checks over MIR/HIR"),
    'C12': ("Partial (N/S): clamp constants of the four point constructors and the mode-gated scroll speed; the "
            "parser builds points only through the clamping constructors; the NaN test dominates timing-point "
            "construction; of the four queued points only the timing point is conditional (on timing_change); the final "
            "flush of the pending group precedes the conversion and flushes all four kinds. "
            "Not decided: the precedence rules themselves.",
            "spec-constant slices, control-dependence and must-pass-through checks over MIR"),
    'C13': ("Structural (S for order/uniqueness by the insertion lemma): the four ControlPoint::add impls binary-"
            "search their own list with total_cmp on time, insert at Err(i), replace at Ok(i), nothing else mutates the "
            "list; ControlPoints::add "
            "tests redundancy before inserting; each lookup searches its own list for the unmodified time parameter "
            "with its documented fallback. "
            "Not decided: that is_redundant compares the right values.",
            "sibling-agreement extraction over MIR/HIR against a small expected table"),
    'C14': ("Partial (N): flag constants; kind precedence circle>slider>spinner>hold as a symbolic table over the four kind bits; "
            "perfect-curve downgrade table and collinearity formula; the path-split loop as a truth table over (repeated point, "
            "Catmull, index > 1, last index); the sample suffix parser has no rejection of its own; hit-sound byte -> sample list (primary, layered rule, "
            "additions and their order/bank); coordinate/length limits "
            "and truncating casts; repeat cap and node count; node defaults; sample suffix from index >= 2 tested before "
            "the cast; hit-sound low byte; non-negative durations; circle/slider arms "
            "agree on "
            "combo rules. Not decided: the rest of the path-string grammar as values.",
            "spec-constant slices and sibling agreement over HIR/MIR"),
    'C15': ("Partial: stable sort by start_time/total_cmp precedes break processing precedes the velocity loop (S "
            "for phase order); leniency and per-mode clamp constants, multiplier clamp, base scoring distance, defaults; "
            "every passed break forces a new combo, the break cursor starts at the first break and runs over all of them (N). Not "
            "decided: velocity/duration formulas as numbers, shift invariance.",
            "dominance (phase order) and spec-constant checks over MIR/HIR"),
    'C18': ("Strong: kill-before-use (S) of CurveBuffers.path/lengths/vertices from every pub entry point taking the "
            "buffers; cache-invalidation typestate (S) for SliderPath's key fields, curve constructor arguments are "
            "the unmodified key fields, no comparison of the owner reads the cache; sibling agreement of the curve constructors and accessors (N); the grow-only "
            "Bezier scratch vectors are only used through element access / upper-bounded ranges (N: BZ) and are grown for the "
            "segment before they are taken apart, on every path (N: BZ-S); borrow/"
            "privacy facts by compile-fail witnesses (S). Not decided: that Bezier scratch elements below the point "
            "count are written before they are read (index-level).",
            "kill-before-use must-analysis over the mono call graph + dominance check for cache invalidation + "
            "compile_fail witnesses"),
    'C19': ("Partial (N): progress is clamped to [0,1] and multiplied by the last cumulative length; the raw "
            "progress parameter reaches nothing but that clamp; position_at composes progress_to_dist, idx_of_dist, "
            "interpolate_vertices on (path, lengths), every path of it ending in the interpolation or in what the interpolation "
            "table prescribes under the tests made on the way; numeric segment search; interpolate_vertices as a symbolic decision "
            "table (empty/first/beyond/zero-length segment/lerp with its weight); length fit: as many cumulative lengths as "
            "vertices on every exit and indices in range (vector-length shape analysis), closed form of the fitted end "
            "point; owned and borrowed accessor families resolve to the same free functions. Not decided: arc-length "
            "bound as a value.",
            "spec-constant slices and sibling agreement over HIR/MIR"),
    'C20': ("Partial: the tick buffer is killed on construction before any use (S) and is exclusively borrowed while "
            "an iterator lives (witness); state order Head->Ticks->LastTick->Tail->Done (S); repeat emission is not "
            "control-dependent on the tick distance while the tick loop is (N); tick emission is not control-dependent "
            "on the span (N); closed forms of head/tick/repeat/last-tick/tail times and progress as written (N); "
            "constants (N); the two encoder callers derive their parameters identically (N). Not decided: tick times "
            "and progress as numbers.",
            "kill-before-use, control-dependence and state-order checks over MIR + compile_fail witness"),
}

DESIGN_REF = 'DESIGN.md section 5 (%s), section 4'

NOT_APPLICABLE = {
    'C10': ("equality of decoded text across encodings and U+FFFD placement are value-level; the one structural "
            "symptom (byte-level LF search on UTF-16 data) admits no rule that is both non-vacuous and robust to a "
            "correct fix. Structural sub-clauses (from_utf8_unchecked guard, no synthesised EOF error, LE/BE iterator "
            "pairing) are enforced under C01/C09."),
    'C16': ("total distance, monotone finite cumulative lengths and truncation/extension geometry are floating-point "
            "results over all point lists; no sound static bound is in reach of this technique"),
    'C17': ("distance between the computed polyline and the exact Bezier/arc/Catmull curve is numerical "
            "approximation error; no static argument is in reach of this technique"),
}


def main():
    claimed = sorted(props.PROPS)
    checks = []
    for pid in claimed:
        text, tech = TEXT[pid]
        checks.append({
            'property_id': pid,
            'quick_cmd': './check %s --tier quick' % pid,
            'thorough_cmd': './check %s --tier thorough' % pid,
            'evidence_file': 'evidence/%s.json' % pid,
            'replay_cmd_template': './check %s --explain {path}' % pid,
            'engine': 'mirlint+rules',
            'level_claimed': {'category': 'other', 'text': text, 'design_ref': DESIGN_REF % pid},
            'level_note': NOTE,
            'technique': 'static analysis: ' + tech,
        })
    na = []
    for pid in ['C%02d' % i for i in range(1, 21)]:
        if pid in claimed:
            continue
        reason = NOT_APPLICABLE.get(pid, 'rule designed (DESIGN.md section 5), not implemented yet; not claimed through a weaker stand-in')
        na.append({'property_id': pid, 'reason': reason})
    m = {
        'version': 1,
        'setup_cmd': 'cargo +nightly build --release --offline --manifest-path mirlint/Cargo.toml',
        'hooks': {
            'guard': 'maxohn_rosu_map_verif',
            'enable': 'none: the static analysis needs no instrumentation; the guard is declared but guards nothing. '
                      'The only commits in /repo are the `fix:` commits listed in known_findings.txt',
            'baseline_off_cmd': 'cd /repo && cargo test --workspace --no-fail-fast --offline',
            'source_commits': [],
            'add_only': True,
        },
        'engines': [
            {'name': 'mirlint', 'path': 'mirlint/', 'serves_properties': claimed,
             'kind_free_text': "rustc_private driver (nightly) run as RUSTC_WORKSPACE_WRAPPER over /repo's lib target in "
                               "the `default` and `tracing` configurations; dumps type-checked HIR, MIR, items and a "
                               "monomorphic call graph as JSON facts; nothing of /repo is executed"},
            {'name': 'rules', 'path': 'rules/', 'serves_properties': claimed,
             'kind_free_text': 'python rule engines over the fact base: dataflow (ED, EA, KBU, IC), dominance (CI, FR), '
                               'delegation/conversion tables (DG), key tables (KT/KV), spec constants (SC), sibling '
                               'agreement (SS), unsafe guards (UG)'},
            {'name': 'witness', 'path': 'witness/', 'serves_properties': [p for p in ('C18', 'C20') if p in claimed],
             'kind_free_text': 'compile_fail doctests with compiling twins (cargo +nightly test --doc) pinning privacy and '
                               'borrow facts the MIR rules assume (thorough tier)'},
        ],
        'checks': checks,
        'not_applicable': na,
        'notes': 'static analysis only; see DESIGN.md. `./check all` runs every claimed property on one fact build.',
    }
    with open(os.path.join(HERE, 'MANIFEST.json'), 'w') as fh:
        json.dump(m, fh, indent=1)
    print('claimed', len(checks), 'not_applicable', len(na))


if __name__ == '__main__':
    main()
