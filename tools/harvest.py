#!/usr/bin/env python3
"""copy confirmed sub-agent variants from /tmp/wt/<ID>/seeded into /verif/seeded/<ID>-<V>/"""
import os, json, shutil, sys
base='/verif/seeded'
head=os.popen('git -C /repo rev-parse --short HEAD').read().strip()
ROUND = os.environ.get('SEED_ROUND', '')      # e.g. '3': variants A,B are stored as C,D
MAP = {'A': 'A', 'B': 'B'}
if ROUND == '3':
    MAP = {'A': 'C', 'B': 'D'}
if ROUND == '4':
    MAP = {'A': 'E', 'B': 'F'}
if ROUND == '5':
    MAP = {'A': 'G', 'B': 'H'}
if ROUND == '6':
    MAP = {'A': 'I', 'B': 'J'}
if ROUND == '7':
    MAP = {'A': 'K', 'B': 'L'}
if ROUND == '8':
    MAP = {'A': 'M', 'B': 'N'}
if ROUND == '9':
    MAP = {'A': 'O', 'B': 'P'}
if ROUND == '10':
    MAP = {'A': 'Q', 'B': 'R'}
if ROUND == '11':
    MAP = {'A': 'S', 'B': 'T'}
if ROUND == '12':
    MAP = {'A': 'U', 'B': 'V'}
if ROUND == '13':
    MAP = {'A': 'W', 'B': 'X'}
if ROUND == '14':
    MAP = {'A': 'Y', 'B': 'Z'}
if ROUND == '15':
    MAP = {'A': 'AA'}          # one variant per agent; the single letters are used up
for p in sys.argv[1:]:
    notes=open('/tmp/wt/%s/seeded/NOTES.md'%p).read()
    unconfirmed = []
    for v0 in sorted(MAP):
        v = MAP[v0]
        ver=json.load(open('/verif/work/verify/%s-%s.json'%(p,v)))
        if not ver.get('confirmed'):
            print('skip unconfirmed',p,v); unconfirmed.append(v); continue
        d=os.path.join(base,'%s-%s'%(p,v)); os.makedirs(d,exist_ok=True)
        shutil.copy('/tmp/wt/%s/seeded/variant%s.diff'%(p,v0), os.path.join(d,'patch.diff'))
        shutil.copy('/tmp/wt/%s/seeded/demo%s.rs'%(p,v0), os.path.join(d,'demo.rs'))
        ver.pop('worktree',None)
        if 'demo_with_change' in ver: ver['demo_with_change'].pop('tail',None)
        meta={'id':'%s-%s'%(p,v),'property':p,'source':'independent sub-agent given only the property text and a scratch worktree of /repo (HEAD %s)'%head,
              'needs_to_manifest':'see %s-NOTES%s.md (variant %s there)'%(p, ('-round'+ROUND) if ROUND else '', v0),
              'what_i_ran':['git apply patch.diff (in the scratch worktree)','cargo test --offline  (existing suite: 83 passed incl. 15 doctests, 0 failed)',
                            'cargo test --offline --test seeded_demo  (fails with the change)','git checkout -- src; cargo test --offline --test seeded_demo  (passes without it)'],
              'verification':ver}
        json.dump(meta,open(os.path.join(d,'meta.json'),'w'),indent=1)
    open(os.path.join(base,'%s-NOTES%s.md'%(p, ('-round'+ROUND) if ROUND else '')),'w').write(notes)
    if unconfirmed:
        print('worktree /tmp/wt/%s kept: look at the unconfirmed variant(s) %s, then remove it' % (p, unconfirmed))
    else:
        os.system('git -C /repo worktree remove --force /tmp/wt/%s'%p)
    print('harvested',p)
