#!/bin/bash
# verify + harvest + evaluate one round-14 agent result: tools/round4.sh C05   (variants stored as <ID>-Y / <ID>-Z)
p=$1
python3 tools/seeded.py verify /tmp/wt/$p A > work/verify/$p-Y.json 2>&1
python3 tools/seeded.py verify /tmp/wt/$p B > work/verify/$p-Z.json 2>&1
for v in Y Z; do python3 -c "
import json; r=json.load(open('work/verify/$p-$v.json')); print('$p-$v', 'confirmed' if r.get('confirmed') else 'NOT-CONFIRMED', r.get('suite_with_change'), r.get('demo_with_change',{}).get('rc'), r.get('demo_without_change'), r.get('error') or '')"; done
SEED_ROUND=14 python3 tools/harvest.py $p
for v in Y Z; do [ -f seeded/$p-$v/patch.diff ] && python3 tools/seeded.py eval seeded/$p-$v/patch.diff | python3 -c "import json,sys; r=json.load(sys.stdin); print('$p-$v', {k:[x[:130] for x in v[:2]] for k,v in r.get('fired',{}).items()}, r.get('error') or '')"; done
