import subprocess, sys, json, os
R='/tmp/fixprobe/m'
M=[
 # id, prop, file, old, new
 ("m01_swap_difficulty_fields","C02","src/encode.rs","            DifficultyKey::HPDrainRate,\n            self.hp_drain_rate,","            DifficultyKey::HPDrainRate,\n            self.circle_size,"),
 ("m02_drop_editor_header","C04","src/encode.rs",'writer.write_all(b"[Editor]\\n")?;','writer.write_all(b"[Editors]\\n")?;'),
 ("m03_flag_ne0","C11","src/section/general/decode.rs","GeneralKey::EpilepsyWarning => state.epilepsy_warning = i32::parse(value)? == 1,","GeneralKey::EpilepsyWarning => state.epilepsy_warning = i32::parse(value)? != 0,"),
 ("m04_clamp_sm","C11","src/section/difficulty.rs","f64::parse(value)?.clamp(0.4, 3.6)","f64::parse(value)?.clamp(0.4, 36.0)"),
 ("m05_break_nomax","C11","src/section/events/decode.rs","let end_time = start_time.max(f64::parse(event_params)?);","let end_time = f64::parse(event_params)?;"),
 ("m06_has_ar_early","C06","src/section/difficulty.rs","                state.difficulty.approach_rate = value.parse_num()?;\n                state.has_approach_rate = true;","                state.has_approach_rate = true;\n                state.difficulty.approach_rate = value.parse_num()?;"),
 ("m07_beatmap_colors_noop","C07","src/beatmap.rs","        Colors::parse_colors(&mut state.colors, line).map_err(ParseBeatmapError::Colors)","        let _ = (state, line);\n        Ok(())"),
 ("m08_conv_swap_bool","C07","src/beatmap.rs","            letterbox_in_breaks: hit_objects.letterbox_in_breaks,\n            special_style: hit_objects.special_style,\n            widescreen_storyboard: hit_objects.widescreen_storyboard,\n            epilepsy_warning: hit_objects.epilepsy_warning,\n            samples_match_playback_rate: hit_objects.samples_match_playback_rate,\n            countdown: hit_objects.countdown,\n            countdown_offset: hit_objects.countdown_offset,\n            bookmarks: editor.bookmarks,\n            distance_spacing: editor.distance_spacing,\n            beat_divisor: editor.beat_divisor,\n            grid_size: editor.grid_size,\n            timeline_zoom: editor.timeline_zoom,\n            title: metadata.title,\n            title_unicode: metadata.title_unicode,\n            artist: metadata.artist,\n            artist_unicode: metadata.artist_unicode,\n            creator: metadata.creator,\n            version: metadata.version,\n            source: metadata.source,\n            tags: metadata.tags,\n            beatmap_id: metadata.beatmap_id,\n            beatmap_set_id: metadata.beatmap_set_id,\n            hp_drain_rate: hit_objects.hp_drain_rate,\n            circle_size: hit_objects.circle_size,\n            overall_difficulty: hit_objects.overall_difficulty,\n            approach_rate: hit_objects.approach_rate,\n            slider_multiplier: hit_objects.slider_multiplier,\n            slider_tick_rate: hit_objects.slider_tick_rate,\n            background_file: hit_objects.background_file,\n            breaks: hit_objects.breaks,\n            control_points: hit_objects.control_points,\n            custom_combo_colors: colors.custom_combo_colors,\n            custom_colors: colors.custom_colors,\n            hit_objects: hit_objects.hit_objects,\n        }\n    }\n}\n\nimpl DecodeBeatmap for Beatmap","@@LAST"),
 ("m09_flush_dropped","C09","src/encode.rs","        writer.flush()\n    }","        let _ = writer.flush();\n\n        Ok(())\n    }"),
 ("m10_write_q_removed","C09","src/encode.rs",'            writeln!(writer, "{}: {}", GeneralKey::EpilepsyWarning, 1)?;','            let _ = writeln!(writer, "{}: {}", GeneralKey::EpilepsyWarning, 1);'),
 ("m11_readline_swallow","C09","src/reader/decoder.rs","        if self.inner.read_until(b'\\n', &mut self.read_buf)? == 0 {","        if self.inner.read_until(b'\\n', &mut self.read_buf).unwrap_or(0) == 0 {"),
 ("m12_unchecked_guard","C01","src/section/hit_objects/hit_samples.rs","suffix: (custom_sample_bank >= 2)","suffix: (custom_sample_bank != 1)"),
 ("m13_point_split_noclear","C01","src/section/hit_objects/decode.rs","        let res = f(self, point_split);\n        self.point_split.clear();","        let res = f(self, point_split);"),
 ("m14_repeat_cap","C01","src/section/hit_objects/decode.rs","            if repeat_count > 9000 {\n                return Err(ParseHitObjectsError::InvalidRepeatCount(repeat_count));\n            }\n","\n"),
 ("m15_arc_cap","C01","src/section/hit_objects/slider/curve.rs","    if sub_points >= 1000 {\n        return false;\n    }\n","\n"),
 ("m16_add_wrong_index","C13","src/section/timing_points/decode.rs","            Err(i) => control_points.effect_points.insert(i, self),\n            Ok(i) => control_points.effect_points[i] = self,","            Err(i) => control_points.effect_points.insert(i, self),\n            Ok(i) => control_points.effect_points.insert(i, self),"),
 ("m17_lookup_fallback","C13","src/section/timing_points/decode.rs","    pub fn effect_point_at(&self, time: f64) -> Option<&EffectPoint> {\n        self.effect_points\n            .binary_search_by(|probe| probe.time.total_cmp(&time))\n            .map_or_else(|i| i.checked_sub(1), Some)","    pub fn effect_point_at(&self, time: f64) -> Option<&EffectPoint> {\n        self.effect_points\n            .binary_search_by(|probe| probe.time.total_cmp(&time))\n            .map_or_else(|i| Some(i.saturating_sub(1)).filter(|_| !self.effect_points.is_empty()), Some)"),
 ("m18_spinner_hold_order","C14","src/section/hit_objects/decode.rs","@@SPIN","@@SPIN"),
 ("m19_sort_unstable","C15","src/section/hit_objects/decode.rs","hit_objects.sort_by(|a, b| a.start_time.total_cmp(&b.start_time));","hit_objects.sort_unstable_by(|a, b| a.start_time.total_cmp(&b.start_time));"),
 ("m20_expected_dist_mut_noclear","C18","src/section/hit_objects/slider/path.rs","    pub fn expected_dist_mut(&mut self) -> &mut Option<f64> {\n        self.clear_curve();\n","    pub fn expected_dist_mut(&mut self) -> &mut Option<f64> {\n"),
 ("m21_borrowed_none","C18","src/section/hit_objects/slider/path.rs","            BorrowedCurve::new(self.mode, &self.control_points, self.expected_dist, bufs)","            BorrowedCurve::new(self.mode, &self.control_points, None, bufs)"),
 ("m22_progress_noclamp","C19","src/section/hit_objects/slider/curve.rs","    progress.clamp(0.0, 1.0) * dist(lengths)","    progress * dist(lengths)"),
 ("m23_ticks_noclear","C20","src/section/hit_objects/slider/event.rs","        tick_dist = tick_dist.clamp(0.0, len);\n        ticks.clear();","        tick_dist = tick_dist.clamp(0.0, len);"),
 ("m24_dispatch_swap","C05","src/decode.rs","                Section::Variables => Self::parse_variables,\n                Section::CatchTheBeat => Self::parse_catch_the_beat,","                Section::Variables => Self::parse_catch_the_beat,\n                Section::CatchTheBeat => Self::parse_variables,"),
 ("m25_last_object_early","C06","src/section/hit_objects/decode.rs","        let sound_type: HitSoundType = sound_type.parse()?;\n        let mut bank_info = SampleBankInfo::default();","        state.last_object = Some(hit_object_type);\n        let sound_type: HitSoundType = sound_type.parse()?;\n        let mut bank_info = SampleBankInfo::default();"),
 ("m26_scroll_all_modes","C12","src/section/timing_points/decode.rs","        if matches!(state.general.mode, GameMode::Taiko | GameMode::Mania) {\n            effect.scroll_speed = speed_multiplier.clamp(0.01, 10.0);\n        }","        effect.scroll_speed = speed_multiplier.clamp(0.01, 10.0);"),
 ("m27_volume_clamp","C12","src/section/timing_points/control_points/sample.rs","            sample_volume: sample_volume.clamp(0, 100),","            sample_volume: sample_volume.clamp(0, 1000),"),
 ("m28_metadata_trim_comment","C03","src/section/metadata.rs","        let Ok(KeyValue { key, value }) = KeyValue::parse(line) else {","        let Ok(KeyValue { key, value }) = KeyValue::parse(line.trim_comment()) else {"),
 ("m29_parse_bypass","C11","src/section/general/decode.rs","GeneralKey::StackLeniency => state.stack_leniency = value.parse_num()?,","GeneralKey::StackLeniency => {\n                state.stack_leniency = value.parse().map_err(ParseNumberError::InvalidFloat)?;\n            }"),
 ("m30_repeat_inside_guard","C20","src/section/hit_objects/slider/event.rs","@@REP","@@REP"),
 ("m31_leniency","C15","src/section/hit_objects/decode.rs","                .sample_point_at(end_time + CONTROL_POINT_LENIENCY)","                .sample_point_at(end_time)"),
 ("m32_first_mut_unwrap","C01","src/section/hit_objects/decode.rs","        self.vertices\n            .first_mut()\n            .ok_or(ParseHitObjectsError::InvalidLine)?\n            .path_type = Some(path_type);","        self.vertices.first_mut().unwrap().path_type = Some(path_type);"),
 ("m35_tp_conv_swap","C07","src/section/timing_points/decode.rs","            preview_time: state.general.preview_time,\n            default_sample_bank: state.general.default_sample_bank,\n            default_sample_volume: state.general.default_sample_volume,","            preview_time: state.general.default_sample_volume,\n            default_sample_bank: state.general.default_sample_bank,\n            default_sample_volume: state.general.preview_time,"),
 ("m36_io_err_swallowed","C09","src/decode.rs","            Ok(None) => return Ok(SectionFlow::Break(())),\n            Err(err) => return Err(err),\n        }\n    }\n}\n\n#[cfg(feature","            Ok(None) | Err(_) => return Ok(SectionFlow::Break(())),\n        }\n    }\n}\n\n#[cfg(feature"),
 ("m37_nodes_plus1","C14","src/section/hit_objects/decode.rs","let nodes = repeat_count as usize + 2;","let nodes = repeat_count as usize + 1;"),
 ("m40_lengths_noclear","C18","src/section/hit_objects/slider/curve.rs","    cumulative_len.clear();\n","\n"),
 ("m42_borrowed_new_none","C18","src/section/hit_objects/slider/curve.rs","        calculate_path(mode, points, bufs, &mut optimized_len);\n        calculate_length(bufs, expected_len, optimized_len);\n\n        Self {\n            path: &bufs.path,","        calculate_path(mode, points, bufs, &mut optimized_len);\n        calculate_length(bufs, None, optimized_len);\n        let _ = expected_len;\n\n        Self {\n            path: &bufs.path,"),
 ("m43_parse_error_aborts","C05","src/decode.rs","                #[allow(unused)]\n                let res = f(state, line);\n","                #[allow(unused)]\n                let res = f(state, line);\n\n                if res.is_err() && line.len() > 4096 {\n                    return Ok(SectionFlow::Break(()));\n                }\n"),
 ("m44_consume_all","C08","src/reader/decoder.rs","        let (encoding, consumed) = Encoding::from_bom(buf);\n        reader.consume(consumed);","        let (encoding, consumed) = Encoding::from_bom(buf);\n        reader.consume(consumed.max(usize::from(buf.first() == Some(&0))));"),
 ("m45_kv_splitn3","C03","src/util/key_value.rs","let mut split = s.split(':').map(str::trim);","let mut split = s.split(\':\').map(str::trim).take(2);"),
]
def run(cmd):
    return subprocess.run(cmd, shell=True, cwd=R, capture_output=True, text=True)
res={}
only=set(sys.argv[1:])
for (mid,prop,f,old,new) in M:
    if only and mid not in only: continue
    p=os.path.join(R,f); s=open(p).read()
    if old=="@@SPIN":
        a="        } else if hit_object_type.has_flag(HitObjectType::SPINNER) {"
        b="        } else if hit_object_type.has_flag(HitObjectType::HOLD) {"
        i=s.index(a); j=s.index(b); k=s.index("        } else {\n            return Err(ParseHitObjectsError::UnknownHitObjectType(hit_object_type));")
        spin=s[i:j]; hold=s[j:k]
        t=s[:i]+hold+spin+s[k:]
    elif old=="@@REP":
        a="    // We pop from the back so we want to double-reverse\n    if !reversed {\n        if with_repeat {\n            let repeat = new_repeat_point(span, span_start_time, iter.span_duration);\n            iter.ticks.push(repeat);\n        }\n\n        iter.ticks.reverse();\n    }"
        assert a in s
        t=s.replace(a,"    if !reversed {\n        iter.ticks.reverse();\n    }")
        t=t.replace("            iter.ticks.push(tick);\n            d += iter.tick_dist;\n        }\n    }","            iter.ticks.push(tick);\n            d += iter.tick_dist;\n        }\n\n        if !reversed && with_repeat {\n            let repeat = new_repeat_point(span, span_start_time, iter.span_duration);\n            iter.ticks.push(repeat);\n        }\n    }")
    elif new=="@@LAST":
        # swap two bool fields in From<BeatmapState> (second occurrence)
        a="            letterbox_in_breaks: hit_objects.letterbox_in_breaks,\n            special_style: hit_objects.special_style,"
        idx=s.rindex(a)
        t=s[:idx]+"            letterbox_in_breaks: hit_objects.special_style,\n            special_style: hit_objects.letterbox_in_breaks,"+s[idx+len(a):]
    else:
        if old not in s: res[mid]="ANCHOR-MISSING"; print(mid,res[mid]); continue
        t=s.replace(old,new,1)
    open(p,'w').write(t)
    r=run("cargo test --offline --tests --lib 2>&1 | grep -E '^test result|^error|panicked|FAILED' | head -8")
    out=r.stdout
    if 'error' in out and 'test result' not in out: v="COMPILE-ERROR"
    elif 'FAILED' in out or 'failed;' in out and ' 0 failed' not in out: v="TESTS-FAIL"
    else:
        fails=[l for l in out.splitlines() if 'test result' in l and ' 0 failed' not in l]
        v="TESTS-FAIL" if fails else "SURVIVES"
    res[mid]=v; print(mid,prop,v, flush=True)
    if v!="SURVIVES": print("   ",out.replace("\n"," | ")[:400])
    open(p,'w').write(s)
json.dump(res,open('/tmp/fixprobe/mutant_results.json','w'),indent=1)
