//! Compile-fail witnesses (each paired with a compiling twin that differs only in the offending
//! line) for the closed-world facts the MIR/HIR rules of /verif assume.  Run with
//! `cargo +nightly test --doc --offline` (error codes are only checked on nightly).  The twins are
//! `no_run`: they are only type-checked, nothing of the analysed crate is executed.
//!
//! The crate names `rosu_map` as an external user would.

/// W1 (C18): a second curve cannot be computed with `bufs` while a `BorrowedCurve` borrowed
/// from `bufs` is alive.
///
/// ```compile_fail,E0499
/// use rosu_map::section::general::GameMode;
/// use rosu_map::section::hit_objects::{BorrowedCurve, CurveBuffers, PathControlPoint};
/// let pts = [PathControlPoint::default()];
/// let mut bufs = CurveBuffers::default();
/// let first = BorrowedCurve::new(GameMode::Osu, &pts, None, &mut bufs);
/// let second = BorrowedCurve::new(GameMode::Osu, &pts, Some(1.0), &mut bufs); // second &mut
/// let _ = first.dist();
/// let _ = second.dist();
/// ```
///
/// twin:
/// ```no_run
/// use rosu_map::section::general::GameMode;
/// use rosu_map::section::hit_objects::{BorrowedCurve, CurveBuffers, PathControlPoint};
/// let pts = [PathControlPoint::default()];
/// let mut bufs = CurveBuffers::default();
/// let first = BorrowedCurve::new(GameMode::Osu, &pts, None, &mut bufs);
/// let _ = first.dist();
/// let second = BorrowedCurve::new(GameMode::Osu, &pts, Some(1.0), &mut bufs);
/// let _ = second.dist();
/// ```
pub struct W1;

/// W2 (C18, closed world of the cache-invalidation rule): the key fields and the cache of a
/// `SliderPath` cannot be touched directly.
///
/// ```compile_fail,E0616
/// use rosu_map::section::general::GameMode;
/// use rosu_map::section::hit_objects::SliderPath;
/// let mut path = SliderPath::new(GameMode::Osu, Vec::new(), None);
/// path.expected_dist = Some(3.0); // private field
/// ```
///
/// ```compile_fail,E0616
/// use rosu_map::section::general::GameMode;
/// use rosu_map::section::hit_objects::SliderPath;
/// let mut path = SliderPath::new(GameMode::Osu, Vec::new(), None);
/// path.control_points.clear(); // private field
/// ```
///
/// ```compile_fail,E0616
/// use rosu_map::section::general::GameMode;
/// use rosu_map::section::hit_objects::SliderPath;
/// let mut path = SliderPath::new(GameMode::Osu, Vec::new(), None);
/// let _ = path.curve.take(); // private field
/// ```
///
/// twin:
/// ```no_run
/// use rosu_map::section::general::GameMode;
/// use rosu_map::section::hit_objects::SliderPath;
/// let mut path = SliderPath::new(GameMode::Osu, Vec::new(), None);
/// *path.expected_dist_mut() = Some(3.0);
/// path.control_points_mut().clear();
/// path.clear_curve();
/// ```
pub struct W2;

/// W3 (C18): a `SliderPath` cannot be built with a struct literal outside the crate (a literal
/// could pre-fill the cache).
///
/// ```compile_fail,E0451
/// use rosu_map::section::general::GameMode;
/// use rosu_map::section::hit_objects::SliderPath;
/// let _ = SliderPath { mode: GameMode::Osu, control_points: Vec::new(), expected_dist: None, curve: None };
/// ```
///
/// twin:
/// ```no_run
/// use rosu_map::section::general::GameMode;
/// use rosu_map::section::hit_objects::SliderPath;
/// let _ = SliderPath::new(GameMode::Osu, Vec::new(), None);
/// ```
pub struct W3;

/// W4 (C18): the cached curve cannot be (re)filled while the `&mut Vec` handed out by
/// `control_points_mut()` is alive, so a write through it can never be followed by a stale cache.
///
/// ```compile_fail,E0499
/// use rosu_map::section::general::GameMode;
/// use rosu_map::section::hit_objects::{PathControlPoint, SliderPath};
/// let mut path = SliderPath::new(GameMode::Osu, Vec::new(), None);
/// let points = path.control_points_mut();
/// let _ = path.curve().dist(); // second &mut while `points` is alive
/// points.push(PathControlPoint::default());
/// ```
///
/// twin:
/// ```no_run
/// use rosu_map::section::general::GameMode;
/// use rosu_map::section::hit_objects::{PathControlPoint, SliderPath};
/// let mut path = SliderPath::new(GameMode::Osu, Vec::new(), None);
/// let points = path.control_points_mut();
/// points.push(PathControlPoint::default());
/// let _ = path.curve().dist();
/// ```
pub struct W4;

/// W5 (C18, closed world of the kill-before-use rule): the scratch vectors of `CurveBuffers`
/// cannot be touched from outside.
///
/// ```compile_fail,E0616
/// use rosu_map::section::hit_objects::CurveBuffers;
/// let bufs = CurveBuffers::default();
/// let _ = bufs.path.len(); // private field
/// ```
///
/// twin:
/// ```no_run
/// use rosu_map::section::hit_objects::CurveBuffers;
/// let bufs = CurveBuffers::default();
/// let _ = bufs.clone();
/// ```
pub struct W5;

/// W6 (C20): the tick buffer cannot be modified while a `SliderEventsIter` over it is alive.
///
/// ```compile_fail,E0499
/// use rosu_map::section::hit_objects::SliderEventsIter;
/// let mut ticks = Vec::new();
/// let mut iter = SliderEventsIter::new(0.0, 1000.0, 1.0, 100.0, 1000.0, 2, &mut ticks);
/// let head = iter.next().unwrap();
/// ticks.push(head); // second &mut while `iter` is alive
/// let _ = iter.next();
/// ```
///
/// twin:
/// ```no_run
/// use rosu_map::section::hit_objects::SliderEventsIter;
/// let mut ticks = Vec::new();
/// let mut iter = SliderEventsIter::new(0.0, 1000.0, 1.0, 100.0, 1000.0, 2, &mut ticks);
/// let head = iter.next().unwrap();
/// let _ = iter.next();
/// ticks.push(head);
/// ```
pub struct W6;

/// W7 (C01, who-may-touch of the raw-pointer buffer): `HitObjectsState::point_split` is private.
///
/// ```compile_fail,E0616
/// use rosu_map::DecodeState;
/// use rosu_map::section::hit_objects::HitObjectsState;
/// let mut state = HitObjectsState::create(14);
/// state.point_split.clear(); // private field
/// ```
///
/// twin:
/// ```no_run
/// use rosu_map::DecodeState;
/// use rosu_map::section::hit_objects::HitObjectsState;
/// let mut state = HitObjectsState::create(14);
/// state.curve_points.clear();
/// ```
pub struct W7;

/// W8 (C08, single driver): the line reader and the driver internals cannot be named from outside;
/// every decoder goes through `DecodeBeatmap::decode`.
///
/// ```compile_fail,E0603
/// use rosu_map::reader::Decoder; // private module
/// ```
///
/// ```compile_fail,E0603
/// use rosu_map::decode::parse_section; // private module
/// ```
///
/// twin:
/// ```no_run
/// use rosu_map::{DecodeBeatmap, Beatmap};
/// let _ = Beatmap::decode(&b"osu file format v14"[..]).unwrap();
/// ```
pub struct W8;
