//! Compile-fail witnesses (each paired with a compiling twin that differs only in the offending
//! line) for the closed-world facts the MIR/HIR rules of /verif assume.  Run with
//! `cargo +nightly test --doc --offline` (error codes are only checked on nightly).  The twins are
//! `no_run`: they are only type-checked, nothing of the analysed crate is executed.
//!
//! The crate names `rosu_map` as an external user would and uses its public API only, so that
//! renaming private items cannot break a witness.  Privacy facts (private fields of `SliderPath`,
//! `CurveBuffers`, the raw-pointer buffer, the unreachable driver internals) are checked from the
//! compiler's effective-visibility table by the PV rule instead.

/// W1 (C18): a second curve cannot be computed with `bufs` while a `BorrowedCurve` borrowed
/// from `bufs` is alive.
///
/// ```compile_fail,E0499
/// use rosu_map::section::general::GameMode;
/// use rosu_map::section::hit_objects::{BorrowedCurve, CurveBuffers, PathControlPoint};
/// let pts = [PathControlPoint::default()];
/// let mut bufs = CurveBuffers::default();
/// let first = BorrowedCurve::new(GameMode::Osu, &pts, None, &mut bufs);
/// let second = BorrowedCurve::new(GameMode::Osu, &pts, Some(1.0), &mut bufs); // second &mut
/// let _ = first.dist();
/// let _ = second.dist();
/// ```
///
/// twin:
/// ```no_run
/// use rosu_map::section::general::GameMode;
/// use rosu_map::section::hit_objects::{BorrowedCurve, CurveBuffers, PathControlPoint};
/// let pts = [PathControlPoint::default()];
/// let mut bufs = CurveBuffers::default();
/// let first = BorrowedCurve::new(GameMode::Osu, &pts, None, &mut bufs);
/// let _ = first.dist();
/// let second = BorrowedCurve::new(GameMode::Osu, &pts, Some(1.0), &mut bufs);
/// let _ = second.dist();
/// ```
pub struct W1;

/// W4 (C18): the cached curve cannot be (re)filled while the `&mut Vec` handed out by
/// `control_points_mut()` is alive, so a write through it can never be followed by a stale cache.
///
/// ```compile_fail,E0499
/// use rosu_map::section::general::GameMode;
/// use rosu_map::section::hit_objects::{PathControlPoint, SliderPath};
/// let mut path = SliderPath::new(GameMode::Osu, Vec::new(), None);
/// let points = path.control_points_mut();
/// let _ = path.curve().dist(); // second &mut while `points` is alive
/// points.push(PathControlPoint::default());
/// ```
///
/// twin:
/// ```no_run
/// use rosu_map::section::general::GameMode;
/// use rosu_map::section::hit_objects::{PathControlPoint, SliderPath};
/// let mut path = SliderPath::new(GameMode::Osu, Vec::new(), None);
/// let points = path.control_points_mut();
/// points.push(PathControlPoint::default());
/// let _ = path.curve().dist();
/// ```
pub struct W4;

/// W6 (C20): the tick buffer cannot be modified while a `SliderEventsIter` over it is alive.
///
/// ```compile_fail,E0499
/// use rosu_map::section::hit_objects::SliderEventsIter;
/// let mut ticks = Vec::new();
/// let mut iter = SliderEventsIter::new(0.0, 1000.0, 1.0, 100.0, 1000.0, 2, &mut ticks);
/// let head = iter.next().unwrap();
/// ticks.push(head); // second &mut while `iter` is alive
/// let _ = iter.next();
/// ```
///
/// twin:
/// ```no_run
/// use rosu_map::section::hit_objects::SliderEventsIter;
/// let mut ticks = Vec::new();
/// let mut iter = SliderEventsIter::new(0.0, 1000.0, 1.0, 100.0, 1000.0, 2, &mut ticks);
/// let head = iter.next().unwrap();
/// let _ = iter.next();
/// ticks.push(head);
/// ```
pub struct W6;

