//! mirlint: a rustc_private driver that dumps the *resolved program* of the
//! crate being compiled (type-checked HIR expression trees, MIR of every body,
//! items, and a monomorphic call graph from the API roots) as one JSON fact
//! file.  The rules themselves live in /verif/rules (python) and run over
//! this fact file; nothing of the analysed crate is ever executed.
//!
//! Used as RUSTC_WORKSPACE_WRAPPER: argv[1] is the real rustc.
#![feature(rustc_private)]
#![feature(box_patterns)]
#![allow(clippy::all)]

extern crate rustc_abi;
extern crate rustc_ast;
extern crate rustc_data_structures;
extern crate rustc_driver;
extern crate rustc_hir;
extern crate rustc_index;
extern crate rustc_interface;
extern crate rustc_middle;
extern crate rustc_span;

#[macro_use]
mod json;
mod hir_dump;
mod items;
mod mir_dump;
mod mono;

use json::J;
use rustc_driver::Compilation;
use rustc_hir::def_id::LOCAL_CRATE;
use rustc_middle::ty::TyCtxt;
use std::env;

struct Cb;

impl rustc_driver::Callbacks for Cb {
    fn after_analysis<'tcx>(
        &mut self,
        _c: &rustc_interface::interface::Compiler,
        tcx: TyCtxt<'tcx>,
    ) -> Compilation {
        let name = tcx.crate_name(LOCAL_CRATE).to_string();
        let want = env::var("MIRLINT_CRATES").unwrap_or_else(|_| "rosu_map".to_string());
        if want.split(',').any(|c| c == name) {
            if let Ok(out) = env::var("MIRLINT_OUT") {
                dump(tcx, &name, &out);
            }
        }
        Compilation::Continue
    }
}

fn dump<'tcx>(tcx: TyCtxt<'tcx>, name: &str, out: &str) {
    let mut root = J::obj();
    root.put("crate", J::s(name));
    root.put("rustc", J::s(option_env!("CFG_VERSION").unwrap_or("nightly")));
    let cfgs: Vec<J> = tcx
        .sess
        .config
        .iter()
        .filter_map(|(k, v)| {
            if k.as_str() == "feature" {
                v.map(|v| J::s(v.as_str()))
            } else {
                None
            }
        })
        .collect();
    root.put("features", J::Arr(cfgs));
    root.put("items", items::dump_items(tcx));
    root.put("bodies", mir_dump::dump_bodies(tcx));
    root.put("hir", hir_dump::dump_hir(tcx));
    root.put("mono", mono::dump_mono(tcx));
    let mut s = String::with_capacity(1 << 24);
    root.write(&mut s);
    // one write per process
    std::fs::write(out, s).expect("mirlint: cannot write fact file");
}

fn main() {
    let mut args: Vec<String> = env::args().collect();
    // RUSTC_WORKSPACE_WRAPPER passes the real rustc as argv[1]
    if args.len() > 1 && !args[1].starts_with('-') && args[1].contains("rustc") {
        args.remove(1);
    }
    let code = rustc_driver::catch_with_exit_code(|| {
        rustc_driver::run_compiler(&args, &mut Cb);
    });
    std::process::exit(if code == std::process::ExitCode::SUCCESS { 0 } else { 1 });
}
