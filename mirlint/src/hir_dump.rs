//! Type-checked HIR expression trees of every function body (closures inline).
use crate::json::J;
use rustc_ast::LitKind;
use rustc_hir as hir;
use rustc_hir::def::{DefKind, Res};
use rustc_middle::ty::{TyCtxt, TypeckResults};

struct H<'tcx> {
    tcx: TyCtxt<'tcx>,
    tr: &'tcx TypeckResults<'tcx>,
}

fn line<'tcx>(tcx: TyCtxt<'tcx>, sp: rustc_span::Span) -> i128 {
    let sm = tcx.sess.source_map();
    sm.lookup_char_pos(sp.source_callsite().lo()).line as i128
}

impl<'tcx> H<'tcx> {
    fn res(&self, qpath: &hir::QPath<'tcx>, id: hir::HirId) -> J {
        let tcx = self.tcx;
        match self.tr.qpath_res(qpath, id) {
            Res::Def(kind, did) => {
                let mut o = jobj! {"k" => J::s("path"), "def" => J::s(tcx.def_path_str(did)), "dk" => J::s(format!("{:?}", kind))};
                if let DefKind::Ctor(..) = kind {
                    // path of the variant / struct
                    let parent = tcx.parent(did);
                    o.put("ctor_of", J::s(tcx.def_path_str(parent)));
                    o.put("name", J::s(tcx.item_name(parent).to_string()));
                } else if let Some(n) = tcx.opt_item_name(did) {
                    o.put("name", J::s(n.to_string()));
                }
                o
            }
            Res::Local(hid) => {
                jobj! {"k" => J::s("local"), "name" => J::s(tcx.hir_name(hid).to_string())}
            }
            Res::SelfCtor(_) => jobj! {"k" => J::s("path"), "def" => J::s("Self"), "dk" => J::s("SelfCtor")},
            other => jobj! {"k" => J::s("path"), "def" => J::s(format!("{:?}", other)), "dk" => J::s("Other")},
        }
    }

    fn pat(&self, p: &hir::Pat<'tcx>) -> J {
        use hir::PatKind::*;
        match &p.kind {
            Wild => jobj! {"k" => J::s("wild")},
            Binding(mode, _, ident, sub) => {
                let mut o = jobj! {"k" => J::s("bind"), "name" => J::s(ident.name.to_string()), "mode" => J::s(format!("{:?}", mode))};
                if let Some(s) = sub {
                    o.put("sub", self.pat(s));
                }
                o
            }
            Struct(qp, fields, _) => {
                let fs: Vec<J> = fields
                    .iter()
                    .map(|f| jobj! {"n" => J::s(f.ident.name.to_string()), "p" => self.pat(f.pat)})
                    .collect();
                jobj! {"k" => J::s("pstruct"), "path" => self.res(qp, p.hir_id), "fields" => J::Arr(fs)}
            }
            TupleStruct(qp, pats, _) => {
                jobj! {"k" => J::s("ptstruct"), "path" => self.res(qp, p.hir_id), "pats" => J::Arr(pats.iter().map(|x| self.pat(x)).collect())}
            }
            Or(pats) => {
                jobj! {"k" => J::s("por"), "pats" => J::Arr(pats.iter().map(|x| self.pat(x)).collect())}
            }
            Tuple(pats, _) => {
                jobj! {"k" => J::s("ptuple"), "pats" => J::Arr(pats.iter().map(|x| self.pat(x)).collect())}
            }
            Ref(inner, ..) | Box(inner) | Deref(inner) => {
                jobj! {"k" => J::s("pref"), "p" => self.pat(inner)}
            }
            Expr(e) => {
                jobj! {"k" => J::s("pexpr"), "e" => self.pat_expr(e)}
            }
            Range(a, b, _) => {
                let mut o = jobj! {"k" => J::s("prange")};
                if let Some(a) = a {
                    o.put("lo", self.pat_expr(a));
                }
                if let Some(b) = b {
                    o.put("hi", self.pat_expr(b));
                }
                o
            }
            Slice(a, mid, b) => {
                jobj! {"k" => J::s("pslice"),
                "before" => J::Arr(a.iter().map(|x| self.pat(x)).collect()),
                "rest" => J::Bool(mid.is_some()),
                "after" => J::Arr(b.iter().map(|x| self.pat(x)).collect())}
            }
            _ => jobj! {"k" => J::s("pother")},
        }
    }

    fn pat_expr(&self, e: &hir::PatExpr<'tcx>) -> J {
        match &e.kind {
            hir::PatExprKind::Lit { lit, negated } => {
                let mut o = self.lit(&lit.node);
                if *negated {
                    o.put("neg", J::Bool(true));
                }
                o
            }
            hir::PatExprKind::Path(qp) => self.res(qp, e.hir_id),
            #[allow(unreachable_patterns)]
            _ => jobj! {"k" => J::s("other")},
        }
    }

    fn lit(&self, l: &LitKind) -> J {
        match l {
            LitKind::Str(s, _) => jobj! {"k" => J::s("lit"), "t" => J::s("str"), "v" => J::s(s.to_string())},
            LitKind::ByteStr(b, _) => {
                jobj! {"k" => J::s("lit"), "t" => J::s("bytes"), "v" => J::Arr(b.as_byte_str().iter().map(|x| J::Int(*x as i128)).collect())}
            }
            LitKind::Byte(b) => jobj! {"k" => J::s("lit"), "t" => J::s("byte"), "v" => J::Int(*b as i128)},
            LitKind::Char(c) => jobj! {"k" => J::s("lit"), "t" => J::s("char"), "v" => J::s(c.to_string())},
            LitKind::Int(n, _) => jobj! {"k" => J::s("lit"), "t" => J::s("int"), "v" => J::Int(n.get() as i128)},
            LitKind::Float(s, _) => {
                let txt = s.to_string().replace('_', "");
                let v = txt.parse::<f64>().unwrap_or(f64::NAN);
                jobj! {"k" => J::s("lit"), "t" => J::s("float"), "v" => J::Float(v), "txt" => J::s(txt)}
            }
            LitKind::Bool(b) => jobj! {"k" => J::s("lit"), "t" => J::s("bool"), "v" => J::Bool(*b)},
            _ => jobj! {"k" => J::s("lit"), "t" => J::s("other")},
        }
    }

    fn block(&self, b: &hir::Block<'tcx>) -> J {
        let mut stmts = Vec::new();
        for s in b.stmts {
            match &s.kind {
                hir::StmtKind::Let(l) => {
                    let mut o = jobj! {"k" => J::s("slet"), "pat" => self.pat(l.pat), "ln" => J::Int(line(self.tcx, s.span))};
                    if let Some(i) = l.init {
                        o.put("init", self.expr(i));
                    }
                    if let Some(e) = l.els {
                        o.put("els", self.block(e));
                    }
                    stmts.push(o);
                }
                hir::StmtKind::Expr(e) | hir::StmtKind::Semi(e) => stmts.push(self.expr(e)),
                hir::StmtKind::Item(_) => {}
            }
        }
        let mut o = jobj! {"k" => J::s("block"), "stmts" => J::Arr(stmts)};
        if let Some(e) = b.expr {
            o.put("expr", self.expr(e));
        }
        if matches!(b.rules, hir::BlockCheckMode::UnsafeBlock(_)) {
            o.put("unsafe", J::Bool(true));
        }
        o
    }

    fn exprs(&self, es: &[hir::Expr<'tcx>]) -> J {
        J::Arr(es.iter().map(|e| self.expr(e)).collect())
    }

    fn expr(&self, e: &hir::Expr<'tcx>) -> J {
        use hir::ExprKind::*;
        let tcx = self.tcx;
        let mut want_ty = false;
        let mut o = match &e.kind {
            Path(qp) => {
                want_ty = true;
                self.res(qp, e.hir_id)
            }
            Field(b, ident) => {
                want_ty = true;
                jobj! {"k" => J::s("field"), "e" => self.expr(b), "n" => J::s(ident.name.to_string())}
            }
            MethodCall(seg, recv, args, _) => {
                want_ty = true;
                let mut o = jobj! {"k" => J::s("mcall"), "name" => J::s(seg.ident.name.to_string()), "recv" => self.expr(recv), "args" => self.exprs(args)};
                if let Some(did) = self.tr.type_dependent_def_id(e.hir_id) {
                    o.put("def", J::s(tcx.def_path_str(did)));
                    let na = self.tr.node_args(e.hir_id);
                    o.put("full", J::s(tcx.def_path_str_with_args(did, na)));
                }
                o
            }
            Call(f, args) => {
                want_ty = true;
                let mut o = jobj! {"k" => J::s("call"), "f" => self.expr(f), "args" => self.exprs(args)};
                if let Path(qp) = &f.kind {
                    if let Res::Def(_, did) = self.tr.qpath_res(qp, f.hir_id) {
                        let na = self.tr.node_args(f.hir_id);
                        o.put("full", J::s(tcx.def_path_str_with_args(did, na)));
                    }
                }
                o
            }
            AddrOf(_, m, inner) => {
                jobj! {"k" => J::s("addr"), "mut" => J::Bool(m.is_mut()), "e" => self.expr(inner)}
            }
            Unary(op, a) => {
                want_ty = true;
                jobj! {"k" => J::s("unary"), "op" => J::s(format!("{:?}", op)), "e" => self.expr(a)}
            }
            Binary(op, a, b) => {
                want_ty = true;
                let mut o = jobj! {"k" => J::s("binary"), "op" => J::s(format!("{:?}", op.node)), "a" => self.expr(a), "b" => self.expr(b)};
                if let Some(did) = self.tr.type_dependent_def_id(e.hir_id) {
                    o.put("def", J::s(tcx.def_path_str(did)));
                }
                o
            }
            Assign(l, r, _) => {
                jobj! {"k" => J::s("assign"), "l" => self.expr(l), "r" => self.expr(r)}
            }
            AssignOp(op, l, r) => {
                jobj! {"k" => J::s("assignop"), "op" => J::s(format!("{:?}", op.node)), "l" => self.expr(l), "r" => self.expr(r)}
            }
            Lit(l) => {
                want_ty = true;
                self.lit(&l.node)
            }
            Cast(inner, _) => {
                want_ty = true;
                jobj! {"k" => J::s("cast"), "e" => self.expr(inner), "from" => J::s(self.tr.expr_ty(inner).to_string())}
            }
            Tup(es) => jobj! {"k" => J::s("tup"), "es" => self.exprs(es)},
            Array(es) => jobj! {"k" => J::s("array"), "es" => self.exprs(es)},
            Struct(qp, fields, base) => {
                let t = self.tr.expr_ty(e);
                let mut o = jobj! {"k" => J::s("struct"), "path" => self.res(qp, e.hir_id), "ty" => J::s(t.to_string())};
                if let rustc_middle::ty::Adt(def, _) = t.kind() {
                    o.put("adt", J::s(tcx.def_path_str(def.did())));
                }
                let fs: Vec<J> = fields
                    .iter()
                    .map(|f| jobj! {"n" => J::s(f.ident.name.to_string()), "e" => self.expr(f.expr), "ln" => J::Int(line(tcx, f.span))})
                    .collect();
                o.put("fields", J::Arr(fs));
                match base {
                    hir::StructTailExpr::Base(b) => o.put("base", self.expr(b)),
                    hir::StructTailExpr::DefaultFields(_) => o.put("base", J::s("default_fields")),
                    _ => {}
                }
                o
            }
            If(c, t, el) => {
                let mut o = jobj! {"k" => J::s("if"), "c" => self.expr(c), "t" => self.expr(t)};
                if let Some(el) = el {
                    o.put("e", self.expr(el));
                }
                o
            }
            Match(s, arms, src) => {
                let aj: Vec<J> = arms
                    .iter()
                    .map(|a| {
                        let mut o = jobj! {"pat" => self.pat(a.pat), "body" => self.expr(a.body)};
                        if let Some(g) = a.guard {
                            o.put("guard", self.expr(g));
                        }
                        o
                    })
                    .collect();
                jobj! {"k" => J::s("match"), "src" => J::s(format!("{:?}", src).chars().take(24).collect::<String>()), "scrut" => self.expr(s), "arms" => J::Arr(aj)}
            }
            Block(b, _) => self.block(b),
            Let(l) => {
                jobj! {"k" => J::s("let"), "pat" => self.pat(l.pat), "init" => self.expr(l.init)}
            }
            Closure(c) => {
                let body = tcx.hir_body(c.body);
                let params: Vec<J> = body.params.iter().map(|p| self.pat(p.pat)).collect();
                jobj! {"k" => J::s("closure"), "def" => J::s(tcx.def_path_str(c.def_id.to_def_id())), "params" => J::Arr(params), "body" => self.expr(body.value)}
            }
            Ret(r) => {
                let mut o = jobj! {"k" => J::s("ret")};
                if let Some(r) = r {
                    o.put("e", self.expr(r));
                }
                o
            }
            Break(_, r) => {
                let mut o = jobj! {"k" => J::s("break")};
                if let Some(r) = r {
                    o.put("e", self.expr(r));
                }
                o
            }
            Continue(_) => jobj! {"k" => J::s("continue")},
            Loop(b, _, src, _) => {
                jobj! {"k" => J::s("loop"), "src" => J::s(format!("{:?}", src)), "body" => self.block(b)}
            }
            Index(a, i, _) => {
                want_ty = true;
                jobj! {"k" => J::s("index"), "e" => self.expr(a), "i" => self.expr(i)}
            }
            DropTemps(inner) => self.expr(inner),
            Repeat(v, _) => jobj! {"k" => J::s("repeat"), "e" => self.expr(v)},
            ConstBlock(_) => jobj! {"k" => J::s("constblock")},
            _ => jobj! {"k" => J::s("other")},
        };
        if let J::Obj(_) = o {
            o.put("ln", J::Int(line(tcx, e.span)));
            if want_ty {
                o.put("ty", J::s(self.tr.expr_ty(e).to_string()));
                let adj = self.tr.expr_ty_adjusted(e);
                if adj != self.tr.expr_ty(e) {
                    o.put("ty_adj", J::s(adj.to_string()));
                }
            }
            if e.span.from_expansion() {
                let ed = e.span.ctxt().outer_expn_data();
                let m = match ed.macro_def_id {
                    Some(m) => tcx.def_path_str(m),
                    None => format!("{:?}", ed.kind),
                };
                o.put("exp", J::s(m));
            }
        }
        o
    }
}

pub fn dump_hir<'tcx>(tcx: TyCtxt<'tcx>) -> J {
    let mut out = Vec::new();
    let mut owners: Vec<_> = tcx.hir_body_owners().collect();
    owners.sort_by_key(|k| tcx.def_path_str(k.to_def_id()));
    for ldid in owners {
        let did = ldid.to_def_id();
        let kind = tcx.def_kind(did);
        if !matches!(
            kind,
            DefKind::Fn | DefKind::AssocFn | DefKind::Const { .. } | DefKind::AssocConst { .. }
        ) {
            continue;
        }
        let Some(body) = tcx.hir_maybe_body_owned_by(ldid) else {
            continue;
        };
        let tr = tcx.typeck(ldid);
        let h = H { tcx, tr };
        let params: Vec<J> = body.params.iter().map(|p| h.pat(p.pat)).collect();
        out.push(jobj! {
            "path" => J::s(tcx.def_path_str(did)),
            "params" => J::Arr(params),
            "body" => h.expr(body.value),
        });
    }
    J::Arr(out)
}
