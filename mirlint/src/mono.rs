//! Monomorphic call graph from the API roots of the local crate.
use crate::json::J;
use crate::mir_dump::is_fn_like;
use rustc_hir::def::DefKind;
use rustc_hir::def_id::DefId;
use rustc_middle::mir::*;
use rustc_middle::ty::adjustment::PointerCoercion;
use rustc_middle::ty::{
    self, EarlyBinder, GenericArg, GenericArgsRef, Instance, InstanceKind, Ty, TyCtxt, TypingEnv,
};
use std::collections::HashMap;

struct Mono<'tcx> {
    tcx: TyCtxt<'tcx>,
    ext_memo: HashMap<Instance<'tcx>, Vec<usize>>,
    ext_visiting: Vec<Instance<'tcx>>,
    ids: HashMap<Instance<'tcx>, usize>,
    order: Vec<Instance<'tcx>>,
    work: Vec<Instance<'tcx>>,
    skipped_roots: Vec<String>,
}

impl<'tcx> Mono<'tcx> {
    fn id(&mut self, inst: Instance<'tcx>) -> usize {
        if let Some(i) = self.ids.get(&inst) {
            return *i;
        }
        let i = self.order.len();
        self.ids.insert(inst, i);
        self.order.push(inst);
        self.work.push(inst);
        i
    }

    fn has_body(&self, inst: Instance<'tcx>) -> bool {
        match inst.def {
            InstanceKind::Item(did) => {
                did.is_local() && is_fn_like(self.tcx.def_kind(did)) && self.tcx.is_mir_available(did)
            }
            _ => false,
        }
    }

    /// local closures / fn items mentioned in the generic args of an extern callee
    fn callables_in_args(&mut self, args: GenericArgsRef<'tcx>) -> Vec<usize> {
        let tcx = self.tcx;
        let mut out = Vec::new();
        for a in args.iter() {
            for inner in a.walk() {
                if let Some(t) = inner.as_type() {
                    match t.kind() {
                        ty::Closure(did, cargs) if did.is_local() => {
                            let inst = Instance::new_raw(*did, cargs);
                            out.push(self.id(inst));
                        }
                        ty::FnDef(did, fargs) => {
                            if let Ok(Some(inst)) = Instance::try_resolve(
                                tcx,
                                TypingEnv::fully_monomorphized(),
                                *did,
                                fargs,
                            ) {
                                if self.has_body(inst) {
                                    out.push(self.id(inst));
                                }
                            }
                        }
                        _ => {}
                    }
                }
            }
        }
        out.sort();
        out.dedup();
        out
    }

    fn mentions_local(&self, args: GenericArgsRef<'tcx>) -> bool {
        for a in args.iter() {
            for inner in a.walk() {
                if let Some(t) = inner.as_type() {
                    match t.kind() {
                        ty::Adt(def, _) if def.did().is_local() => return true,
                        ty::Closure(did, _) if did.is_local() => return true,
                        ty::FnDef(did, _) if did.is_local() => return true,
                        _ => {}
                    }
                }
            }
        }
        false
    }

    /// local instances that an extern (std) instance may call: its MIR is walked when its generic
    /// arguments mention local types (only then can it call back into the crate through traits)
    fn extern_reach(&mut self, inst: Instance<'tcx>, depth: usize) -> Vec<usize> {
        let tcx = self.tcx;
        if let Some(v) = self.ext_memo.get(&inst) {
            return v.clone();
        }
        let mut out = self.callables_in_args(inst.args);
        if depth > 8 || self.ext_visiting.contains(&inst) || !self.mentions_local(inst.args) {
            return out;
        }
        let did = inst.def_id();
        let walkable = matches!(inst.def, InstanceKind::Item(_))
            && is_fn_like(tcx.def_kind(did))
            && tcx.is_mir_available(did);
        if walkable {
            self.ext_visiting.push(inst);
            let body = tcx.instance_mir(inst.def);
            let mut callees: Vec<Instance<'tcx>> = Vec::new();
            for data in body.basic_blocks.iter() {
                if let TerminatorKind::Call { func, .. } = &data.terminator().kind {
                    let fty = func.ty(body, tcx);
                    let fty = inst.instantiate_mir_and_normalize_erasing_regions(
                        tcx,
                        TypingEnv::fully_monomorphized(),
                        EarlyBinder::bind(fty),
                    );
                    if let ty::FnDef(cd, cargs) = fty.kind() {
                        if let Ok(Some(ci)) =
                            Instance::try_resolve(tcx, TypingEnv::fully_monomorphized(), *cd, cargs)
                        {
                            callees.push(ci);
                        }
                    }
                }
            }
            for ci in callees {
                if let InstanceKind::ClosureOnceShim { .. } = ci.def {
                    let cty = ci.args.type_at(0);
                    if let ty::Closure(cdid, cargs) = cty.kind() {
                        if cdid.is_local() {
                            let c2 = Instance::new_raw(*cdid, cargs);
                            out.push(self.id(c2));
                        }
                    }
                } else if self.has_body(ci) {
                    out.push(self.id(ci));
                } else {
                    let sub = self.extern_reach(ci, depth + 1);
                    out.extend(sub);
                }
            }
            self.ext_visiting.pop();
        }
        out.sort();
        out.dedup();
        self.ext_memo.insert(inst, out.clone());
        out
    }

    fn resolve_fn_ty(&mut self, caller: Instance<'tcx>, fty: Ty<'tcx>) -> J {
        let tcx = self.tcx;
        let fty = caller.instantiate_mir_and_normalize_erasing_regions(
            tcx,
            TypingEnv::fully_monomorphized(),
            EarlyBinder::bind(fty),
        );
        match fty.kind() {
            ty::FnDef(did, args) => {
                let mut o = jobj! {
                    "path" => J::s(tcx.def_path_str(*did)),
                    "full" => J::s(tcx.def_path_str_with_args(*did, args)),
                };
                match Instance::try_resolve(tcx, TypingEnv::fully_monomorphized(), *did, args) {
                    Ok(Some(inst)) => {
                        let kind = match inst.def {
                            InstanceKind::Item(_) => "item",
                            InstanceKind::Intrinsic(_) => "intrinsic",
                            InstanceKind::Virtual(..) => "virtual",
                            InstanceKind::ClosureOnceShim { .. } => "closure_once_shim",
                            InstanceKind::FnPtrShim(..) => "fn_ptr_shim",
                            InstanceKind::ReifyShim(..) => "reify_shim",
                            InstanceKind::DropGlue(..) => "drop_glue",
                            InstanceKind::CloneShim(..) => "clone_shim",
                            _ => "other",
                        };
                        o.put("kind", J::s(kind));
                        o.put(
                            "rpath",
                            J::s(tcx.def_path_str(inst.def_id())),
                        );
                        o.put(
                            "rfull",
                            J::s(tcx.def_path_str_with_args(inst.def_id(), inst.args)),
                        );
                        if let InstanceKind::ClosureOnceShim { .. } = inst.def {
                            // body is the closure itself
                            let cty = inst.args.type_at(0);
                            if let ty::Closure(cdid, cargs) = cty.kind() {
                                if cdid.is_local() {
                                    let ci = Instance::new_raw(*cdid, cargs);
                                    let id = self.id(ci);
                                    o.put("callee", J::Int(id as i128));
                                }
                            }
                        } else if self.has_body(inst) {
                            let id = self.id(inst);
                            o.put("callee", J::Int(id as i128));
                        } else {
                            let via = self.extern_reach(inst, 0);
                            if !via.is_empty() {
                                o.put(
                                    "via",
                                    J::Arr(via.into_iter().map(|i| J::Int(i as i128)).collect()),
                                );
                            }
                        }
                    }
                    Ok(None) => o.put("kind", J::s("unresolved")),
                    Err(_) => o.put("kind", J::s("error")),
                }
                o
            }
            ty::FnPtr(..) => jobj! {"kind" => J::s("fnptr")},
            _ => jobj! {"kind" => J::s("unknown"), "ty" => J::s(fty.to_string())},
        }
    }

    fn walk(&mut self, inst: Instance<'tcx>) -> J {
        let tcx = self.tcx;
        let did = inst.def_id();
        let mut o = jobj! {
            "id" => J::Int(self.ids[&inst] as i128),
            "def" => J::s(tcx.def_path_str(did)),
            "full" => J::s(tcx.def_path_str_with_args(did, inst.args)),
        };
        let targs: Vec<J> = inst
            .args
            .iter()
            .filter_map(|a| a.as_type())
            .map(|t| J::s(t.to_string()))
            .collect();
        o.put("targs", J::Arr(targs));
        let body = tcx.instance_mir(inst.def);
        let mut calls = Vec::new();
        let mut reify = Vec::new();
        for (bb, data) in body.basic_blocks.iter_enumerated() {
            for (si, st) in data.statements.iter().enumerate() {
                if let StatementKind::Assign(box (_, Rvalue::Cast(kind, op, _))) = &st.kind {
                    if let CastKind::PointerCoercion(PointerCoercion::ReifyFnPointer(_), _) = kind {
                        let fty = op.ty(body, tcx);
                        let mut r = self.resolve_fn_ty(inst, fty);
                        r.put("bb", J::Int(bb.index() as i128));
                        r.put("st", J::Int(si as i128));
                        reify.push(r);
                    }
                    if let CastKind::PointerCoercion(PointerCoercion::ClosureFnPointer(_), _) = kind {
                        let cty = inst.instantiate_mir_and_normalize_erasing_regions(
                            tcx,
                            TypingEnv::fully_monomorphized(),
                            EarlyBinder::bind(op.ty(body, tcx)),
                        );
                        if let ty::Closure(cdid, cargs) = cty.kind() {
                            if cdid.is_local() {
                                let ci = Instance::new_raw(*cdid, cargs);
                                let id = self.id(ci);
                                reify.push(jobj! {"bb" => J::Int(bb.index() as i128), "st" => J::Int(si as i128), "callee" => J::Int(id as i128), "kind" => J::s("closure_fnptr")});
                            }
                        }
                    }
                }
            }
            if let TerminatorKind::Call { func, .. } = &data.terminator().kind {
                let fty = func.ty(body, tcx);
                let mut r = self.resolve_fn_ty(inst, fty);
                r.put("bb", J::Int(bb.index() as i128));
                calls.push(r);
            }
        }
        o.put("calls", J::Arr(calls));
        o.put("reify", J::Arr(reify));
        o
    }
}

fn type_params_of<'tcx>(tcx: TyCtxt<'tcx>, did: DefId) -> Vec<ty::GenericParamDef> {
    let mut out = Vec::new();
    let mut chain = Vec::new();
    let mut g = Some(tcx.generics_of(did));
    while let Some(gg) = g {
        chain.push(gg);
        g = gg.parent.map(|p| tcx.generics_of(p));
    }
    for gg in chain.into_iter().rev() {
        for p in gg.own_params.iter() {
            out.push(p.clone());
        }
    }
    out
}

/// candidate concrete types for a type parameter, derived from its bounds
fn candidates<'tcx>(tcx: TyCtxt<'tcx>, did: DefId, param_index: u32) -> Option<Vec<Ty<'tcx>>> {
    let preds = tcx.predicates_of(did).instantiate_identity(tcx);
    let mut local_traits: Vec<DefId> = Vec::new();
    let mut asref = false;
    let mut other = false;
    for (clause, _) in preds.predicates.iter().zip(preds.spans.iter()) {
        let clause = clause.skip_norm_wip();
        if let Some(tp) = clause.as_trait_clause() {
            let tp = tp.skip_binder();
            if let ty::Param(p) = tp.self_ty().kind() {
                if p.index == param_index {
                    let tr = tp.def_id();
                    if tr.is_local() {
                        local_traits.push(tr);
                    } else {
                        let name = tcx.def_path_str(tr);
                        if name.ends_with("AsRef") {
                            asref = true;
                        } else if name.ends_with("Sized") {
                        } else {
                            other = true;
                        }
                    }
                }
            }
        }
    }
    if !local_traits.is_empty() {
        let mut out: Vec<Ty<'tcx>> = Vec::new();
        let first = local_traits[0];
        for imp in tcx.all_impls(first) {
            if !imp.is_local() {
                continue;
            }
            if tcx.generics_of(imp).count() != 0 {
                continue;
            }
            let st = tcx.type_of(imp).instantiate_identity().skip_norm_wip();
            out.push(st);
        }
        return Some(out);
    }
    if asref && !other {
        let s = Ty::new_imm_ref(tcx, tcx.lifetimes.re_erased, tcx.types.str_);
        return Some(vec![s]);
    }
    None
}

pub fn dump_mono<'tcx>(tcx: TyCtxt<'tcx>) -> J {
    let mut m = Mono {
        tcx,
        ext_memo: HashMap::new(),
        ext_visiting: Vec::new(),
        ids: HashMap::new(),
        order: Vec::new(),
        work: Vec::new(),
        skipped_roots: Vec::new(),
    };
    let mut roots: Vec<J> = Vec::new();
    let mut keys: Vec<DefId> = tcx
        .mir_keys(())
        .iter()
        .map(|k| k.to_def_id())
        .filter(|d| matches!(tcx.def_kind(*d), DefKind::Fn | DefKind::AssocFn))
        .collect();
    keys.sort_by_key(|k| tcx.def_path_str(*k));
    for did in keys {
        let params = type_params_of(tcx, did);
        let ty_params: Vec<&ty::GenericParamDef> = params
            .iter()
            .filter(|p| !matches!(p.kind, ty::GenericParamDefKind::Lifetime))
            .collect();
        if ty_params.iter().any(|p| matches!(p.kind, ty::GenericParamDefKind::Const { .. })) {
            m.skipped_roots.push(tcx.def_path_str(did));
            continue;
        }
        // candidate lists per type param
        let mut cands: Vec<(u32, Vec<Ty<'tcx>>)> = Vec::new();
        let mut ok = true;
        for p in ty_params.iter() {
            match candidates(tcx, did, p.index) {
                Some(c) if !c.is_empty() => cands.push((p.index, c)),
                _ => {
                    ok = false;
                    break;
                }
            }
        }
        if !ok {
            m.skipped_roots.push(tcx.def_path_str(did));
            continue;
        }
        // cartesian product (small)
        let mut combos: Vec<HashMap<u32, Ty<'tcx>>> = vec![HashMap::new()];
        for (idx, c) in cands.iter() {
            let mut next = Vec::new();
            for base in combos.iter() {
                for t in c.iter() {
                    let mut b = base.clone();
                    b.insert(*idx, *t);
                    next.push(b);
                }
            }
            combos = next;
        }
        for combo in combos {
            let args = ty::GenericArgs::for_item(tcx, did, |p, _| match p.kind {
                ty::GenericParamDefKind::Lifetime => GenericArg::from(tcx.lifetimes.re_erased),
                ty::GenericParamDefKind::Type { .. } => GenericArg::from(combo[&p.index]),
                ty::GenericParamDefKind::Const { .. } => unreachable!(),
            });
            match Instance::try_resolve(tcx, TypingEnv::fully_monomorphized(), did, args) {
                Ok(Some(inst)) if m.has_body(inst) => {
                    let id = m.id(inst);
                    roots.push(J::Int(id as i128));
                }
                _ => m.skipped_roots.push(tcx.def_path_str_with_args(did, args)),
            }
        }
    }
    let mut insts: Vec<J> = Vec::new();
    while let Some(inst) = m.work.pop() {
        let j = m.walk(inst);
        insts.push(j);
    }
    insts.sort_by_key(|j| {
        if let J::Obj(o) = j {
            if let Some((_, J::Int(i))) = o.iter().find(|(k, _)| k == "id") {
                return *i;
            }
        }
        0
    });
    jobj! {
        "roots" => J::Arr(roots),
        "instances" => J::Arr(insts),
        "skipped_roots" => J::Arr(m.skipped_roots.iter().map(|s| J::s(s.clone())).collect()),
    }
}
