//! Structured dump of MIR bodies.
use crate::json::J;
use rustc_hir::def::DefKind;
use rustc_hir::def_id::{DefId, LocalDefId};
use rustc_middle::mir::*;
use rustc_middle::ty::{self, Ty, TyCtxt, TypingEnv};
use rustc_span::Span;

pub fn span_j<'tcx>(tcx: TyCtxt<'tcx>, sp: Span) -> J {
    let sm = tcx.sess.source_map();
    // use the outermost call site so that macro-generated code points at
    // the macro invocation in the crate
    let root = sp.source_callsite();
    let lo = sm.lookup_char_pos(root.lo());
    let file = match &lo.file.name {
        rustc_span::FileName::Real(r) => r
            .local_path()
            .map(|p| p.display().to_string())
            .unwrap_or_else(|| format!("{:?}", lo.file.name)),
        other => format!("{:?}", other),
    };
    let mut o = jobj! {
        "file" => J::s(file),
        "line" => J::Int(lo.line as i128),
        "col" => J::Int(lo.col.0 as i128 + 1),
    };
    if sp.from_expansion() {
        o.put("exp", J::Bool(true));
        let ed = sp.ctxt().outer_expn_data();
        if let Some(m) = ed.macro_def_id {
            o.put("macro", J::s(tcx.def_path_str(m)));
        } else {
            o.put("macro", J::s(format!("{:?}", ed.kind)));
        }
    }
    o
}

pub fn ty_j<'tcx>(tcx: TyCtxt<'tcx>, t: Ty<'tcx>) -> J {
    let mut o = jobj! { "s" => J::s(t.to_string()) };
    match t.kind() {
        ty::Adt(def, _) => {
            o.put("adt", J::s(tcx.def_path_str(def.did())));
        }
        ty::Ref(_, inner, m) => {
            o.put("ref", J::s(if m.is_mut() { "mut" } else { "shared" }));
            if let ty::Adt(def, _) = inner.kind() {
                o.put("to_adt", J::s(tcx.def_path_str(def.did())));
            }
        }
        ty::RawPtr(..) => {
            o.put("raw", J::Bool(true));
        }
        ty::Closure(did, _) => {
            o.put("closure", J::s(tcx.def_path_str(*did)));
        }
        ty::FnDef(did, _) => {
            o.put("fndef", J::s(tcx.def_path_str(*did)));
        }
        ty::FnPtr(..) => {
            o.put("fnptr", J::Bool(true));
        }
        _ => {}
    }
    o
}

pub struct BodyDumper<'a, 'tcx> {
    pub tcx: TyCtxt<'tcx>,
    pub body: &'a Body<'tcx>,
    pub env: TypingEnv<'tcx>,
}

impl<'a, 'tcx> BodyDumper<'a, 'tcx> {
    pub fn place(&self, p: Place<'tcx>) -> J {
        let tcx = self.tcx;
        let mut proj = Vec::new();
        let mut pty = rustc_middle::mir::PlaceTy::from_ty(self.body.local_decls[p.local].ty);
        for elem in p.projection.iter() {
            let j = match elem {
                ProjectionElem::Deref => {
                    let raw = pty.ty.is_raw_ptr();
                    jobj! {"k" => J::s("deref"), "raw" => J::Bool(raw)}
                }
                ProjectionElem::Field(f, _fty) => {
                    let (name, adt) = match pty.ty.kind() {
                        ty::Adt(def, _) => {
                            let v = match pty.variant_index {
                                Some(v) => def.variant(v),
                                None => def.non_enum_variant(),
                            };
                            (
                                v.fields[f].name.to_string(),
                                Some(tcx.def_path_str(def.did())),
                            )
                        }
                        _ => (f.index().to_string(), None),
                    };
                    let mut o = jobj! {"k" => J::s("field"), "i" => J::Int(f.index() as i128), "n" => J::s(name)};
                    if let Some(a) = adt {
                        o.put("adt", J::s(a));
                    }
                    o
                }
                ProjectionElem::Index(l) => {
                    jobj! {"k" => J::s("index"), "local" => J::Int(l.index() as i128)}
                }
                ProjectionElem::ConstantIndex {
                    offset,
                    min_length,
                    from_end,
                } => {
                    jobj! {"k" => J::s("cindex"), "offset" => J::Int(offset as i128), "min" => J::Int(min_length as i128), "from_end" => J::Bool(from_end)}
                }
                ProjectionElem::Subslice { from, to, from_end } => {
                    jobj! {"k" => J::s("subslice"), "from" => J::Int(from as i128), "to" => J::Int(to as i128), "from_end" => J::Bool(from_end)}
                }
                ProjectionElem::Downcast(name, vidx) => {
                    let n = name
                        .map(|n| n.to_string())
                        .unwrap_or_else(|| vidx.index().to_string());
                    jobj! {"k" => J::s("downcast"), "v" => J::s(n), "vi" => J::Int(vidx.index() as i128)}
                }
                _ => jobj! {"k" => J::s("other")},
            };
            proj.push(j);
            pty = pty.projection_ty(tcx, elem);
        }
        jobj! {
            "l" => J::Int(p.local.index() as i128),
            "p" => J::Arr(proj),
        }
    }

    fn scalar_j(&self, t: Ty<'tcx>, si: ty::ScalarInt) -> Option<J> {
        match t.kind() {
            ty::Bool => si.try_to_bool().ok().map(J::Bool),
            ty::Int(_) => {
                let size = si.size();
                Some(J::Int(si.to_int(size)))
            }
            ty::Uint(_) => {
                let size = si.size();
                Some(J::Int(si.to_uint(size) as i128))
            }
            ty::Char => {
                let v = si.to_uint(si.size()) as u32;
                char::from_u32(v).map(|c| J::s(c.to_string()))
            }
            ty::Float(ty::FloatTy::F32) => {
                let bits = si.to_uint(si.size()) as u32;
                Some(J::Float(f32::from_bits(bits) as f64))
            }
            ty::Float(ty::FloatTy::F64) => {
                let bits = si.to_uint(si.size()) as u64;
                Some(J::Float(f64::from_bits(bits)))
            }
            _ => None,
        }
    }

    pub fn constant(&self, c: &ConstOperand<'tcx>) -> J {
        let tcx = self.tcx;
        let cty = c.const_.ty();
        let mut o = jobj! {"k" => J::s("const"), "ty" => ty_j(tcx, cty), "s" => J::s(format!("{}", c.const_))};
        if let ty::FnDef(did, args) = cty.kind() {
            o.put("fn", fn_j(tcx, *did, args));
            return o;
        }
        if let Const::Unevaluated(uv, _) = c.const_ {
            if let Some(p) = uv.promoted {
                o.put("promoted", J::Int(p.index() as i128));
            } else {
                o.put("def", J::s(tcx.def_path_str(uv.def)));
            }
        }
        if matches!(
            cty.kind(),
            ty::Bool | ty::Int(_) | ty::Uint(_) | ty::Char | ty::Float(_)
        ) {
            if let Some(si) = c.const_.try_eval_scalar_int(tcx, self.env) {
                if let Some(v) = self.scalar_j(cty, si) {
                    o.put("v", v);
                }
            }
        } else if let ty::Ref(_, inner, _) = cty.kind() {
            let is_str = inner.is_str();
            let is_bytes = match inner.kind() {
                ty::Slice(e) | ty::Array(e, _) => *e == tcx.types.u8,
                _ => false,
            };
            if is_str || is_bytes {
                if let Some(bytes) = self.const_bytes(c, *inner) {
                    if is_str {
                        o.put("str", J::s(String::from_utf8_lossy(&bytes).to_string()));
                    } else {
                        o.put(
                            "bytes",
                            J::Arr(bytes.iter().map(|b| J::Int(*b as i128)).collect()),
                        );
                    }
                }
            }
        }
        o
    }

    fn const_bytes(&self, c: &ConstOperand<'tcx>, inner: Ty<'tcx>) -> Option<Vec<u8>> {
        let tcx = self.tcx;
        if matches!(c.const_, Const::Unevaluated(..)) {
            // only literals are needed
            let v = c.const_.eval(tcx, self.env, c.span).ok()?;
            return self.value_bytes(v, inner);
        }
        match c.const_ {
            Const::Val(v, _) => self.value_bytes(v, inner),
            _ => None,
        }
    }

    fn value_bytes(&self, v: ConstValue, inner: Ty<'tcx>) -> Option<Vec<u8>> {
        let tcx = self.tcx;
        match v {
            ConstValue::Slice { .. } => v
                .try_get_slice_bytes_for_diagnostics(tcx)
                .map(|b| b.to_vec()),
            ConstValue::Scalar(rustc_middle::mir::interpret::Scalar::Ptr(ptr, _)) => {
                if let ty::Array(_, len) = inner.kind() {
                    let n = len.try_to_target_usize(tcx)? as usize;
                    let (prov, off) = ptr.prov_and_relative_offset();
                    let alloc = tcx.global_alloc(prov.alloc_id());
                    if let rustc_middle::mir::interpret::GlobalAlloc::Memory(a) = alloc {
                        let start = off.bytes() as usize;
                        let bytes = a
                            .inner()
                            .inspect_with_uninit_and_ptr_outside_interpreter(start..start + n);
                        return Some(bytes.to_vec());
                    }
                }
                None
            }
            _ => None,
        }
    }

    pub fn operand(&self, op: &Operand<'tcx>) -> J {
        match op {
            Operand::Copy(p) => jobj! {"k" => J::s("copy"), "pl" => self.place(*p)},
            Operand::Move(p) => jobj! {"k" => J::s("move"), "pl" => self.place(*p)},
            Operand::Constant(c) => self.constant(c),
            #[allow(unreachable_patterns)]
            _ => jobj! {"k" => J::s("other"), "s" => J::s(format!("{:?}", op))},
        }
    }

    fn rvalue(&self, rv: &Rvalue<'tcx>) -> J {
        let tcx = self.tcx;
        match rv {
            Rvalue::Use(op, _) => jobj! {"k" => J::s("use"), "op" => self.operand(op)},
            Rvalue::Repeat(op, n) => {
                jobj! {"k" => J::s("repeat"), "op" => self.operand(op), "n" => J::s(format!("{}", n))}
            }
            Rvalue::Ref(_, bk, p) => {
                let m = match bk {
                    BorrowKind::Shared => "shared",
                    BorrowKind::Fake(_) => "fake",
                    BorrowKind::Mut { .. } => "mut",
                };
                jobj! {"k" => J::s("ref"), "m" => J::s(m), "pl" => self.place(*p)}
            }
            Rvalue::RawPtr(kind, p) => {
                jobj! {"k" => J::s("rawptr"), "m" => J::s(format!("{:?}", kind)), "pl" => self.place(*p)}
            }
            Rvalue::Cast(kind, op, t) => {
                let mut o = jobj! {"k" => J::s("cast"), "ck" => J::s(format!("{:?}", kind)), "op" => self.operand(op), "ty" => ty_j(tcx, *t)};
                let from = op.ty(self.body, tcx);
                o.put("from", ty_j(tcx, from));
                o
            }
            Rvalue::BinaryOp(op, box (a, b)) => {
                jobj! {"k" => J::s("binop"), "op" => J::s(format!("{:?}", op)), "a" => self.operand(a), "b" => self.operand(b)}
            }
            Rvalue::UnaryOp(op, a) => {
                jobj! {"k" => J::s("unop"), "op" => J::s(format!("{:?}", op)), "a" => self.operand(a)}
            }
            Rvalue::Discriminant(p) => jobj! {"k" => J::s("discr"), "pl" => self.place(*p)},
            Rvalue::Aggregate(box kind, ops) => {
                let mut o = jobj! {"k" => J::s("aggr")};
                match kind {
                    AggregateKind::Array(_) => o.put("ak", J::s("array")),
                    AggregateKind::Tuple => o.put("ak", J::s("tuple")),
                    AggregateKind::Adt(did, vidx, _, _, _) => {
                        o.put("ak", J::s("adt"));
                        o.put("adt", J::s(tcx.def_path_str(*did)));
                        let def = tcx.adt_def(*did);
                        let v = def.variant(*vidx);
                        o.put("variant", J::s(v.name.to_string()));
                        o.put(
                            "fields",
                            J::Arr(v.fields.iter().map(|f| J::s(f.name.to_string())).collect()),
                        );
                    }
                    AggregateKind::Closure(did, _) => {
                        o.put("ak", J::s("closure"));
                        o.put("closure", J::s(tcx.def_path_str(*did)));
                    }
                    _ => o.put("ak", J::s("other")),
                }
                o.put("ops", J::Arr(ops.iter().map(|x| self.operand(x)).collect()));
                o
            }
            Rvalue::CopyForDeref(p) => {
                jobj! {"k" => J::s("use"), "op" => jobj!{"k" => J::s("copy"), "pl" => self.place(*p)}, "cfd" => J::Bool(true)}
            }
            _ => jobj! {"k" => J::s("other"), "s" => J::s(format!("{:?}", rv))},
        }
    }

    fn statement(&self, st: &Statement<'tcx>) -> Option<J> {
        let tcx = self.tcx;
        match &st.kind {
            StatementKind::Assign(box (p, rv)) => Some(jobj! {
                "k" => J::s("assign"),
                "pl" => self.place(*p),
                "rv" => self.rvalue(rv),
                "sp" => span_j(tcx, st.source_info.span),
            }),
            StatementKind::SetDiscriminant {
                place,
                variant_index,
            } => Some(jobj! {
                "k" => J::s("setdiscr"),
                "pl" => self.place(**place),
                "vi" => J::Int(variant_index.index() as i128),
                "sp" => span_j(tcx, st.source_info.span),
            }),
            StatementKind::Intrinsic(box i) => Some(jobj! {
                "k" => J::s("intrinsic"),
                "s" => J::s(format!("{:?}", i)),
                "sp" => span_j(tcx, st.source_info.span),
            }),
            _ => None,
        }
    }

    fn terminator(&self, t: &Terminator<'tcx>) -> J {
        let tcx = self.tcx;
        let bbj = |b: BasicBlock| J::Int(b.index() as i128);
        let mut o = match &t.kind {
            TerminatorKind::Goto { target } => jobj! {"k" => J::s("goto"), "t" => bbj(*target)},
            TerminatorKind::SwitchInt { discr, targets } => {
                let mut arms = Vec::new();
                for (v, b) in targets.iter() {
                    arms.push(J::Arr(vec![J::Int(v as i128), bbj(b)]));
                }
                jobj! {
                    "k" => J::s("switch"),
                    "discr" => self.operand(discr),
                    "arms" => J::Arr(arms),
                    "otherwise" => bbj(targets.otherwise()),
                    "discr_ty" => ty_j(tcx, discr.ty(self.body, tcx)),
                }
            }
            TerminatorKind::Return => jobj! {"k" => J::s("return")},
            TerminatorKind::Unreachable => jobj! {"k" => J::s("unreachable")},
            TerminatorKind::UnwindResume => jobj! {"k" => J::s("resume")},
            TerminatorKind::UnwindTerminate(_) => jobj! {"k" => J::s("terminate")},
            TerminatorKind::Drop { place, target, .. } => {
                jobj! {"k" => J::s("drop"), "pl" => self.place(*place), "t" => bbj(*target),
                       "ty" => ty_j(tcx, place.ty(self.body, tcx).ty)}
            }
            TerminatorKind::Call {
                func,
                args,
                destination,
                target,
                fn_span,
                ..
            } => {
                let mut o = jobj! {
                    "k" => J::s("call"),
                    "func" => self.operand(func),
                    "args" => J::Arr(args.iter().map(|a| self.operand(&a.node)).collect()),
                    "dest" => self.place(*destination),
                    "fn_sp" => span_j(tcx, *fn_span),
                };
                if let Some(t) = target {
                    o.put("t", bbj(*t));
                }
                let fty = func.ty(self.body, tcx);
                if let ty::FnDef(did, _) = fty.kind() {
                    let sig = tcx.fn_sig(*did).skip_binder();
                    if sig.safety().is_unsafe() {
                        o.put("unsafe_callee", J::Bool(true));
                    }
                }
                let arg_tys: Vec<J> = args
                    .iter()
                    .map(|a| ty_j(tcx, a.node.ty(self.body, tcx)))
                    .collect();
                o.put("arg_tys", J::Arr(arg_tys));
                o.put("ret_ty", ty_j(tcx, destination.ty(self.body, tcx).ty));
                o
            }
            TerminatorKind::Assert {
                cond,
                expected,
                msg,
                target,
                ..
            } => {
                let kind = match &**msg {
                    AssertKind::BoundsCheck { .. } => "bounds".to_string(),
                    AssertKind::Overflow(op, ..) => format!("overflow:{:?}", op),
                    AssertKind::OverflowNeg(_) => "overflow_neg".to_string(),
                    AssertKind::DivisionByZero(_) => "div_zero".to_string(),
                    AssertKind::RemainderByZero(_) => "rem_zero".to_string(),
                    other => format!("{:?}", other).chars().take(40).collect(),
                };
                jobj! {"k" => J::s("assert"), "cond" => self.operand(cond), "expected" => J::Bool(*expected),
                "msg" => J::s(kind), "t" => bbj(*target)}
            }
            TerminatorKind::FalseEdge { real_target, .. } => {
                jobj! {"k" => J::s("goto"), "t" => bbj(*real_target)}
            }
            TerminatorKind::FalseUnwind { real_target, .. } => {
                jobj! {"k" => J::s("goto"), "t" => bbj(*real_target)}
            }
            other => jobj! {"k" => J::s("other"), "s" => J::s(format!("{:?}", other))},
        };
        // unwind target, if any
        if let Some(UnwindAction::Cleanup(b)) = t.unwind() {
            o.put("unwind", bbj(*b));
        }
        o.put("sp", span_j(tcx, t.source_info.span));
        o
    }

    pub fn dump(&self, def_id: DefId) -> J {
        let tcx = self.tcx;
        let body = self.body;
        let mut o = jobj! {
            "path" => J::s(tcx.def_path_str(def_id)),
            "kind" => J::s(format!("{:?}", tcx.def_kind(def_id))),
            "sp" => span_j(tcx, body.span),
            "argc" => J::Int(body.arg_count as i128),
        };
        // names of user variables that are bare locals
        let mut names: Vec<Option<String>> = vec![None; body.local_decls.len()];
        for vdi in body.var_debug_info.iter() {
            if let VarDebugInfoContents::Place(p) = vdi.value {
                if p.projection.is_empty() {
                    names[p.local.index()] = Some(vdi.name.to_string());
                }
            }
        }
        let mut locals = Vec::new();
        for (l, d) in body.local_decls.iter_enumerated() {
            let mut lo = ty_j(tcx, d.ty);
            if let Some(n) = &names[l.index()] {
                lo.put("name", J::s(n.clone()));
            }
            if d.mutability.is_mut() {
                lo.put("mut", J::Bool(true));
            }
            locals.push(lo);
        }
        o.put("locals", J::Arr(locals));
        let mut blocks = Vec::new();
        for (_bb, data) in body.basic_blocks.iter_enumerated() {
            let stmts: Vec<J> = data
                .statements
                .iter()
                .filter_map(|s| self.statement(s))
                .collect();
            let mut b = jobj! {"st" => J::Arr(stmts)};
            if data.is_cleanup {
                b.put("cleanup", J::Bool(true));
            }
            b.put("term", self.terminator(data.terminator()));
            blocks.push(b);
        }
        o.put("blocks", J::Arr(blocks));
        o
    }
}

pub fn fn_j<'tcx>(tcx: TyCtxt<'tcx>, did: DefId, args: ty::GenericArgsRef<'tcx>) -> J {
    let mut o = jobj! {
        "path" => J::s(tcx.def_path_str(did)),
        "full" => J::s(tcx.def_path_str_with_args(did, args)),
        "local" => J::Bool(did.is_local()),
        "name" => J::s(tcx.item_name(did).to_string()),
    };
    let targs: Vec<J> = args
        .iter()
        .filter_map(|a| a.as_type())
        .map(|t| ty_j(tcx, t))
        .collect();
    o.put("targs", J::Arr(targs));
    if matches!(tcx.def_kind(did), DefKind::AssocFn) {
        if let Some(tr) = tcx.trait_of_assoc(did) {
            o.put("trait", J::s(tcx.def_path_str(tr)));
        } else if let Some(imp) = tcx.impl_of_assoc(did) {
            if let Some(trf) = tcx.impl_opt_trait_ref(imp) {
                let trf = trf.skip_binder();
                o.put("impl_trait", J::s(tcx.def_path_str(trf.def_id)));
            }
            let st = tcx.type_of(imp).skip_binder();
            o.put("impl_self", ty_j(tcx, st));
        }
    }
    o
}

pub fn is_fn_like(kind: DefKind) -> bool {
    matches!(kind, DefKind::Fn | DefKind::AssocFn | DefKind::Closure)
}

pub fn dump_bodies<'tcx>(tcx: TyCtxt<'tcx>) -> J {
    let mut out = Vec::new();
    let mut keys: Vec<LocalDefId> = tcx.mir_keys(()).iter().copied().collect();
    keys.sort_by_key(|k| tcx.def_path_str(k.to_def_id()));
    for ldid in keys {
        let did = ldid.to_def_id();
        let kind = tcx.def_kind(did);
        if !is_fn_like(kind) {
            continue;
        }
        let body = tcx.optimized_mir(did);
        let env = TypingEnv::post_analysis(tcx, did);
        let d = BodyDumper { tcx, body, env };
        let mut j = d.dump(did);
        // promoted bodies (for constants taken by reference)
        let promoted = tcx.promoted_mir(did);
        let mut pj = Vec::new();
        for pb in promoted.iter() {
            let pd = BodyDumper {
                tcx,
                body: pb,
                env,
            };
            pj.push(pd.dump(did));
        }
        if !pj.is_empty() {
            j.put("promoted", J::Arr(pj));
        }
        out.push(j);
    }
    J::Arr(out)
}
