//! Items of the local crate: ADTs, impls, traits, consts, statics, unsafe blocks.
use crate::json::J;
use crate::mir_dump::{span_j, ty_j};
use rustc_hir as hir;
use rustc_hir::def::DefKind;
use rustc_hir::intravisit::{self, Visitor};
use rustc_middle::hir::nested_filter;
use rustc_middle::ty::{self, TyCtxt, TypingEnv};

pub fn dump_items<'tcx>(tcx: TyCtxt<'tcx>) -> J {
    let mut adts = Vec::new();
    let mut impls = Vec::new();
    let mut traits = Vec::new();
    let mut consts = Vec::new();
    let mut statics = Vec::new();
    let mut fns = Vec::new();

    for id in tcx.hir_free_items() {
        let item = tcx.hir_item(id);
        let did = item.owner_id.to_def_id();
        let kind = tcx.def_kind(did);
        match kind {
            DefKind::Struct | DefKind::Enum | DefKind::Union => {
                let def = tcx.adt_def(did);
                let mut variants = Vec::new();
                for v in def.variants().iter() {
                    let mut fields = Vec::new();
                    for f in v.fields.iter() {
                        let fty = tcx.type_of(f.did).instantiate_identity().skip_norm_wip();
                        let vis = tcx.visibility(f.did);
                        let freach = f
                            .did
                            .as_local()
                            .map(|l| tcx.effective_visibilities(()).is_reachable(l))
                            .unwrap_or(false);
                        fields.push(jobj! {
                            "name" => J::s(f.name.to_string()),
                            "ty" => ty_j(tcx, fty),
                            "reachable" => J::Bool(freach),
                            "pub" => J::Bool(vis.is_public()),
                            "vis" => J::s(format!("{:?}", vis)),
                        });
                    }
                    let mut vj = jobj! {
                        "name" => J::s(v.name.to_string()),
                        "fields" => J::Arr(fields),
                    };
                    {
                        if def.is_enum() {
                            let idx = def.variant_index_with_id(v.def_id);
                            let d = def.discriminant_for_variant(tcx, idx);
                            vj.put("discr", J::Int(d.val as i128));
                        }
                    }
                    variants.push(vj);
                }
                let t = tcx.type_of(did).instantiate_identity().skip_norm_wip();
                let freeze = t.is_freeze(tcx, TypingEnv::post_analysis(tcx, did));
                let reach = did
                    .as_local()
                    .map(|l| tcx.effective_visibilities(()).is_reachable(l))
                    .unwrap_or(false);
                adts.push(jobj! {
                    "path" => J::s(tcx.def_path_str(did)),
                    "kind" => J::s(format!("{:?}", kind)),
                    "reachable" => J::Bool(reach),
                    "pub" => J::Bool(tcx.visibility(did).is_public()),
                    "variants" => J::Arr(variants),
                    "freeze" => J::Bool(freeze),
                    "sp" => span_j(tcx, item.span),
                });
            }
            DefKind::Impl { .. } => {
                let mut ij = jobj! {
                    "path" => J::s(tcx.def_path_str(did)),
                    "self" => ty_j(tcx, tcx.type_of(did).instantiate_identity().skip_norm_wip()),
                    "sp" => span_j(tcx, item.span),
                };
                if let Some(trf) = tcx.impl_opt_trait_ref(did) {
                    let trf = trf.instantiate_identity().skip_norm_wip();
                    ij.put("trait", J::s(tcx.def_path_str(trf.def_id)));
                    ij.put("trait_full", J::s(trf.to_string()));
                }
                let mut ms = Vec::new();
                for ai in tcx.associated_items(did).in_definition_order() {
                    let mut m = jobj! {
                        "name" => J::s(ai.name().to_string()),
                        "kind" => J::s(format!("{:?}", ai.kind).chars().take(12).collect::<String>()),
                        "path" => J::s(tcx.def_path_str(ai.def_id)),
                    };
                    if matches!(ai.kind, ty::AssocKind::Type { .. }) {
                        let t = tcx.type_of(ai.def_id).instantiate_identity().skip_norm_wip();
                        m.put("ty", ty_j(tcx, t));
                    }
                    ms.push(m);
                }
                ij.put("items", J::Arr(ms));
                impls.push(ij);
            }
            DefKind::Trait => {
                let mut ms = Vec::new();
                for ai in tcx.associated_items(did).in_definition_order() {
                    ms.push(jobj! {
                        "name" => J::s(ai.name().to_string()),
                        "path" => J::s(tcx.def_path_str(ai.def_id)),
                        "provided" => J::Bool(ai.defaultness(tcx).has_value()),
                    });
                }
                traits.push(jobj! {
                    "path" => J::s(tcx.def_path_str(did)),
                    "items" => J::Arr(ms),
                });
            }
            DefKind::Const { .. } => {
                consts.push(const_j(tcx, did));
            }
            DefKind::Static { mutability, .. } => {
                let t = tcx.type_of(did).instantiate_identity().skip_norm_wip();
                let freeze = t.is_freeze(tcx, TypingEnv::post_analysis(tcx, did));
                statics.push(jobj! {
                    "path" => J::s(tcx.def_path_str(did)),
                    "mut" => J::Bool(mutability.is_mut()),
                    "freeze" => J::Bool(freeze),
                    "ty" => ty_j(tcx, t),
                    "thread_local" => J::Bool(tcx.is_thread_local_static(did)),
                    "sp" => span_j(tcx, item.span),
                });
            }
            DefKind::Fn => {
                fns.push(fn_item_j(tcx, did));
            }
            _ => {}
        }
    }
    // associated consts and fns
    for id in tcx.hir_crate_items(()).impl_items() {
        let did = id.owner_id.to_def_id();
        match tcx.def_kind(did) {
            DefKind::AssocConst { .. } => consts.push(const_j(tcx, did)),
            DefKind::AssocFn => fns.push(fn_item_j(tcx, did)),
            _ => {}
        }
    }
    for id in tcx.hir_crate_items(()).trait_items() {
        let did = id.owner_id.to_def_id();
        if let DefKind::AssocFn = tcx.def_kind(did) {
            fns.push(fn_item_j(tcx, did));
        }
    }

    // unsafe blocks
    let mut uv = UnsafeVisitor {
        tcx,
        out: Vec::new(),
        owner: String::new(),
    };
    tcx.hir_visit_all_item_likes_in_crate(&mut uv);

    jobj! {
        "adts" => J::Arr(adts),
        "impls" => J::Arr(impls),
        "traits" => J::Arr(traits),
        "consts" => J::Arr(consts),
        "statics" => J::Arr(statics),
        "fns" => J::Arr(fns),
        "unsafe_blocks" => J::Arr(uv.out),
    }
}

fn fn_item_j<'tcx>(tcx: TyCtxt<'tcx>, did: rustc_hir::def_id::DefId) -> J {
    let sig = tcx.fn_sig(did).instantiate_identity().skip_norm_wip().skip_binder();
    let generics = tcx.generics_of(did);
    let mut n_ty = 0;
    let mut g = Some(generics);
    while let Some(gg) = g {
        n_ty += gg
            .own_params
            .iter()
            .filter(|p| matches!(p.kind, ty::GenericParamDefKind::Type { .. }))
            .count();
        g = gg.parent.map(|p| tcx.generics_of(p));
    }
    let reach = did
        .as_local()
        .map(|l| tcx.effective_visibilities(()).is_reachable(l))
        .unwrap_or(false);
    jobj! {
        "path" => J::s(tcx.def_path_str(did)),
        "pub" => J::Bool(tcx.visibility(did).is_public()),
        "reachable" => J::Bool(reach),
        "unsafe" => J::Bool(sig.safety().is_unsafe()),
        "inputs" => J::Arr(sig.inputs().iter().map(|t| ty_j(tcx, *t)).collect()),
        "output" => ty_j(tcx, sig.output()),
        "n_type_params" => J::Int(n_ty as i128),
        "sp" => span_j(tcx, tcx.def_span(did)),
    }
}

fn const_j<'tcx>(tcx: TyCtxt<'tcx>, did: rustc_hir::def_id::DefId) -> J {
    let t = tcx.type_of(did).instantiate_identity().skip_norm_wip();
    let mut o = jobj! {
        "path" => J::s(tcx.def_path_str(did)),
        "ty" => ty_j(tcx, t),
    };
    if matches!(
        t.kind(),
        ty::Bool | ty::Int(_) | ty::Uint(_) | ty::Float(_) | ty::Char
    ) {
        if let Ok(v) = tcx.const_eval_poly(did) {
            if let Some(si) = v.try_to_scalar_int() {
                let size = si.size();
                let j = match t.kind() {
                    ty::Bool => si.try_to_bool().ok().map(J::Bool),
                    ty::Int(_) => Some(J::Int(si.to_int(size))),
                    ty::Uint(_) => Some(J::Int(si.to_uint(size) as i128)),
                    ty::Float(ty::FloatTy::F32) => {
                        Some(J::Float(f32::from_bits(si.to_uint(size) as u32) as f64))
                    }
                    ty::Float(ty::FloatTy::F64) => {
                        Some(J::Float(f64::from_bits(si.to_uint(size) as u64)))
                    }
                    _ => None,
                };
                if let Some(j) = j {
                    o.put("v", j);
                }
            }
        }
    }
    o
}

struct UnsafeVisitor<'tcx> {
    tcx: TyCtxt<'tcx>,
    out: Vec<J>,
    owner: String,
}

impl<'tcx> Visitor<'tcx> for UnsafeVisitor<'tcx> {
    type NestedFilter = nested_filter::OnlyBodies;

    fn maybe_tcx(&mut self) -> Self::MaybeTyCtxt {
        self.tcx
    }

    fn visit_body(&mut self, b: &hir::Body<'tcx>) {
        let owner = self.tcx.hir_body_owner_def_id(b.id());
        let prev = std::mem::replace(
            &mut self.owner,
            self.tcx.def_path_str(owner.to_def_id()),
        );
        intravisit::walk_body(self, b);
        self.owner = prev;
    }

    fn visit_block(&mut self, b: &'tcx hir::Block<'tcx>) {
        if let hir::BlockCheckMode::UnsafeBlock(src) = b.rules {
            self.out.push(jobj! {
                "fn" => J::s(self.owner.clone()),
                "user" => J::Bool(matches!(src, hir::UnsafeSource::UserProvided)),
                "sp" => span_j(self.tcx, b.span),
            });
        }
        intravisit::walk_block(self, b);
    }
}
