//! Positive controls for the generic rule engines of /verif: one deliberately violating item per
//! rule (`bad_*`) next to a conforming twin (`good_*`).  Analysed by the same driver on every run;
//! a rule that stays silent on its `bad_*` item is dead and the check fails closed.
#![allow(dead_code, unused_variables, clippy::all)]

use std::io::{self, BufRead, Read, Write};
use std::num::NonZeroU32;

// ---------------------------------------------------------------- ED / WB / FL
pub fn bad_ed_dropped<W: Write>(w: &mut W) {
    let _ = w.flush();
}

pub fn bad_ed_ok_only<W: Write>(w: &mut W) -> io::Result<()> {
    if let Ok(()) = w.write_all(b"x") {
        return Ok(());
    }
    Ok(())
}

pub fn bad_ed_unwrap_or<R: BufRead>(r: &mut R, buf: &mut Vec<u8>) -> io::Result<usize> {
    Ok(r.read_until(b'\n', buf).unwrap_or(0))
}

pub fn good_ed_question<W: Write>(w: &mut W) -> io::Result<()> {
    w.write_all(b"x")?;
    w.flush()
}

pub fn good_ed_match<R: BufRead>(r: &mut R, buf: &mut Vec<u8>) -> io::Result<usize> {
    match r.read_until(b'\n', buf) {
        Ok(n) => Ok(n),
        Err(err) => Err(err),
    }
}

pub fn bad_ed_interrupt_not_retried<R: BufRead>(r: &mut R) -> io::Result<usize> {
    let n = r.fill_buf()?.len();
    Ok(n)
}

pub fn good_ed_interrupt_retried<R: BufRead>(r: &mut R) -> io::Result<usize> {
    loop {
        match r.fill_buf() {
            Ok(b) => return Ok(b.len()),
            Err(ref e) if e.kind() == io::ErrorKind::Interrupted => continue,
            Err(e) => return Err(e),
        }
    }
}

pub fn bad_wb_buffered_writer_dropped<W: Write>(w: W) -> io::Result<()> {
    let mut bw = io::BufWriter::new(w);
    bw.write_all(b"x")?;
    Ok(())
}

pub fn good_wb_flushed<W: Write>(w: W) -> io::Result<()> {
    let mut bw = io::BufWriter::new(w);
    bw.write_all(b"x")?;
    bw.flush()
}

// ---------------------------------------------------------------- AL / EP
pub fn bad_al_read_exact<R: Read>(r: &mut R) -> io::Result<u8> {
    let mut b = [0u8; 1];
    r.read_exact(&mut b)?;
    Ok(b[0])
}

pub fn bad_ep_ctor(s: &str) -> io::Result<i32> {
    s.parse::<i32>().map_err(|e| io::Error::new(io::ErrorKind::InvalidData, e))
}

// ---------------------------------------------------------------- IC
pub fn bad_ic_consume_unsaved<R: BufRead>(r: &mut R) -> io::Result<()> {
    let n = r.fill_buf()?.len();
    r.consume(n);
    Ok(())
}

pub fn bad_ic_buffer_dropped<R: Read>(r: &mut R) -> io::Result<usize> {
    let mut v = Vec::new();
    let n = r.read_to_end(&mut v)?;
    Ok(n)
}

pub fn good_ic_buffer_returned<R: Read>(r: &mut R) -> io::Result<Vec<u8>> {
    let mut v = Vec::new();
    r.read_to_end(&mut v)?;
    Ok(v)
}

// ---------------------------------------------------------------- EA / KBU
pub struct State {
    pub count: u32,
    pub items: Vec<u32>,
    pub scratch: Vec<u32>,
}

pub fn bad_ea_write_before_err(state: &mut State, line: &str) -> Result<(), std::num::ParseIntError> {
    state.count += 1;
    let v: u32 = line.parse()?;
    state.items.push(v);
    Ok(())
}

pub fn good_ea_write_after_err(state: &mut State, line: &str) -> Result<(), std::num::ParseIntError> {
    let v: u32 = line.parse()?;
    state.count += 1;
    state.items.push(v);
    Ok(())
}

pub fn bad_kbu_stale(state: &mut State, xs: &[u32]) -> usize {
    if xs.is_empty() {
        return state.scratch.len();
    }
    state.scratch.clear();
    state.scratch.extend_from_slice(xs);
    state.scratch.len()
}

pub fn good_kbu_cleared(state: &mut State, xs: &[u32]) -> usize {
    state.scratch.clear();
    if xs.is_empty() {
        return state.scratch.len();
    }
    state.scratch.extend_from_slice(xs);
    state.scratch.len()
}

// ---------------------------------------------------------------- UG
pub fn bad_ug_unguarded(x: i32) -> NonZeroU32 {
    unsafe { NonZeroU32::new_unchecked(x as u32) }
}

pub fn bad_ug_wrong_guard(x: i32) -> Option<NonZeroU32> {
    if x != 1 {
        Some(unsafe { NonZeroU32::new_unchecked(x as u32) })
    } else {
        None
    }
}

pub fn good_ug_guarded(x: i32) -> Option<NonZeroU32> {
    if x >= 2 {
        Some(unsafe { NonZeroU32::new_unchecked(x as u32) })
    } else {
        None
    }
}

pub fn bad_ug_raw_deref(p: *const u8) -> u8 {
    unsafe { *p }
}

pub fn bad_ug_utf8(src: &[u8]) -> &str {
    unsafe { std::str::from_utf8_unchecked(&src[..src.len() / 2]) }
}

// ---------------------------------------------------------------- AB / PX / U8
pub fn bad_ab_unbounded(s: &str) -> Result<Vec<u8>, std::num::ParseIntError> {
    let n: usize = s.parse()?;
    Ok(vec![0u8; n])
}

pub fn good_ab_bounded(s: &str) -> Result<Vec<u8>, std::num::ParseIntError> {
    let n: usize = s.parse()?;
    if n > 9000 {
        return Ok(Vec::new());
    }
    Ok(vec![0u8; n])
}

pub fn bad_px_unwrap(xs: &[u32]) -> u32 {
    *xs.first().unwrap()
}

pub fn good_px_guarded(xs: &[u32]) -> u32 {
    if xs.is_empty() {
        return 0;
    }
    *xs.iter().max().unwrap()
}

pub fn bad_px_str_offset(name: &str) -> &str {
    match name.len().checked_sub(3) {
        Some(idx) => &name[idx..],
        None => name,
    }
}

pub fn good_px_str_offset(line: &str) -> &str {
    line.find("//").map_or(line, |i| &line[..i])
}

pub fn good_px_str_offset_direct(line: &str) -> &str {
    match line.find(':') {
        Some(i) => &line[..i],
        None => line,
    }
}

pub fn bad_u8_non_utf8<W: Write>(w: &mut W) -> io::Result<()> {
    w.write_all(b"\xff\xfe")
}

pub fn bad_u8_dynamic<W: Write>(w: &mut W, data: &[u8]) -> io::Result<()> {
    w.write_all(data)
}

pub fn good_u8_ascii<W: Write>(w: &mut W) -> io::Result<()> {
    w.write_all(b"[General]\n")
}
