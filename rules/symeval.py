"""A small symbolic evaluator over the typed HIR trees: the value a function gives to a queried
quantity, as a decision tree over the conditions it tests.

It understands straight-line `let`s and assignments to locals, `if`/`else` (statement and expression
form), `if let`, `match` (patterns, guards, arm order), early `return` (also inside helpers that were
inlined by hirutil.inline_calls: such a return leaves only the inlined body), and blocks.  Loops are
not unrolled: every local assigned inside one becomes unknown.  The same tree comes out for the
imperative form (`let mut x = a; if c { x = b; }`) and the expression form
(`let x = if c { b } else { a };` / a helper with early returns), which is the point: rules ask about the
tree, not about the shape of the code.

Tree: ('v', expr) | ('ite', cond, then_tree, else_tree) where cond is ('e', expr) for a boolean expression
or ('pat', pattern, scrutinee_expr) for a pattern test.
"""
import hirutil as H
from hp import strip

UNKNOWN = {'k': 'unknown'}


class Stop(Exception):
    pass


def assigned_locals(e):
    names = set()

    def v(n, anc):
        if n.get('k') in ('assign', 'assignop'):
            l = n['l']
            while isinstance(l, dict) and l.get('k') in ('field', 'index', 'unary'):
                l = l.get('e')
            if isinstance(l, dict) and l.get('k') == 'local':
                names.add(l['name'])
    H.walk(e, v)
    return names


class SymEval:
    def __init__(self, query=None, budget=4000):
        # query(stmt_or_expr, env, self) -> tree | None : evaluated on every statement; a tree ends that path
        self.query = query
        self.budget = budget
        self.track_let_blocks = False

    # ------------------------------------------------------------------ values
    def subst(self, e, env):
        """expression with locals replaced by their (leaf) symbolic values"""
        if isinstance(e, dict):
            if e.get('k') == 'local' and e.get('name') in env:
                t = env[e['name']]
                if t[0] == 'v':
                    return t[1]
                return e
            return {k: (v if k in H.CHILD_SKIP else self.subst(v, env)) for k, v in e.items()}
        if isinstance(e, list):
            return [self.subst(x, env) for x in e]
        return e

    def value(self, e, env):
        """decision tree of the value of expression e"""
        self.budget -= 1
        if self.budget < 0:
            raise Stop()
        e0 = e
        while isinstance(e0, dict) and e0.get('k') == 'block' and not e0.get('stmts') and 'expr' in e0 and not e0.get('inl'):
            e0 = e0['expr']
        if not isinstance(e0, dict):
            return ('v', e0)
        k = e0.get('k')
        if k == 'local':
            if e0['name'] in env:
                return env[e0['name']]
            return ('v', e0)
        if k == 'block':
            # value of the block: its tail, or what an early `return` inside an inlined body gives
            return self.seq(list(e0.get('stmts', [])), e0.get('expr'), dict(env), lambda env2, tail: self.value(tail, env2)
                            if tail is not None else ('v', {'k': 'unit'}), ret_is_value=bool(e0.get('inl')))
        if k == 'if':
            c = self.cond(e0['c'], env)
            envt = self.bind_cond(e0['c'], env)
            t = self.value(e0['t'], envt)
            el = self.value(e0['e'], env) if 'e' in e0 else ('v', {'k': 'unit'})
            return ('ite', c, t, el)
        if k == 'match' and not e0.get('src', '').startswith('TryDesugar'):
            return self.match(e0, env, lambda body, env2: self.value(body, env2))
        if k in ('addr',) or (k == 'unary' and e0.get('op') == 'Deref'):
            inner = self.value(e0['e'], env)
            if inner[0] == 'ite':
                return inner
            return ('v', self.subst(e0, env))
        return ('v', self.subst(e0, env))

    def cond(self, c, env):
        c0 = strip(c)
        if isinstance(c0, dict) and c0.get('k') == 'let':
            return ('pat', c0['pat'], self.subst(c0['init'], env))
        return ('e', self.subst(c0, env))

    def bind_cond(self, c, env):
        return env

    def assume(self, c, polarity, env):
        """environment inside the branch taken when condition c has the given truth value (hook)"""
        return env

    def effect(self, st, env):
        """hook: new environment for an expression statement with a side effect the evaluator should track"""
        return None

    def match(self, m, env, kbody):
        scrut = self.subst(m['scrut'], env)

        def arms(i):
            if i >= len(m['arms']):
                return ('v', {'k': 'unreachable'})
            a = m['arms'][i]
            body = lambda: kbody(a['body'], env)
            pat = a['pat']
            always = pat.get('k') in ('wild', 'bind') and 'sub' not in pat
            if 'guard' in a:
                inner = ('ite', self.cond(a['guard'], env), body(), arms(i + 1))
            else:
                inner = body()
            if always:
                return inner
            if 'guard' not in a and i == len(m['arms']) - 1:
                return inner        # exhaustive: the last arm takes what is left
            return ('ite', ('pat', pat, scrut), inner, arms(i + 1))
        return arms(0)

    # ------------------------------------------------------------------ statements
    def seq(self, stmts, tail, env, k, ret_is_value=False, kret=None):
        """outcome of running stmts then the tail; k(env, tail) gives the outcome of normal completion;
        kret(value_tree) the outcome of a `return`"""
        if ret_is_value:
            kret = lambda vt, env_=None: vt
        self.budget -= 1
        if self.budget < 0:
            raise Stop()
        if not stmts:
            # the tail expression can itself be control flow with returns/assignments
            if isinstance(tail, dict) and tail.get('k') in ('if', 'match', 'block', 'ret') and self._has_effects(tail):
                return self.stmt(tail, env, lambda env2: k(env2, None), kret, as_tail=k)
            return k(env, tail)
        st, rest = stmts[0], stmts[1:]
        return self.stmt(st, env, lambda env2: self.seq(rest, tail, env2, k, kret=kret), kret)

    def _has_effects(self, e):
        hit = []

        def v(n, anc):
            if n.get('k') in ('ret', 'assign', 'assignop'):
                hit.append(n)
        H.walk(e, v)
        return bool(hit)

    def stmt(self, st, env, knext, kret, as_tail=None):
        if self.query is not None:
            q = self.query(st, env, self)
            if q is not None:
                return q
        if not isinstance(st, dict):
            return knext(env)
        k = st.get('k')
        if k == 'slet':
            names = H.pat_bindings(st['pat'])
            env2 = dict(env)
            init = st.get('init')
            if isinstance(init, dict) and init.get('k') == 'block' and init.get('stmts') and st['pat'].get('k') == 'bind' \
                    and len(names) == 1 and self.track_let_blocks:
                # the initialiser runs statements (an inlined helper): keep their effects, then bind the value
                def bound(env3, vt):
                    env4 = dict(env3)
                    env4[names[0]] = vt
                    return knext(env4)
                return self.seq(list(init.get('stmts', [])), init.get('expr'), dict(env),
                                lambda env3, tl: bound(env3, self.value(tl, env3) if tl is not None else ('v', {'k': 'unit'})),
                                kret=(lambda vt, env3=None: bound(env3 if env3 is not None else env, vt)) if init.get('inl') else kret)
            if 'init' in st and st['pat'].get('k') == 'bind' and len(names) == 1:
                env2[names[0]] = self.value(st['init'], env)
            else:
                for n in names:
                    env2.pop(n, None)       # bound by a pattern: the local stands for itself
            return knext(env2)
        if k == 'assign':
            l = st['l']
            if isinstance(l, dict) and l.get('k') == 'local':
                env2 = dict(env)
                env2[l['name']] = self.value(st['r'], env)
                return knext(env2)
            return knext(env)
        if k == 'assignop':
            l = st['l']
            if isinstance(l, dict) and l.get('k') == 'local':
                env2 = dict(env)
                env2[l['name']] = ('v', UNKNOWN)
                return knext(env2)
            return knext(env)
        if k == 'ret':
            vt = self.value(st['e'], env) if 'e' in st else ('v', {'k': 'unit'})
            if kret is None:
                return ('v', {'k': 'returned', 'e': vt})
            return kret(vt, env)
        if k == 'if':
            c = self.cond(st['c'], env)
            if as_tail is not None:
                kt = lambda env2, tl: as_tail(env2, tl)
            else:
                kt = lambda env2, tl: knext(env2)
            env_t = self.assume(st['c'], True, env)
            env_e = self.assume(st['c'], False, env)
            t = self._branch(st['t'], env_t, kt, kret)
            if 'e' in st:
                e = self._branch(st['e'], env_e, kt, kret)
            else:
                e = knext(env_e) if as_tail is None else as_tail(env_e, None)
            return ('ite', c, t, e)
        if k == 'match' and not st.get('src', '').startswith(('TryDesugar', 'ForLoop')):
            if as_tail is not None:
                kt = lambda env2, tl: as_tail(env2, tl)
            else:
                kt = lambda env2, tl: knext(env2)
            return self.match(st, env, lambda body, env2: self._branch(body, env2, kt, kret))
        if k == 'block':
            if st.get('inl') and as_tail is None:
                # statement position: a `return` inside an inlined helper just ends the helper
                return self.seq(list(st.get('stmts', [])), st.get('expr'), env, lambda env2, tl: knext(env2),
                                kret=lambda vt, env2=None: knext(env2 if env2 is not None else env))
            if as_tail is not None:
                return self.seq(list(st.get('stmts', [])), st.get('expr'), env, as_tail, kret=kret)
            return self.seq(list(st.get('stmts', [])), st.get('expr'), env, lambda env2, tl: knext(env2), kret=kret)
        other = self.effect(st, env)
        if other is not None:
            return knext(other)
        if k == 'loop' or (k == 'match' and st.get('src', '').startswith('ForLoop')):
            env2 = dict(env)
            for n in assigned_locals(st):
                env2[n] = ('v', UNKNOWN)
            return knext(env2)
        return knext(env)

    def _branch(self, b, env, k, kret):
        if isinstance(b, dict) and b.get('k') == 'block':
            return self.seq(list(b.get('stmts', [])), b.get('expr'), dict(env), k, kret=kret)
        return self.seq([], b, dict(env), k, kret=kret)


def leaves(tree, path=()):
    """[(conditions with polarity, leaf expr)]"""
    if tree[0] == 'v':
        return [(path, tree[1])]
    _, c, t, e = tree
    return leaves(t, path + ((c, True),)) + leaves(e, path + ((c, False),))


def evaluate(tree, decide):
    """leaf reached when decide(cond) -> True/False/None answers every test (None: cannot decide -> None result)"""
    while tree[0] == 'ite':
        d = decide(tree[1])
        if d is None:
            return None
        tree = tree[2] if d else tree[3]
    return tree[1]
