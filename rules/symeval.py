"""A small symbolic evaluator over the typed HIR trees: the value a function gives to a queried
quantity, as a decision tree over the conditions it tests.

It understands straight-line `let`s and assignments to locals, `if`/`else` (statement and expression
form), `if let`, `match` (patterns, guards, arm order), early `return` (also inside helpers that were
inlined by hirutil.inline_calls: such a return leaves only the inlined body), and blocks.  Loops are
not unrolled: every local assigned inside one becomes unknown.  The same tree comes out for the
imperative form (`let mut x = a; if c { x = b; }`) and the expression form
(`let x = if c { b } else { a };` / a helper with early returns), which is the point: rules ask about the
tree, not about the shape of the code.

Tree: ('v', expr) | ('ite', cond, then_tree, else_tree) where cond is ('e', expr) for a boolean expression
or ('pat', pattern, scrutinee_expr) for a pattern test.
"""
import hirutil as H
from hp import strip

UNKNOWN = {'k': 'unknown'}


class Stop(Exception):
    pass


def assigned_locals(e):
    names = set()

    def v(n, anc):
        if n.get('k') in ('assign', 'assignop'):
            l = n['l']
            while isinstance(l, dict) and l.get('k') in ('field', 'index', 'unary'):
                l = l.get('e')
            if isinstance(l, dict) and l.get('k') == 'local':
                names.add(l['name'])
    H.walk(e, v)
    return names


class SymEval:
    def __init__(self, query=None, budget=4000):
        # query(stmt_or_expr, env, self) -> tree | None : evaluated on every statement; a tree ends that path
        self.query = query
        self.budget = budget
        self.track_let_blocks = False
        self.cps_lets = True
        self.bind_struct_lets = True

    # ------------------------------------------------------------------ values
    def subst(self, e, env):
        """expression with locals replaced by their (leaf) symbolic values"""
        if isinstance(e, dict):
            if e.get('k') == 'local' and e.get('name') in env:
                t = env[e['name']]
                if t[0] == 'v':
                    return t[1]
                return e
            return {k: (v if k in H.CHILD_SKIP else self.subst(v, env)) for k, v in e.items()}
        if isinstance(e, list):
            return [self.subst(x, env) for x in e]
        return e

    def value(self, e, env):
        """decision tree of the value of expression e"""
        self.budget -= 1
        if self.budget < 0:
            raise Stop()
        e0 = e
        while isinstance(e0, dict) and e0.get('k') == 'block' and not e0.get('stmts') and 'expr' in e0 and not e0.get('inl'):
            e0 = e0['expr']
        if not isinstance(e0, dict):
            return ('v', e0)
        k = e0.get('k')
        if k == 'local':
            if e0['name'] in env:
                return env[e0['name']]
            return ('v', e0)
        if k == 'block':
            # value of the block: its tail, or what an early `return` inside an inlined body gives
            return self.seq(list(e0.get('stmts', [])), e0.get('expr'), dict(env), lambda env2, tail: self.value(tail, env2)
                            if tail is not None else ('v', {'k': 'unit'}), ret_is_value=bool(e0.get('inl')))
        if k == 'if':
            c = self.cond(e0['c'], env)
            if c[0] == 'pat':
                st_, binds = self.static_pat(c[1], c[2])
                if st_ is True:
                    envb = dict(env)
                    envb.update(binds)
                    return self.value(e0['t'], envb)
                if st_ is False:
                    return self.value(e0['e'], env) if 'e' in e0 else ('v', {'k': 'unit'})
            envt = self.bind_cond(e0['c'], env)
            t = self.value(e0['t'], envt)
            el = self.value(e0['e'], env) if 'e' in e0 else ('v', {'k': 'unit'})
            return ('ite', c, t, el)
        if k == 'mcall' and e0.get('name') in ('map_or', 'map_or_else', 'unwrap_or', 'unwrap_or_else', 'is_some_and') and \
                (strip(e0['recv']).get('ty') or '' if isinstance(strip(e0['recv']), dict) else '').startswith('std::option::Option<'):
            # Option combinators as the decision they are: `o.map_or_else(|| d, |x| f(x))` is
            # `if let Some(x) = o { f(x) } else { d }`
            t_ = self._option_combinator(e0, env)
            if t_ is not None:
                return t_
        if k == 'mcall' and e0.get('name') == 'then_some' and len(e0.get('args', [])) == 1 and \
                (strip(e0['recv']).get('ty') if isinstance(strip(e0['recv']), dict) else None) == 'bool':
            # `cond.then_some(x)` is `if cond { Some(x) } else { None }`
            some = {'k': 'call', 'f': {'k': 'path', 'def': 'std::option::Option::Some', 'dk': 'Ctor(Variant, Fn)', 'name': 'Some'},
                    'args': [self.subst(e0['args'][0], env)]}
            none = {'k': 'path', 'def': 'std::option::Option::None', 'dk': 'Ctor(Variant, Const)', 'name': 'None'}
            return ('ite', ('e', self.subst(strip(e0['recv']), env)), ('v', some), ('v', none))
        if k == 'match' and not e0.get('src', '').startswith('TryDesugar'):
            return self.match(e0, env, lambda body, env2: self.value(body, env2))
        if k in ('addr',) or (k == 'unary' and e0.get('op') == 'Deref'):
            inner = self.value(e0['e'], env)
            if inner[0] == 'ite':
                return inner
            return ('v', self.subst(e0, env))
        if k in ('call', 'mcall') and getattr(self, 'distribute_calls', True):
            # a call one of whose arguments is a decision-valued local (`let x = opt.unwrap_or(&d); f(x)`): the call
            # of each alternative, under the same decision
            operands = ([e0['recv']] if k == 'mcall' else []) + list(e0.get('args', []))
            for a in operands:
                a0 = strip(a)
                if isinstance(a0, dict) and a0.get('k') == 'local' and a0.get('name') in env and env[a0['name']][0] == 'ite':
                    nm = a0['name']
                    t = env[nm]
                    env2 = dict(env)
                    env2.pop(nm)

                    def on(tt):
                        if tt[0] == 'ite':
                            return ('ite', tt[1], on(tt[2]), on(tt[3]))
                        env3 = dict(env2)
                        env3[nm] = tt
                        return self.value(e0, env3)
                    return on(t)
        return ('v', self.subst(e0, env))

    def _option_combinator(self, e0, env):
        name, args = e0['name'], e0.get('args', [])
        recv = e0['recv']

        def closure_of(a):
            a = strip(a)
            return a if isinstance(a, dict) and a.get('k') == 'closure' else None

        def apply1(fn, argname_expr):
            cl = closure_of(fn)
            if cl is not None and len(cl.get('params', [])) == 1 and cl['params'][0].get('k') == 'bind':
                env2 = dict(env)
                env2.pop(cl['params'][0]['name'], None)
                return cl['params'][0]['name'], self.value(cl['body'], env2)
            f0 = strip(fn)
            if isinstance(f0, dict) and f0.get('k') == 'path':
                # a function / constructor by name: `Some`, `Self::f`
                return '__x', ('v', {'k': 'call', 'f': f0, 'args': [{'k': 'local', 'name': '__x'}]})
            return None, None

        def apply0(fn):
            cl = closure_of(fn)
            if cl is not None and not cl.get('params'):
                return self.value(cl['body'], env)
            return None
        some_v = none_v = pname = None
        if name == 'map_or' and len(args) == 2:
            none_v = self.value(args[0], env)
            pname, some_v = apply1(args[1], None)
        elif name == 'map_or_else' and len(args) == 2:
            none_v = apply0(args[0])
            pname, some_v = apply1(args[1], None)
        elif name == 'unwrap_or' and len(args) == 1:
            none_v = self.value(args[0], env)
            pname, some_v = '__x', ('v', {'k': 'local', 'name': '__x'})
        elif name == 'unwrap_or_else' and len(args) == 1:
            none_v = apply0(args[0])
            pname, some_v = '__x', ('v', {'k': 'local', 'name': '__x'})
        elif name == 'is_some_and' and len(args) == 1:
            none_v = ('v', {'k': 'lit', 't': 'bool', 'v': False})
            pname, some_v = apply1(args[0], None)
        if some_v is None or none_v is None or pname is None:
            return None
        pat = {'k': 'ptstruct', 'path': {'k': 'path', 'name': 'Some', 'def': 'std::option::Option::Some', 'dk': 'Ctor(Variant, Fn)'},
               'pats': [{'k': 'bind', 'name': pname, 'mode': ''}]}
        rv = self.value(recv, env)

        def on(t):
            if t[0] == 'ite':
                return ('ite', t[1], on(t[2]), on(t[3]))
            st_, binds = self.static_pat(pat, t[1])
            if st_ is True:
                # substitute the payload for the closure parameter
                payload = binds.get(pname, ('v', {'k': 'local', 'name': pname}))[1]
                return self._subst_tree(some_v, pname, payload)
            if st_ is False:
                return none_v
            return ('ite', ('pat', pat, t[1]), some_v, none_v)
        return on(rv)

    def _subst_tree(self, t, name, expr):
        if t[0] == 'ite':
            c = t[1]
            c2 = (c[0], self.subst(c[1], {name: ('v', expr)})) if c[0] == 'e' else (c[0], c[1], self.subst(c[2], {name: ('v', expr)}))
            return ('ite', c2, self._subst_tree(t[2], name, expr), self._subst_tree(t[3], name, expr))
        return ('v', self.subst(t[1], {name: ('v', expr)}) if isinstance(t[1], dict) else t[1])

    def _has_return(self, e):
        hit = []
        H.walk(e if isinstance(e, dict) else {}, lambda n, a: hit.append(n) if n.get('k') in ('ret', 'continue', 'break') else None)
        return bool(hit)

    def value_cps(self, e, env, kv, kret):
        """value of e in continuation style: kv(value leaf/tree, env) on each path that yields a value, kret on `return`"""
        self.budget -= 1
        if self.budget < 0:
            raise Stop()
        e0 = e
        while isinstance(e0, dict) and e0.get('k') == 'block' and not e0.get('stmts') and 'expr' in e0 and not e0.get('inl'):
            e0 = e0['expr']
        if not isinstance(e0, dict):
            return kv(('v', e0), env)
        k = e0.get('k')
        if k == 'ret':
            vt = self.value(e0['e'], env) if 'e' in e0 else ('v', {'k': 'unit'})
            if kret is None:
                return ('v', {'k': 'returned', 'e': vt})
            return kret(vt, env)
        if k in ('continue', 'break'):
            return ('v', {'k': k})
        if k == 'if':
            c = self.cond(e0['c'], env)
            t = self.value_cps(e0['t'], self.assume(e0['c'], True, env), kv, kret)
            el = self.value_cps(e0['e'], self.assume(e0['c'], False, env), kv, kret) if 'e' in e0 else kv(('v', {'k': 'unit'}), env)
            return ('ite', c, t, el)
        if k == 'match' and not e0.get('src', '').startswith('TryDesugar'):
            return self.match(e0, env, lambda body, env2: self.value_cps(body, env2, kv, kret))
        if k == 'block':
            inner_ret = (lambda vt, env2=None: kv(vt, env2 if env2 is not None else env)) if e0.get('inl') else kret
            return self.seq(list(e0.get('stmts', [])), e0.get('expr'), dict(env),
                            lambda env2, tl: self.value_cps(tl, env2, kv, inner_ret) if tl is not None else kv(('v', {'k': 'unit'}), env2),
                            kret=inner_ret)
        vt = self.value(e0, env)

        def dist(t):
            if t[0] == 'ite':
                return ('ite', t[1], dist(t[2]), dist(t[3]))
            return kv(t, env)
        return dist(vt)

    def cond(self, c, env):
        c0 = strip(c)
        if isinstance(c0, dict) and c0.get('k') == 'let':
            return ('pat', c0['pat'], self.subst(c0['init'], env))
        return ('e', self.subst(c0, env))

    def bind_cond(self, c, env):
        return env

    def assume(self, c, polarity, env):
        """environment inside the branch taken when condition c has the given truth value (hook)"""
        return env

    def effect(self, st, env):
        """hook: new environment for an expression statement with a side effect the evaluator should track"""
        return None

    @staticmethod
    def static_pat(pat, scrut):
        """(matches?, bindings) when a constructor pattern meets a constructor value (`Some(x)` / `None` / a unit variant
        path); (None, {}) when it cannot be told"""
        s0 = strip(scrut) if isinstance(scrut, dict) else scrut
        p0 = pat
        while isinstance(p0, dict) and p0.get('k') == 'pref':
            p0 = p0['p']
        if not isinstance(s0, dict) or not isinstance(p0, dict):
            return None, {}
        if p0.get('k') == 'bind' and 'sub' in p0:
            # `name @ PAT`
            st_, b_ = SymEval.static_pat(p0['sub'], scrut)
            if st_ is True:
                b_ = dict(b_)
                b_[p0['name']] = ('v', s0)
            return st_, b_

        def ctor_of_value(v):
            # variants are compared by name: pattern and value have the same type in a type-checked program, and the
            # printed path of a re-exported variant (`std::prelude::v1::Some`) differs from its definition path
            if v.get('k') == 'call' and v['f'].get('k') == 'path' and 'Ctor' in v['f'].get('dk', ''):
                return v['f'].get('name'), list(v['args'])
            if v.get('k') == 'path' and 'Ctor' in v.get('dk', ''):
                return v.get('name'), []
            return None, None
        cv, args = ctor_of_value(s0)
        if cv is None:
            return None, {}
        if p0.get('k') == 'ptstruct':
            cp = p0['path'].get('name')
            if cp != cv:
                return False, {}
            b = {}
            for sp, a in zip(p0.get('pats', []), args):
                if sp.get('k') == 'bind' and 'sub' not in sp:
                    b[sp['name']] = ('v', a)
                elif sp.get('k') != 'wild':
                    return None, {}
            return True, b
        if p0.get('k') == 'pexpr' and isinstance(p0.get('e'), dict) and p0['e'].get('k') == 'path':
            return (p0['e'].get('name') == cv), {}
        if p0.get('k') == 'path':
            return (p0.get('name') == cv), {}
        return None, {}

    @staticmethod
    def structural_binds(pat, scrut):
        """what the names of a slice / struct pattern stand for, as expressions over the scrutinee:
        `[first, .., last]` on `s` binds first to `s[0]`, last to `s[s.len() - 1]`; `S { a, b: c }` on `v` binds a to `v.a`"""
        out = {}
        p0 = pat
        while isinstance(p0, dict) and p0.get('k') == 'pref':
            p0 = p0['p']
        if not isinstance(p0, dict) or not isinstance(scrut, dict):
            return out

        def name_of(sp):
            while isinstance(sp, dict) and sp.get('k') == 'pref':
                sp = sp['p']
            if isinstance(sp, dict) and sp.get('k') == 'bind' and 'sub' not in sp:
                return sp['name']
            return None
        if p0.get('k') == 'pslice':
            for i_, sp in enumerate(p0.get('before', [])):
                nm = name_of(sp)
                if nm:
                    out[nm] = ('v', {'k': 'index', 'e': scrut, 'i': {'k': 'lit', 't': 'int', 'v': i_}})
            after = p0.get('after', [])
            if not p0.get('rest'):
                base = len(p0.get('before', []))
                for j_, sp in enumerate(after):
                    nm = name_of(sp)
                    if nm:
                        out[nm] = ('v', {'k': 'index', 'e': scrut, 'i': {'k': 'lit', 't': 'int', 'v': base + j_}})
            else:
                for j_, sp in enumerate(after):
                    nm = name_of(sp)
                    if nm:
                        back = len(after) - j_
                        out[nm] = ('v', {'k': 'index', 'e': scrut, 'i': {
                            'k': 'binary', 'op': 'Sub', 'a': {'k': 'mcall', 'name': 'len', 'recv': scrut, 'args': []},
                            'b': {'k': 'lit', 't': 'int', 'v': back}}})
        elif p0.get('k') == 'pstruct':
            for f in p0.get('fields', []):
                nm = name_of(f.get('p'))
                if nm:
                    out[nm] = ('v', {'k': 'field', 'e': scrut, 'n': f['n']})
        elif p0.get('k') == 'ptstruct' and p0['path'].get('name') == 'Some' and len(p0.get('pats', [])) == 1:
            # `Some(x)` on `s.first()` / `s.get(i)` / `s.last()`: x is that element
            nm = name_of(p0['pats'][0])
            sc0 = strip(scrut)
            if nm and isinstance(sc0, dict) and sc0.get('k') == 'mcall' and sc0.get('name') in ('first', 'get', 'last'):
                recv = strip(sc0['recv'])
                if sc0['name'] == 'first' and not sc0.get('args'):
                    out[nm] = ('v', {'k': 'index', 'e': recv, 'i': {'k': 'lit', 't': 'int', 'v': 0}})
                elif sc0['name'] == 'get' and len(sc0.get('args', [])) == 1:
                    out[nm] = ('v', {'k': 'index', 'e': recv, 'i': sc0['args'][0]})
                elif sc0['name'] == 'last' and not sc0.get('args'):
                    out[nm] = ('v', {'k': 'index', 'e': recv, 'i': {
                        'k': 'binary', 'op': 'Sub', 'a': {'k': 'mcall', 'name': 'len', 'recv': recv, 'args': []},
                        'b': {'k': 'lit', 't': 'int', 'v': 1}}})
        return out

    def match(self, m, env, kbody, _scrut=None):
        if _scrut is None:
            s0 = m['scrut']
            while isinstance(s0, dict) and s0.get('k') == 'addr':
                s0 = s0['e']
            if isinstance(s0, dict) and s0.get('k') in ('block', 'match', 'if') and \
                    not (s0.get('k') == 'match' and s0.get('src', '').startswith('TryDesugar')):
                # the scrutinee is itself a decision (an inlined classifier): match each of its outcomes
                sv = self.value(s0, env)
                if sv[0] == 'ite':
                    def dist(t):
                        if t[0] == 'ite':
                            return ('ite', t[1], dist(t[2]), dist(t[3]))
                        return self.match(m, env, kbody, _scrut=t[1])
                    return dist(sv)
        scrut = _scrut if _scrut is not None else self.subst(m['scrut'], env)

        def arms(i):
            if i >= len(m['arms']):
                return ('v', {'k': 'unreachable'})
            a = m['arms'][i]
            pat = a['pat']
            s_t = strip(scrut)
            if isinstance(s_t, dict) and s_t.get('k') == 'tup' and pat.get('k') == 'ptuple' and \
                    len(pat.get('pats', [])) == len(s_t.get('es', [])) and 'guard' in a and \
                    all(q.get('k') in ('wild', 'ptstruct', 'pexpr', 'pref') or (q.get('k') == 'bind' and 'sub' not in q) for q in pat['pats']):
                # `match (s.first(), s.get(i)) { (None, _) => .., (Some(&x), _) if g => .., .. }`: component tests, then the guard
                comp = []
                env_g = dict(env)
                for q, el in zip(pat['pats'], s_t['es']):
                    if q.get('k') == 'wild':
                        continue
                    if q.get('k') == 'bind':
                        env_g[q['name']] = ('v', el)
                        continue
                    comp.append((q, el))
                    for nm_, vv_ in self.structural_binds(q, el).items():
                        env_g[nm_] = vv_
                rest_g = None

                def nxt_g():
                    nonlocal rest_g
                    if rest_g is None:
                        rest_g = arms(i + 1)
                    return rest_g

                def build_g(j):
                    if j >= len(comp):
                        return ('ite', self.cond(a['guard'], env_g), kbody(a['body'], env_g), nxt_g())
                    q, el = comp[j]
                    return ('ite', ('pat', q, el), build_g(j + 1), nxt_g())
                return build_g(0)
            if isinstance(s_t, dict) and s_t.get('k') == 'tup' and pat.get('k') == 'ptuple' and \
                    len(pat.get('pats', [])) == len(s_t.get('es', [])) and 'guard' not in a:
                # `match (a, b) { (true, _) => .., (false, true) => .., .. }`: a test of the components
                tests = []
                okp = True
                env_t = None
                for q, el in zip(pat['pats'], s_t['es']):
                    if q.get('k') == 'wild':
                        continue
                    lit = q.get('e') if q.get('k') == 'pexpr' else q
                    if isinstance(lit, dict) and lit.get('k') == 'lit' and lit.get('t') == 'bool':
                        tests.append((el, bool(lit['v'])))
                    elif q.get('k') in ('ptstruct', 'pexpr', 'pref') and any(x.get('k') in ('ptstruct', 'pexpr') for x in pat['pats']):
                        tests.append((('pat', q, el), True))
                        env_t = env_t if env_t is not None else dict(env)
                        for nm_, vv_ in self.structural_binds(q, el).items():
                            env_t[nm_] = vv_
                    else:
                        okp = False
                env_use = env_t if (okp and env_t is not None) else env
                if okp:
                    rest = None

                    def nxt():
                        nonlocal rest
                        if rest is None:
                            rest = arms(i + 1)
                        return rest

                    def build(j):
                        if j >= len(tests):
                            return kbody(a['body'], env_use)
                        el, want = tests[j]
                        c = el if isinstance(el, tuple) and el and el[0] == 'pat' else ('e', el)
                        return ('ite', c, build(j + 1), nxt()) if want else ('ite', c, nxt(), build(j + 1))
                    if not tests:
                        return kbody(a['body'], env_use)
                    if i == len(m['arms']) - 1:
                        return kbody(a['body'], env_use)      # exhaustive: the last arm takes what is left
                    return build(0)
            st, binds = self.static_pat(pat, scrut)
            if st is False:
                return arms(i + 1)
            env_a = env
            binds = dict(binds)
            binds.update(self.structural_binds(pat, scrut))
            if pat.get('k') == 'bind' and 'sub' not in pat and pat.get('name') not in binds and isinstance(scrut, dict):
                binds[pat['name']] = ('v', scrut)         # `x => ..` / `x if guard => ..`: x is the scrutinee
            if binds:
                env_a = dict(env)
                env_a.update(binds)
            body = lambda: kbody(a['body'], env_a)
            always = st is True or (pat.get('k') in ('wild', 'bind') and 'sub' not in pat)
            if 'guard' in a:
                inner = ('ite', self.cond(a['guard'], env_a), body(), arms(i + 1))
            else:
                inner = body()
            if always:
                return inner
            if 'guard' not in a and i == len(m['arms']) - 1:
                return inner        # exhaustive: the last arm takes what is left
            return ('ite', ('pat', pat, scrut), inner, arms(i + 1))
        return arms(0)

    # ------------------------------------------------------------------ statements
    def seq(self, stmts, tail, env, k, ret_is_value=False, kret=None):
        """outcome of running stmts then the tail; k(env, tail) gives the outcome of normal completion;
        kret(value_tree) the outcome of a `return`"""
        if ret_is_value:
            kret = lambda vt, env_=None: vt
        self.budget -= 1
        if self.budget < 0:
            raise Stop()
        if not stmts:
            # the tail expression can itself be control flow with returns/assignments
            if isinstance(tail, dict) and tail.get('k') in ('if', 'match', 'block', 'ret', 'loop') and self._has_effects(tail):
                return self.stmt(tail, env, lambda env2: k(env2, None), kret, as_tail=k)
            if isinstance(tail, dict) and tail.get('k') in ('assign', 'assignop'):
                # an effect in tail position (`Kind::A => x = y,`)
                return self.stmt(tail, env, lambda env2: k(env2, None), kret)
            if isinstance(tail, dict) and self.track_let_blocks and tail.get('k') in ('call', 'mcall'):
                # a call in tail position: its tracked effects happen, its value is still the block's value
                env_c = self.effect(tail, env)
                return k(env_c if env_c is not None else env, tail)
            return k(env, tail)
        st, rest = stmts[0], stmts[1:]
        return self.stmt(st, env, lambda env2: self.seq(rest, tail, env2, k, kret=kret), kret)

    def _has_effects(self, e):
        hit = []

        def v(n, anc):
            if n.get('k') in ('ret', 'assign', 'assignop') or (self.track_let_blocks and n.get('k') in ('call', 'mcall')):
                hit.append(n)
        H.walk(e, v)
        return bool(hit)

    def stmt(self, st, env, knext, kret, as_tail=None):
        if self.query is not None:
            q = self.query(st, env, self)
            if q is not None:
                return q
        if not isinstance(st, dict):
            return knext(env)
        k = st.get('k')
        if k == 'slet' and 'els' in st and 'init' in st:
            # `let PAT = init else { diverge };`
            env2 = dict(env)
            for n in H.pat_bindings(st['pat']):
                env2.pop(n, None)
            scrut = self.subst(st['init'], env)
            st_, binds = self.static_pat(st['pat'], scrut)
            if st_ is True:
                env2.update(binds)
                return knext(env2)
            els = self._branch(st['els'], env, lambda env3, tl: ('v', {'k': 'unreachable'}), kret)
            if st_ is False:
                return els
            return ('ite', ('pat', st['pat'], scrut), knext(env2), els)
        if k == 'slet':
            names = H.pat_bindings(st['pat'])
            env2 = dict(env)
            init = st.get('init')
            if isinstance(init, dict) and init.get('k') == 'block' and init.get('stmts') and st['pat'].get('k') == 'bind' \
                    and len(names) == 1 and self.track_let_blocks:
                # the initialiser runs statements (an inlined helper): keep their effects, then bind the value
                def bound(env3, vt):
                    env4 = dict(env3)
                    env4[names[0]] = vt
                    return knext(env4)
                return self.seq(list(init.get('stmts', [])), init.get('expr'), dict(env),
                                lambda env3, tl: bound(env3, self.value(tl, env3) if tl is not None else ('v', {'k': 'unit'})),
                                kret=(lambda vt, env3=None: bound(env3 if env3 is not None else env, vt)) if init.get('inl') else kret)
            if 'init' in st and self.cps_lets and self._has_return(st['init']):
                # the initialiser can leave the function / loop (`let x = if c { return a; } else { b };`): evaluate it
                # path by path, binding the value it yields on each path that continues
                simple = st['pat'].get('k') == 'bind' and len(names) == 1

                def bound2(vt, env3):
                    env4 = dict(env3)
                    if simple:
                        env4[names[0]] = vt
                    else:
                        bound = False
                        if st['pat'].get('k') == 'ptuple' and vt[0] == 'v' and isinstance(vt[1], dict) and \
                                strip(vt[1]).get('k') == 'tup' and len(strip(vt[1])['es']) == len(st['pat']['pats']):
                            # `let (a, b) = (x, y);`
                            bound = True
                            for sp, el in zip(st['pat']['pats'], strip(vt[1])['es']):
                                if sp.get('k') == 'bind' and 'sub' not in sp:
                                    env4[sp['name']] = ('v', el)
                                else:
                                    for n_ in H.pat_bindings(sp):
                                        env4.pop(n_, None)
                        if not bound:
                            for n_ in names:
                                env4.pop(n_, None)
                    return knext(env4)
                return self.value_cps(st['init'], env, bound2, kret)
            if 'init' in st and st['pat'].get('k') == 'bind' and len(names) == 1:
                env2[names[0]] = self.value(st['init'], env)
            else:
                for n in names:
                    env2.pop(n, None)       # bound by a pattern: the local stands for itself
                if 'init' in st and self.bind_struct_lets:
                    env2.update(self.structural_binds(st['pat'], self.subst(st['init'], env)))
            return knext(env2)
        if k == 'assign':
            l = st['l']
            if isinstance(l, dict) and l.get('k') == 'local':
                env2 = dict(env)
                env2[l['name']] = self.value(st['r'], env)
                return knext(env2)
            return knext(env)
        if k == 'assignop':
            l = st['l']
            if isinstance(l, dict) and l.get('k') == 'local':
                env2 = dict(env)
                env2[l['name']] = ('v', UNKNOWN)
                return knext(env2)
            return knext(env)
        if k == 'ret':
            vt = self.value(st['e'], env) if 'e' in st else ('v', {'k': 'unit'})
            if kret is None:
                return ('v', {'k': 'returned', 'e': vt})
            return kret(vt, env)
        if k in ('continue', 'break'):
            # leaves the loop body being evaluated (callers evaluating a loop body look for these leaves)
            return ('v', {'k': k})
        if k == 'if':
            if as_tail is not None:
                kt = lambda env2, tl: as_tail(env2, tl)
            else:
                kt = lambda env2, tl: knext(env2)
            c_blk = st['c']
            while isinstance(c_blk, dict) and c_blk.get('k') == 'block' and not c_blk.get('stmts') and 'expr' in c_blk \
                    and not c_blk.get('inl'):
                c_blk = c_blk['expr']
            def on_value(vt, env2):
                if vt[0] == 'ite':
                    return ('ite', vt[1], on_value(vt[2], env2), on_value(vt[3], env2))
                leaf = strip(vt[1]) if isinstance(vt[1], dict) else vt[1]
                if isinstance(leaf, dict) and leaf.get('k') == 'lit' and leaf.get('t') == 'bool':
                    env2 = self.assume(st['c'], bool(leaf['v']), env2)
                    if leaf['v']:
                        return self._branch(st['t'], env2, kt, kret)
                    if 'e' in st:
                        return self._branch(st['e'], env2, kt, kret)
                    return knext(env2) if as_tail is None else as_tail(env2, None)
                t_ = self._branch(st['t'], env2, kt, kret)
                e_ = self._branch(st['e'], env2, kt, kret) if 'e' in st else (
                    knext(env2) if as_tail is None else as_tail(env2, None))
                return ('ite', ('e', leaf), t_, e_)
            if isinstance(c_blk, dict) and c_blk.get('k') == 'let' and isinstance(c_blk.get('init'), dict):
                i0 = c_blk['init']
                while isinstance(i0, dict) and i0.get('k') == 'addr':
                    i0 = i0['e']
                if isinstance(i0, dict) and i0.get('k') in ('block', 'match', 'if') and \
                        not (i0.get('k') == 'match' and i0.get('src', '').startswith('TryDesugar')):
                    # `if let PAT = <decision>`: test the pattern against each outcome of the scrutinee
                    sv = self.value(i0, env)

                    def on_scrut(vt):
                        if vt[0] == 'ite':
                            return ('ite', vt[1], on_scrut(vt[2]), on_scrut(vt[3]))
                        st_, binds = self.static_pat(c_blk['pat'], vt[1])
                        if st_ is True:
                            envb = dict(env)
                            envb.update(binds)
                            return self._branch(st['t'], envb, kt, kret)
                        if st_ is False:
                            if 'e' in st:
                                return self._branch(st['e'], env, kt, kret)
                            return knext(env) if as_tail is None else as_tail(env, None)
                        envp = dict(env)
                        for n_ in H.pat_bindings(c_blk['pat']):
                            envp.pop(n_, None)
                        t_ = self._branch(st['t'], envp, kt, kret)
                        e_ = self._branch(st['e'], env, kt, kret) if 'e' in st else (
                            knext(env) if as_tail is None else as_tail(env, None))
                        return ('ite', ('pat', c_blk['pat'], vt[1]), t_, e_)
                    if sv[0] == 'ite':
                        return on_scrut(sv)
            if isinstance(c_blk, dict) and c_blk.get('k') == 'block' and c_blk.get('stmts') and self.track_let_blocks:
                # the condition runs statements first (an inlined predicate with side effects): run them, then branch
                # on the value it yields on each of its paths
                return self.seq(list(c_blk.get('stmts', [])), c_blk.get('expr'), dict(env),
                                lambda env2, tl: on_value(self.value(tl, env2) if tl is not None else ('v', {'k': 'unit'}), env2),
                                kret=(lambda vt, env2=None: on_value(vt, env2 if env2 is not None else env))
                                if c_blk.get('inl') else kret)
            if isinstance(c_blk, dict) and c_blk.get('k') in ('block', 'match', 'if') and \
                    not (c_blk.get('k') == 'match' and c_blk.get('src', '').startswith('TryDesugar')):
                # a condition that is itself a decision (an inlined predicate, `matches!`): branch on each of its outcomes
                cv = self.value(c_blk, env)
                if cv[0] == 'ite':
                    return on_value(cv, env)
            c = self.cond(st['c'], env)
            if c[0] == 'pat':
                st_, binds = self.static_pat(c[1], c[2])
                if st_ is True:
                    envb = dict(env)
                    envb.update(binds)
                    return self._branch(st['t'], envb, kt, kret)
                if st_ is False:
                    if 'e' in st:
                        return self._branch(st['e'], env, kt, kret)
                    return knext(env) if as_tail is None else as_tail(env, None)
            env_t = self.assume(st['c'], True, env)
            env_e = self.assume(st['c'], False, env)
            t = self._branch(st['t'], env_t, kt, kret)
            if 'e' in st:
                e = self._branch(st['e'], env_e, kt, kret)
            else:
                e = knext(env_e) if as_tail is None else as_tail(env_e, None)
            return ('ite', c, t, e)
        if k == 'match' and not st.get('src', '').startswith(('TryDesugar', 'ForLoop')):
            if as_tail is not None:
                kt = lambda env2, tl: as_tail(env2, tl)
            else:
                kt = lambda env2, tl: knext(env2)
            return self.match(st, env, lambda body, env2: self._branch(body, env2, kt, kret))
        if k == 'block':
            if st.get('inl') and as_tail is None:
                # statement position: a `return` inside an inlined helper just ends the helper
                return self.seq(list(st.get('stmts', [])), st.get('expr'), env, lambda env2, tl: knext(env2),
                                kret=lambda vt, env2=None: knext(env2 if env2 is not None else env))
            if as_tail is not None:
                return self.seq(list(st.get('stmts', [])), st.get('expr'), env, as_tail, kret=kret)
            return self.seq(list(st.get('stmts', [])), st.get('expr'), env, lambda env2, tl: knext(env2), kret=kret)
        if H.is_try(st):
            # `helper(..)?` in statement position: the helper's effects happen, an error leaves the function (not followed)
            inner = H.try_inner(st)
            while isinstance(inner, dict) and inner.get('k') == 'block' and not inner.get('stmts') and 'expr' in inner \
                    and not inner.get('inl'):
                inner = inner['expr']
            if isinstance(inner, dict) and inner.get('k') == 'block' and (inner.get('stmts') or inner.get('inl')):
                return self.stmt(inner, env, knext, kret)
        other = self.effect(st, env)
        if other is not None:
            return knext(other)
        if k == 'loop' or (k == 'match' and st.get('src', '').startswith('ForLoop')):
            env2 = dict(env)
            for n in assigned_locals(st):
                env2[n] = ('v', UNKNOWN)
            return knext(env2)
        return knext(env)

    def _branch(self, b, env, k, kret):
        if isinstance(b, dict) and b.get('k') == 'block':
            return self.seq(list(b.get('stmts', [])), b.get('expr'), dict(env), k, kret=kret)
        return self.seq([], b, dict(env), k, kret=kret)


def leaves(tree, path=()):
    """[(conditions with polarity, leaf expr)]"""
    if tree[0] == 'v':
        return [(path, tree[1])]
    _, c, t, e = tree
    return leaves(t, path + ((c, True),)) + leaves(e, path + ((c, False),))


def evaluate(tree, decide):
    """leaf reached when decide(cond) -> True/False/None answers every test (None: cannot decide -> None result)"""
    while tree[0] == 'ite':
        d = decide(tree[1])
        if d is None:
            return None
        tree = tree[2] if d else tree[3]
    return tree[1]


class CallTrace(SymEval):
    """records, per path, the calls whose callee name is in `names` (method calls and path calls), in order"""

    def __init__(self, names, budget=20000):
        super().__init__(None, budget=budget)
        self.track_let_blocks = True
        self.names = set(names)

    def _scan(self, e, env):
        hits = []

        def v(n, anc):
            if any(a.get('k') == 'closure' for a in anc):
                return
            nm = None
            if n.get('k') == 'mcall':
                nm = n.get('name')
            elif n.get('k') == 'call' and isinstance(n.get('f'), dict) and n['f'].get('k') == 'path':
                nm = n['f'].get('name')
            if nm in self.names:
                hits.append((nm, n))
        if isinstance(e, dict):
            H.walk(e, v)
        if not hits:
            return None
        env2 = dict(env)
        env2['#calls'] = tuple(env.get('#calls', ())) + tuple(hits)
        return env2

    def effect(self, st, env):
        return self._scan(st, env)

    def cond(self, c, env):
        return super().cond(c, env)

    def stmt(self, st, env, knext, kret, as_tail=None):
        if isinstance(st, dict):
            k = st.get('k')
            tgt = None
            if k == 'slet' and 'init' in st and not (isinstance(st['init'], dict) and st['init'].get('k') in ('if', 'match', 'block')):
                tgt = st['init']
            elif k == 'if':
                tgt = st['c'] if not (isinstance(st['c'], dict) and st['c'].get('k') in ('block', 'match', 'if')) else None
            elif k == 'match':
                tgt = st['scrut'] if not (isinstance(st['scrut'], dict) and st['scrut'].get('k') in ('block', 'match', 'if')) else None
            elif k in ('assign', 'ret'):
                tgt = st.get('r', st.get('e'))
            if tgt is not None:
                e2 = self._scan(tgt, env)
                if e2 is not None:
                    env = e2
        return super().stmt(st, env, knext, kret, as_tail)


def call_paths(hfn, names):
    """[(path conditions with polarity, [callee names in order])] for every way through the function"""
    ev = CallTrace(names)
    body = hfn['body']
    tree = ev.seq(list(body.get('stmts', [])), body.get('expr'), {},
                  lambda env, tail: ('v', {'k': 'end', 'calls': (ev._scan(tail, env) or env).get('#calls', ()) if tail is not None
                                           else env.get('#calls', ())}),
                  kret=lambda vt, env=None: ('v', {'k': 'ret', 'calls': (env or {}).get('#calls', ())}))
    return [(path, [c[0] for c in leaf.get('calls', ())] if isinstance(leaf, dict) else []) for path, leaf in leaves(tree)]
