"""SC: spec constants and conversions taken from the property statements, NF: numeric funnel.

Each row names a function, a target (assignment / struct field / let / return value / constant)
and the pattern the value must have.  Rows are grouped by property."""
import hirutil as H
from hp import (Pat, OPT_OR, canon, unique_inits, PARAM_TY, RET, INDEX, BREAK, ASSIGNOP as _ASSIGNOP, CALLARG, CLAMP, Ctx, ANY, K, L, F, M, C, BIN, UN, CAST, TRY, P, VIA, OR, IF, CONTAINS, find, assignments,
                struct_field_inits, strip)
from facts import callee_of, op_local
from common import loc_of

GEN = '<section::general::decode::General as decode::DecodeBeatmap>::parse_general'
DIFF = '<section::difficulty::Difficulty as decode::DecodeBeatmap>::parse_difficulty'
EVENTS = '<section::events::decode::Events as decode::DecodeBeatmap>::parse_events'
TIMING = '<section::timing_points::decode::TimingPoints as decode::DecodeBeatmap>::parse_timing_points'
HITOBJ = '<section::hit_objects::decode::HitObjects as decode::DecodeBeatmap>::parse_hit_objects'
HO_FROM = ('<section::hit_objects::decode::HitObjects as std::convert::From<'
           'section::hit_objects::decode::HitObjectsState>>::from')
TP_FROM = ('<section::timing_points::decode::TimingPoints as std::convert::From<'
           'section::timing_points::decode::TimingPointsState>>::from')
CURVE = 'section::hit_objects::slider::curve::'
EVENT = 'section::hit_objects::slider::event::'

PARSE_I32 = OR(C('<i32 as util::parse_number::ParseNumber>::parse', ANY()),
               M('parse_num', ANY(), defsuffix='parse_num::<i32>'))


class Row:
    def __init__(self, prop, fn, label, check):
        self.prop, self.fn, self.label, self.check = prop, fn, label, check


def inline_helper(ctx, e):
    """one level of helper inlining: if `e` (seen through `?`) is a call of a local function, the
    expression that function returns (seen through an `Ok(..)` wrapper); else None"""
    e2 = strip(e)
    if not isinstance(e2, dict):
        return None
    d = None
    if e2.get('k') == 'call' and e2['f'].get('k') == 'path':
        d = e2['f'].get('def')
    elif e2.get('k') == 'mcall':
        d = e2.get('def')
    h2 = ctx.facts.hir.get(d) if d else None
    if h2 is None:
        return None
    body = h2['body']
    tail = body.get('expr') if body.get('k') == 'block' else body
    if tail is None:
        return None
    t2 = strip(tail)
    if isinstance(t2, dict) and t2.get('k') == 'call' and t2['f'].get('name') in ('Ok', 'Some') and len(t2['args']) == 1:
        t2 = t2['args'][0]
    return (t2, Ctx(ctx.facts, H.binding_inits(h2), h2))


def pmatch(ctx, pat, e):
    """pattern match with one level of local helper inlining"""
    ctx.env = {}
    if pat.m(ctx, e):
        return True
    ctx.env = {}
    ih = inline_helper(ctx, e)
    if ih is not None and pat.m(ih[1], ih[0]):
        return True
    # `helper(x)? <op> ..`: try inlining sub-expressions one level down for binary/method shapes
    e2 = strip(e)
    if isinstance(e2, dict) and e2.get('k') == 'local':
        for init in ctx.inits.get(e2['name'], []):
            ih = inline_helper(ctx, init)
            if ih is not None and pat.m(ih[1], ih[0]):
                return True
    return False


def _assignments_any_base(hfn, chain):
    out = []

    def visit(n, anc):
        if n.get('k') == 'assign':
            fc = H.field_chain(n['l'])
            if fc and fc[1] == list(chain):
                out.append((n['r'], n.get('ln'), anc))
    H.walk(hfn['body'], visit)
    return out


def _all_assign(fn_chain, pat, base='state'):
    def chk(ctx, hfn):
        rhs = assignments(hfn, base, fn_chain)
        if not rhs and ctx.names is not None and base not in ctx.names:
            # the base local was renamed: go by the field chain / by the value alone
            cand = _assignments_any_base(hfn, fn_chain)
            if fn_chain:
                rhs = cand
            else:
                rhs = [c for c in cand if pmatch(ctx, pat, c[0])][:1]
        if not rhs:
            return False, 'no assignment to `%s.%s` found' % (base, '.'.join(fn_chain)), None
        for r, ln, anc in rhs:
            if not pmatch(ctx, pat, r):
                return False, '`%s.%s` is not assigned a value of the form %r' % (base, '.'.join(fn_chain), pat), ln
        return True, '', rhs[0][1]
    chk.positive = True
    return chk


def _struct_init(adt, field, pat, where=None):
    def chk(ctx, hfn):
        inits = struct_field_inits(hfn, adt, field, where)
        if not inits:
            return False, 'no `%s { %s: .. }` literal found' % (adt.split('::')[-1], field), None
        for e, ln, anc in inits:
            if not pmatch(ctx, pat, e):
                return False, 'field `%s` of `%s` is not initialised as %r' % (field, adt.split('::')[-1], pat), ln
        return True, '', inits[0][1]
    chk.positive = True
    return chk


def _let(name, pat, every=True):
    def chk(ctx, hfn):
        inits = ctx.inits.get(name, [])
        if not inits:
            # the local was renamed: some binding of the function must have the required form; a field of a
            # struct literal (`Span { reversed: .. }`) is a binding too
            for nm, its in ctx.inits.items():
                for i in its:
                    if pmatch(ctx, pat, i):
                        return True, '', i.get('ln')
            fields = []

            def v(n, anc):
                if n.get('k') == 'struct':
                    fields.extend(f['e'] for f in n.get('fields', []))
            H.walk(hfn['body'], v)
            for i in fields:
                if pmatch(ctx, pat, i):
                    return True, '', i.get('ln') if isinstance(i, dict) else None
            return False, 'no binding of the form %r found (`%s` no longer exists)' % (pat, name), None
        if not inits:
            return False, 'no binding `%s` found' % name, None
        oks = [pmatch(ctx, pat, i) for i in inits]
        ok = all(oks) if every else any(oks)
        return ok, '' if ok else '`%s` is not bound to a value of the form %r' % (name, pat), inits[0].get('ln')
    chk.positive = True
    return chk


def _ret(pat):
    def chk(ctx, hfn):
        body = hfn['body']
        tail = body.get('expr') if body.get('k') == 'block' else body
        if tail is None:
            return False, 'function has no tail expression', None
        ok = pmatch(ctx, pat, tail)
        return ok, '' if ok else 'the returned value is not of the form %r' % (pat,), tail.get('ln')
    return chk


def _contains(pat, what):
    def chk(ctx, hfn):
        hits = find(ctx, hfn['body'], pat)
        return bool(hits), '' if hits else '%s not found (expected %r)' % (what, pat), hits[0][0].get('ln') if hits else None
    chk.positive = True
    return chk


def _not_contains(pat, what):
    def chk(ctx, hfn):
        hits = find(ctx, hfn['body'], pat)
        return not hits, '' if not hits else what, hits[0][0].get('ln') if hits else None
    chk.negative = True
    return chk


def _const(path, v):
    def chk(ctx, hfn):
        c = ctx.facts.consts.get(path)
        if c is None:
            return False, 'constant `%s` not found' % path, None
        ok = 'v' in c and abs(float(c['v']) - float(v)) < 1e-9
        return ok, '' if ok else 'constant `%s` is %r, the format says %r' % (path, c.get('v'), v), None
    return chk


ROWS = []


def row(prop, fn, label, check, keep=()):
    """keep: crate-local functions the row's pattern is about (their calls are not dissolved when the
    row is retried on the function with its helper calls inlined)"""
    if keep:
        check.keep = tuple(keep)
    ROWS.append(Row(prop, fn, label, check))


# ------------------------------------------------------------------------------ C11
for flag in ('letterbox_in_breaks', 'special_style', 'widescreen_storyboard', 'epilepsy_warning',
             'samples_match_playback_rate'):
    row('C11', GEN, 'flag:' + flag, _all_assign([flag], BIN('Eq', TRY(PARSE_I32), K(1), commutative=True)))
row('C11', DIFF, 'clamp:slider_multiplier',
    _all_assign(['difficulty', 'slider_multiplier'], CLAMP(TRY(C('ParseNumber>::parse', ANY())), K(0.4), K(3.6))))
row('C11', DIFF, 'clamp:slider_tick_rate',
    _all_assign(['difficulty', 'slider_tick_rate'], CLAMP(TRY(C('ParseNumber>::parse', ANY())), K(0.5), K(8.0))))
row('C11', DIFF, 'approach-rate-follows-od',
    _contains(IF(UN('Not', F(L('state'), 'has_approach_rate')), ANY()), 'approach rate follows OD only while unset'))
row('C11', DIFF, 'has_approach_rate-set', _all_assign(['has_approach_rate'], K(True)))
row('C11', EVENTS, 'break:end>=start',
    _struct_init('section::events::BreakPeriod', 'end_time',
                 VIA(M('max', L('start_time'), TRY(C('ParseNumber>::parse', ANY()))))))
row('C11', EVENTS, 'break:start', _struct_init('section::events::BreakPeriod', 'start_time',
                                               VIA(TRY(C('ParseNumber>::parse', OR(L('start_time'), F(ANY(), 'start_time')))))))
def _event_arm(hfn, variant):
    """body of the `EventType::<variant>` arm of the event-kind match"""
    res = []

    def visit(n, anc):
        if n.get('k') == 'match' and not n.get('src', '').startswith('TryDesugar'):
            for a in n['arms']:
                pats = a['pat'].get('pats') if a['pat'].get('k') == 'por' else [a['pat']]
                for p in pats:
                    e = p.get('e') if isinstance(p, dict) else None
                    if isinstance(e, dict) and e.get('def') == 'section::events::EventType::' + variant:
                        res.append(a['body'])
    H.walk(hfn['body'], visit)
    return res


def _break_always_stored(ctx, hfn):
    """a break event whose two times parse is stored: the push onto `breaks` is not under any condition"""
    arms = _event_arm(hfn, 'Break')
    if len(arms) != 1:
        return False, 'expected one `EventType::Break` arm, found %d' % len(arms), None
    pushes = []

    def visit(n, path):
        if n.get('k') == 'mcall' and n.get('name') in ('push', 'extend', 'insert', 'extend_from_slice', 'push_back'):
            fc = H.field_chain(strip(n['recv']))
            if fc and fc[1] and fc[1][-1] == 'breaks':
                conds = [a for a, k in path if (a.get('k') == 'if' and k in ('t', 'e')) or
                         (a.get('k') == 'match' and k == 'arms' and not a.get('src', '').startswith('TryDesugar')) or
                         (a.get('k') == 'closure') or (a.get('k') == 'loop')]
                pushes.append((n, conds))
    H.walk_paths(arms[0], visit)
    if not pushes:
        return False, 'the break arm never stores the break', None
    for n, conds in pushes:
        if conds:
            return False, ('a parsed break is stored only under a condition (line %s): some valid break records are dropped'
                           % conds[0].get('ln')), n.get('ln')
    return True, '', pushes[0][0].get('ln')


_break_always_stored.positive = True
row('C11', EVENTS, 'break:always-stored', _break_always_stored)


def _bg_assignments(arm):
    """(rhs, line, enclosing ifs with the branch taken) of `..background_file = rhs` in an arm"""
    out = []

    def visit(n, anc):
        if n.get('k') == 'assign':
            fc = H.field_chain(n['l'])
            if fc and fc[1] == ['background_file']:
                ifs = []
                for i, a in enumerate(anc):
                    if a.get('k') == 'if':
                        nxt = anc[i + 1] if i + 1 < len(anc) else n
                        ifs.append((a, 't' if a.get('t') is nxt else ('e' if a.get('e') is nxt else 'c')))
                out.append((n['r'], n.get('ln'), ifs))
    H.walk(arm, visit)
    return out


def _bg_precedence(variant):
    def chk(ctx, hfn):
        arms = _event_arm(hfn, variant)
        if len(arms) != 1:
            return False, 'expected one `EventType::%s` arm, found %d' % (variant, len(arms)), None
        asg = _bg_assignments(arms[0])
        if not asg:
            return False, 'the %s arm never sets the background file' % variant, None
        for rhs, ln, ifs in asg:
            if variant == 'Background':
                if ifs:
                    return False, 'a background event sets the background file only conditionally', ln
            elif variant == 'Sprite':
                want = M('is_empty', F(ANY(), 'background_file'))
                if not any(br == 't' and want.m(ctx, i['c']) for i, br in ifs):
                    return False, 'a sprite replaces the background file even when one is already set', ln
            elif variant == 'Video':
                def negated_membership(c, cx=None, depth=0):
                    """c can only be true when the VIDEO_EXTENSIONS membership test is false: `!contains(..)`,
                    possibly behind a let, a predicate helper, or in the arms of a match/if whose other arms are `false`"""
                    cx = cx or ctx
                    c = strip(c)
                    if depth > 6 or not isinstance(c, dict):
                        return False
                    k = c.get('k')
                    if k == 'unary' and c.get('op') == 'Not':
                        x = strip(c['e'])
                        cands = [x]
                        if isinstance(x, dict) and x.get('k') == 'local':
                            cands = unique_inits(cx, x['name'])
                        return any(CONTAINS(P('VIDEO_EXTENSIONS')).m(cx, y) for y in cands)
                    if k == 'local':
                        its = unique_inits(cx, c['name'])
                        return len(its) == 1 and negated_membership(its[0], cx, depth + 1)
                    if k == 'block' and 'expr' in c:
                        return negated_membership(c['expr'], cx, depth + 1)
                    if k in ('call', 'mcall'):
                        from hp import inline_call
                        ih = inline_call(cx, c)
                        return ih is not None and negated_membership(ih[0], ih[1], depth + 1)
                    if k == 'binary' and c.get('op') == 'And':
                        return negated_membership(c['a'], cx, depth + 1) or negated_membership(c['b'], cx, depth + 1)
                    branches = None
                    if k == 'match' and not c.get('src', '').startswith('TryDesugar'):
                        branches = [a['body'] for a in c['arms']]
                    elif k == 'if' and 'e' in c:
                        branches = [c['t'], c['e']]
                    if branches:
                        oks = 0
                        for br_ in branches:
                            if cx.const_value(br_) is False:
                                continue
                            if not negated_membership(br_, cx, depth + 1):
                                return False
                            oks += 1
                        return oks >= 1
                    return False
                if not any(br == 't' and negated_membership(i['c']) for i, br in ifs):
                    return False, ('a video event sets the background file without the file having a non-video '
                                   'extension (negated VIDEO_EXTENSIONS test)'), ln
        return True, '', asg[0][1]
    chk.positive = True
    return chk


def _video_extensions(ctx, hfn):
    keys = [k for k in ctx.facts.hir if k.endswith('::VIDEO_EXTENSIONS')]
    if len(keys) != 1:
        return False, 'constant VIDEO_EXTENSIONS not found', None
    got = set()

    def visit(n, anc):
        if n.get('k') == 'lit':
            if n.get('t') == 'bytes':
                got.add(bytes(n['v']).decode('latin1'))
            elif n.get('t') == 'str':
                got.add(n['v'].lstrip('.'))
    H.walk(ctx.facts.hir[keys[0]]['body'], visit)
    exp = {'mp4', 'mov', 'avi', 'flv', 'mpg', 'wmv', 'm4v'}
    ok = got == exp
    return ok, '' if ok else 'video extensions are %s, the format says %s' % (sorted(got), sorted(exp)), None


def _bg_table(variant):
    """which event lines set the background file, as a table over (event kind, a background is already set, the name has
    three bytes, those are a video extension) -- symbolic evaluation of the parser with its helpers inlined:
      Background -> always;  Sprite -> only while none is set;  Video -> only with a 3-byte non-video extension;
      every other kind -> never"""
    def chk(ctx, hfn):
        import symeval as SE
        import itertools
        EV = 'section::events::EventType::'
        KINDS_ = ('Background', 'Video', 'Break', 'Color', 'Sprite', 'Sample', 'Animation')
        last_why = ''
        for dpt in (0, 1, 2):
            vh = hfn if dpt == 0 else H.inlined_fn(ctx.facts, hfn, depth=dpt, keep=('clean_filename', 'parse', 'trim_comment'))
            c2 = Ctx(ctx.facts, H.binding_inits(vh), vh)

            def query(st, env, ev):
                if isinstance(st, dict) and st.get('k') == 'assign':
                    fc = H.field_chain(st['l'])
                    if fc and fc[1] and fc[1][-1] == 'background_file':
                        return ('v', {'k': 'bg-set', 'e': ev.subst(st['r'], env)})
                return None
            ev = SE.SymEval(query, budget=20000)
            body = vh['body']
            try:
                def _kret(vt, env=None):
                    # an early `return Ok(..)` is a successful exit without (further) effect, like falling off the end;
                    # `return Err(..)` / `?` reject the line and are not rows of the table
                    x = strip(vt[1]) if vt and vt[0] == 'v' else None
                    if isinstance(x, dict) and x.get('k') == 'call' and x['f'].get('k') == 'path' and x['f'].get('name') == 'Ok':
                        return ('v', {'k': 'end'})
                    return ('v', {'k': 'returned'})
                tree = ev.seq(list(body.get('stmts', [])), body.get('expr'), {}, lambda env, tail: ('v', {'k': 'end'}),
                              kret=_kret)
            except SE.Stop:
                last_why = 'parser too large to evaluate'
                continue

            def classify(c):
                if c[0] == 'pat':
                    pat = c[1]
                    names = set()

                    def pv(x):
                        if isinstance(x, dict):
                            if x.get('k') == 'path' and x.get('def', '').startswith(EV):
                                names.add(x['def'][len(EV):])
                            for v_ in x.values():
                                pv(v_)
                        elif isinstance(x, list):
                            for y in x:
                                pv(y)
                    pv(pat)
                    if names:
                        return ('kind', frozenset(names), True)
                    p0 = pat
                    while isinstance(p0, dict) and p0.get('k') == 'pref':
                        p0 = p0['p']
                    if p0.get('k') == 'pslice' and p0.get('rest') and len(p0.get('before', [])) + len(p0.get('after', [])) == 3:
                        return ('len3', None, True)
                    # `Some(start) = bytes.len().checked_sub(3)` / `name.len().checked_sub(3)`
                    if p0.get('k') == 'ptstruct' and p0['path'].get('name') == 'Some' and \
                            CONTAINS(M('checked_sub', M('len', ANY()), K(3))).m(c2, c[2]):
                        return ('len3', None, True)
                    return None
                e = strip(c[1])
                pol = True
                while isinstance(e, dict) and e.get('k') == 'unary' and e.get('op') == 'Not':
                    e = strip(e['e'])
                    pol = not pol
                if isinstance(e, dict) and e.get('k') == 'mcall' and e.get('name') == 'is_empty':
                    fc = H.field_chain(strip(e['recv']))
                    if fc and fc[1] and fc[1][-1] == 'background_file':
                        return ('empty', None, pol)
                if isinstance(e, dict) and e.get('k') == 'mcall' and e.get('name') in ('contains', 'any') and \
                        CONTAINS(P('VIDEO_EXTENSIONS')).m(c2, e['recv']):
                    return ('isvideo', None, pol)
                if isinstance(e, dict) and e.get('k') == 'binary' and e.get('op') in ('Ge', 'Gt', 'Lt', 'Le'):
                    a_, b_ = strip(e['a']), strip(e['b'])
                    if M('len', ANY()).m(c2, a_) and c2.const_value(b_) is not None:
                        n_ = c2.const_value(b_)
                        if (e['op'], n_) in (('Ge', 3), ('Gt', 2)):
                            return ('len3', None, pol)
                        if (e['op'], n_) in (('Lt', 3), ('Le', 2)):
                            return ('len3', None, not pol)
                return None

            def outcomes(t, val):
                if t[0] == 'v':
                    return {t[1].get('k') if isinstance(t[1], dict) else '?'}
                _, c, th, el = t
                cl = classify(c)
                if cl is None:
                    return outcomes(th, val) | outcomes(el, val)
                what, arg, pol = cl
                if what == 'kind':
                    truth = (val['kind'] in arg)
                else:
                    truth = val[what]
                return outcomes(th if truth == pol else el, val)
            bad = None
            for kind, empty, len3, isvideo in itertools.product(KINDS_, (True, False), (True, False), (True, False)):
                if kind != variant and not (variant == 'other' and kind not in ('Background', 'Sprite', 'Video')):
                    continue
                got = outcomes(tree, {'kind': kind, 'empty': empty, 'len3': len3, 'isvideo': isvideo}) - {'returned'}
                want_set = (kind == 'Background') or (kind == 'Sprite' and empty) or (kind == 'Video' and len3 and not isvideo)
                exp = {'bg-set'} if want_set else {'end'}
                if got and got != exp:
                    bad = ('a %s event %s the background file when (one is already set: %s, 3-byte extension: %s, video '
                           'extension: %s)' % (kind, 'does not set' if want_set else 'sets', not empty, len3, isvideo))
                    break
            if bad is None:
                return True, '', None
            last_why = bad
        return False, last_why, None
    return chk


for _v in ('Background', 'Sprite', 'Video', 'other'):
    row('C11', EVENTS, 'background-precedence:' + _v, _bg_table(_v))
_video_extensions.positive = True
row('C11', EVENTS, 'video-extension-list', _video_extensions)
EDITOR = '<section::editor::Editor as decode::DecodeBeatmap>::parse_editor'
SKIPPING = {'filter_map', 'flat_map', 'flatten', 'filter'}
STOPPING = {'map_while', 'take_while', 'scan', 'try_fold', 'try_for_each', 'skip_while', 'take', 'skip', 'step_by'}
REORDERING = {'sort', 'sort_unstable', 'sort_by', 'sort_by_key', 'sort_unstable_by', 'sort_unstable_by_key', 'dedup', 'dedup_by',
              'dedup_by_key', 'reverse', 'rev', 'retain', 'retain_mut', 'truncate', 'pop', 'remove', 'swap_remove', 'drain'}


def _desugared_loop_exit(n, anc):
    """the `break` the compiler generates for the end of a `for` / `while` loop"""
    if n.get('k') != 'break':
        return False
    for i in range(len(anc) - 1, -1, -1):
        a = anc[i]
        if a.get('k') == 'match':
            return a.get('src', '').startswith('ForLoop')
        if a.get('k') == 'if':
            # `while c { .. }` is `loop { if c { .. } else { break } }`
            par = [x for x in anc[:i] if x.get('k') == 'loop']
            nxt = anc[i + 1] if i + 1 < len(anc) else n
            return bool(par) and par[-1].get('src', '').startswith('While') and a.get('e') is nxt
        if a.get('k') in ('loop', 'closure'):
            return False
    return False


def _bookmarks_skip_invalid(ctx, hfn):
    """bookmark entries that do not parse are skipped and the remaining ones kept: nothing in the
    Bookmarks arm ends the list early (an adapter that stops or offsets the iteration, a `break`,
    `return` or `?`, collecting into a `Result`/`Option`)"""
    arms = []

    def visit(n, anc):
        if n.get('k') == 'match' and not n.get('src', '').startswith('TryDesugar'):
            for a in n['arms']:
                if 'EditorKey::Bookmarks' in repr(a['pat']):
                    arms.append(a['body'])
    H.walk(hfn['body'], visit)
    if len(arms) != 1:
        return False, 'expected one `EditorKey::Bookmarks` arm, found %d' % len(arms), None
    names, stops = set(), []

    def v2(n, anc2):
        if n.get('k') == 'mcall':
            names.add(n.get('name'))
            if n.get('name') == 'collect' and ('Result<' in n.get('ty', '') or 'Option<' in n.get('ty', '')):
                stops.append(('collect into Result/Option', n.get('ln')))
        if n.get('k') in ('break', 'ret') and not _desugared_loop_exit(n, anc2):
            stops.append((n['k'], n.get('ln')))
        if H.is_try(n):
            stops.append(('?', n.get('ln')))
    H.walk(arms[0], v2)
    for nm in sorted(names & STOPPING):
        stops.append(('`%s`' % nm, None))
    tys = repr(arms[0])
    norm = sorted(names & REORDERING) + [t for t in ('BTreeSet', 'HashSet', 'BTreeMap') if t in tys]
    if norm:
        return False, ('the bookmark list is normalised while decoding (%s): a list that is not sorted / has repeated values '
                       'does not come back as it was written') % ', '.join(norm), arms[0].get('ln')
    if stops:
        return False, ('the bookmark list is cut at the first invalid entry (%s): later valid bookmarks are lost'
                       % ', '.join(sorted({x[0] for x in stops}))), stops[0][1]
    return True, '', arms[0].get('ln')


_bookmarks_skip_invalid.positive = True
row('C11', EDITOR, 'bookmarks:invalid-entries-skipped', _bookmarks_skip_invalid)


def _bookmarks_full_i32(ctx, hfn):
    """a bookmark entry is any `i32` as `Display` writes it (the encoder prints the whole range, the
    pieces are not trimmed): the Bookmarks arm does not convert its pieces with the crate's
    limit-checking `ParseNumber` funnel, which refuses `i32::MIN` and trims the piece first
    (`NF_EXCEPTIONS[('editor', 'i32')]` records the same fact from the other side)"""
    arms = []

    def visit(n, anc):
        if n.get('k') == 'match' and not n.get('src', '').startswith('TryDesugar'):
            for a in n['arms']:
                if 'EditorKey::Bookmarks' in repr(a['pat']):
                    arms.append(a['body'])
    H.walk(hfn['body'], visit)
    if len(arms) != 1:
        return False, 'expected one `EditorKey::Bookmarks` arm, found %d' % len(arms), None
    funnel = []

    def v2(n, anc2):
        d = n.get('def') or ''
        if n.get('k') in ('mcall', 'call', 'path') and (
                'parse_number::ParseNumber' in d or d.endswith('::parse_num') or d.endswith('::parse_with_limits')):
            funnel.append((d, n.get('ln')))
        f = n.get('f') if n.get('k') == 'call' else None
        if isinstance(f, dict):
            v2(f, anc2)
    H.walk(arms[0], v2)
    if funnel:
        return False, ('bookmark entries are converted with the limit-checking number parser (%s): `i32::MIN`, which the encoder '
                       'writes, does not come back, and padded pieces are accepted instead of skipped'
                       % ', '.join(sorted({x[0] for x in funnel}))), funnel[0][1]
    return True, '', arms[0].get('ln')


_bookmarks_full_i32.positive = True       # arm-specific like its sibling above: retried on the callee that holds the arm
row('C11', EDITOR, 'bookmarks:entries-are-plain-i32', _bookmarks_full_i32)
def _mode_literals(ctx, hfn):
    """`Mode` accepts exactly the texts "0".."3"; anything else (other numbers, "03", "+2") is an error
    and leaves the field untouched"""
    from kt import _pat_lits
    got = {}
    parses = find(ctx, hfn['body'], OR(M('parse', ANY()), C('ParseNumber>::parse', ANY()), M('parse_num', ANY())))

    def visit(n, anc):
        if n.get('k') == 'match' and not n.get('src', '').startswith('TryDesugar'):
            for a in n['arms']:
                lits = []
                _pat_lits(a['pat'], lits)
                names = []

                def v2(x, anc2):
                    if x.get('k') == 'path' and x.get('def', '').startswith('section::general::GameMode::'):
                        names.append(x['name'])
                H.walk(a['body'], v2)
                for l in lits:
                    got[l] = names[-1] if names else None
    H.walk(hfn['body'], visit)
    exp = {'0': 'Osu', '1': 'Taiko', '2': 'Catch', '3': 'Mania'}
    ok = got == exp and not parses
    return ok, '' if ok else ('game mode text is converted by %s; the format accepts exactly "0", "1", "2", "3"'
                              % ('a numeric parse' if parses else got)), None


row('C11', '<section::general::GameMode as std::str::FromStr>::from_str', 'mode:exact-literals', _mode_literals)
CKEY = '<section::colors::decode::ColorsKey as std::str::FromStr>::from_str'
row('C11', CKEY, 'combo-key:prefix-only',
    _contains(IF(M('starts_with', L('s'), K('Combo')), CONTAINS(P('ColorsKey::Combo'))),
              'every key starting with `Combo` is a combo colour (the index is ignored)'))
row('C11', CKEY, 'combo-key:no-index-parse',
    _not_contains(OR(M('parse', ANY()), M('parse_num', ANY()), M('strip_prefix', ANY(), ANY())),
                  'the text after `Combo` decides whether the line is a combo colour: `Combo`, `ComboX`, `Combo 2` must still be one'))
row('C11', None, 'const:MAX_PARSE_VALUE', _const('util::parse_number::MAX_PARSE_VALUE', 2147483647))
for t in ('i32', 'f32', 'f64'):
    row('C11', '<%s as util::parse_number::ParseNumber>::parse' % t, 'limit:' + t,
        _ret(C('parse_with_limits', ANY(), K(2147483647))))
    row('C11', '<%s as util::parse_number::ParseNumber>::parse_with_limits' % t, 'underflow:' + t,
        _contains(BIN('Lt', L('n'), UN('Neg', L('limit'))), 'lower limit test `n < -limit`'))
    row('C11', '<%s as util::parse_number::ParseNumber>::parse_with_limits' % t, 'overflow:' + t,
        _contains(BIN('Gt', L('n'), L('limit')), 'upper limit test `n > limit`'))
for t in ('f32', 'f64'):
    row('C11', '<%s as util::parse_number::ParseNumber>::parse_with_limits' % t, 'nan:' + t,
        _contains(M('is_nan', L('n')), 'NaN rejection'))
def _alpha_255(ctx, hfn):
    """a parsed colour is opaque: `Color::new(r, g, b, 255)`, or the array form -- `Color([_, _, _, 255])` where the
    array is written afterwards only below index 3 (`iter_mut()..take(3)`, `a[0..=2] = ..`)"""
    if find(ctx, hfn['body'], C('Color::new', ANY(), ANY(), ANY(), K(255))):
        return True, '', None
    ctors = []

    def v(n, anc):
        if n.get('k') == 'call' and n['f'].get('k') == 'path' and len(n.get('args', [])) == 1 and \
                (n.get('ty') or '').endswith('colors::Color') and (n['f'].get('dk') in ('SelfCtor',) or 'Ctor' in (n['f'].get('dk') or '')):
            ctors.append(n)
    H.walk(hfn['body'], v)
    if len(ctors) != 1:
        return False, 'colour built as R,G,B with alpha 255 not found', None
    arg = strip(ctors[0]['args'][0])
    name = None
    arr = arg
    if isinstance(arg, dict) and arg.get('k') == 'local':
        name = arg['name']
        its = ctx.inits.get(name, [])
        if len(its) != 1:
            return False, 'the colour components have %d initialisers' % len(its), ctors[0].get('ln')
        arr = strip(its[0])
    is_rep = isinstance(arr, dict) and arr.get('k') == 'repeat' and K(255).m(ctx, arr.get('e')) and \
        (arg.get('ty') or '') == '[u8; 4]'                      # `[255; 4]`
    if not is_rep and not (isinstance(arr, dict) and arr.get('k') == 'array' and len(arr.get('es', [])) == 4 and K(255).m(ctx, arr['es'][3])):
        return False, 'the fourth colour component is not the constant 255', ctors[0].get('ln')
    if name is None:
        return True, '', ctors[0].get('ln')
    bad = []

    def uses(n, anc):
        if n.get('k') == 'local' and n.get('name') == name and n is not arg:
            par = anc[-1] if anc else {}
            # a[i] = .. with a literal index below 3
            if par.get('k') == 'index' and strip(par.get('i', {})).get('k') == 'lit' and int(strip(par['i'])['v']) < 3:
                return
            # channels.iter_mut() .. .take(3): only the first three are handed out mutably
            if par.get('k') == 'mcall' and par.get('name') == 'iter_mut':
                if any(a.get('k') == 'mcall' and a.get('name') == 'take' and a.get('args') and K(3).m(ctx, a['args'][0]) for a in anc):
                    return
                # zipped with exactly three things: `channels.iter_mut().zip(rgb)` with `rgb: [&str; 3]`
                if any(a.get('k') == 'mcall' and a.get('name') == 'zip' and a.get('args') and
                       (strip(a['args'][0]).get('ty') or '').endswith('; 3]') for a in anc):
                    return
            if par.get('k') == 'mcall' and par.get('name') in ('iter', 'len', 'as_slice') and strip(par.get('recv')) is n:
                return
            bad.append(n)
    H.walk(hfn['body'], uses)
    ok = not bad
    return ok, '' if ok else 'the alpha component (index 3, initialised to 255) may be overwritten', bad[0].get('ln') if bad else None


_alpha_255.positive = True
row('C11', '<section::colors::Color as std::str::FromStr>::from_str', 'alpha=255', _alpha_255)

# ------------------------------------------------------------------------------ C05
SKIP = 'decode::DecodeBeatmap::should_skip_line'
_TRIMMED = OR(M('trim_start', L('line')), M('trim', L('line')))
row('C05', SKIP, 'skip:blank-or-comment',
    _ret(BIN('Or', M('is_empty', OR(L('line'), _TRIMMED)), M('starts_with', _TRIMMED, K('//')), commutative=True)))


# version line: "take the format version from the first non-blank line if it carries the version prefix
# (otherwise assume the latest version and let that line itself open a section)"
TVL = 'format_version::try_version_from_line'
row('C05', None, 'const:LATEST_FORMAT_VERSION', _const('format_version::LATEST_FORMAT_VERSION', 14))


def _version_prefix(ctx, hfn):
    h = ctx.facts.hir.get('format_version::VERSION_PREFIX')
    if h is None:
        return False, 'constant VERSION_PREFIX not found', None
    v = ctx.const_value(h['body'])
    ok = v == 'osu file format v'
    return ok, '' if ok else 'the version prefix is %r, the format says "osu file format v"' % (v,), None


row('C05', TVL, 'version-prefix', _version_prefix)
def decision_paths(e, conds=()):
    """flatten an if/else (+ early return) structure into [(conditions with polarity, leaf expr)]"""
    e = strip(e) if isinstance(e, dict) and e.get('k') != 'block' else e
    if not isinstance(e, dict):
        return []
    k = e.get('k')
    if k == 'block':
        cur = list(conds)
        res = []
        for st in e.get('stmts', []):
            x = st
            if isinstance(x, dict) and x.get('k') == 'if':
                sub_t = decision_paths(x['t'], tuple(cur) + ((x['c'], True),))
                returns = _always_returns(x['t'])
                if 'e' in x:
                    sub_e = decision_paths(x['e'], tuple(cur) + ((x['c'], False),))
                    res += [p for p in sub_t if p[2]] + [p for p in sub_e if p[2]]
                    if returns and _always_returns(x['e']):
                        return res
                else:
                    res += [p for p in sub_t if p[2]]
                    if returns:
                        cur.append((x['c'], False))
            elif isinstance(x, dict) and x.get('k') == 'ret':
                res += decision_paths(x, tuple(cur))
                return res
        if 'expr' in e:
            res += decision_paths(e['expr'], tuple(cur))
        return res
    if k == 'if':
        res = decision_paths(e['t'], tuple(conds) + ((e['c'], True),))
        if 'e' in e:
            res += decision_paths(e['e'], tuple(conds) + ((e['c'], False),))
        return res
    if k == 'ret':
        inner = e.get('e')
        if isinstance(inner, dict) and strip(inner).get('k') == 'if':
            return [(c, x, True) for c, x, _r in decision_paths(inner, conds)]
        return [(tuple(conds), inner, True)]
    return [(tuple(conds), e, True)]


def _always_returns(e):
    e2 = e
    if isinstance(e2, dict) and e2.get('k') == 'block':
        for st in e2.get('stmts', []):
            if isinstance(st, dict) and st.get('k') == 'ret':
                return True
        tail = e2.get('expr')
        return isinstance(tail, dict) and (tail.get('k') == 'ret' or _always_returns(tail))
    return isinstance(e2, dict) and e2.get('k') == 'ret'


def _version_line_table(ctx, hfn):
    """try_version_from_line as a decision table over (has the prefix, is empty) -- symbolic evaluation, so early
    returns, one `if` chain and a `match` on the pair of tests are the same table"""
    import symeval as SE
    import itertools
    prefix = M('starts_with', L('line'), OR(P('VERSION_PREFIX'), K('osu file format v')))
    empty = M('is_empty', L('line'))
    ev = SE.SymEval(None, budget=6000)
    body = hfn['body']
    try:
        tree = ev.seq(list(body.get('stmts', [])), body.get('expr'), {},
                      lambda env, tail: ev.value(tail, env) if tail is not None else ('v', {'k': 'unit'}),
                      kret=lambda vt, env=None: vt)
    except SE.Stop:
        return False, 'function too large to evaluate symbolically', None

    def decide(val):
        def d(c):
            if c[0] != 'e':
                return None
            c2, pol = strip(c[1]), True
            while isinstance(c2, dict) and c2.get('k') == 'unary' and c2.get('op') == 'Not':
                c2, pol = strip(c2['e']), not pol
            ctx.env = {}
            if prefix.m(ctx, c2):
                return val['prefix'] == pol
            if empty.m(ctx, c2):
                return val['empty'] == pol
            return None
        return d
    got = {}
    for pf, em in itertools.product((True, False), repeat=2):
        # below the first undecidable test (the number parse) everything is "the version"
        t = tree
        dfn = decide({'prefix': pf, 'empty': em})
        while t[0] == 'ite':
            r = dfn(t[1])
            if r is None:
                break
            t = t[2] if r else t[3]
        leafs = [l for _p, l in SE.leaves(t)]
        kinds = set()
        for leaf in leafs:
            if CONTAINS(P('ControlFlow::Continue')).m(ctx, leaf):
                kinds.add('skip')
            elif CONTAINS(P('UnknownFileFormat')).m(ctx, leaf):
                kinds.add('unknown-format')
            else:
                kinds.add('version')
        got[(pf, em)] = kinds
    exp = {(True, True): {'version'}, (True, False): {'version'}, (False, True): {'skip'}, (False, False): {'unknown-format'}}
    ok = got == exp
    show = {('prefix' if k[0] else 'no prefix') + (', blank' if k[1] else ', not blank'): sorted(v) for k, v in got.items()}
    return ok, '' if ok else ('version-line decisions are %s; expected: prefix -> version, no prefix and blank -> skip the '
                              'line, no prefix and not blank -> unknown format' % show), None


_version_line_table.positive = True
row('C05', TVL, 'version-line-decisions', _version_line_table)
def _number_after_last_v(ctx, hfn):
    """the version number is the text after the last `v`: the first item of a reverse split, or the second half of
    `rsplit_once('v')`"""
    LINE = L('line')
    if find(ctx, hfn['body'], OR(M('next', M('rsplit', LINE, K('v'))), M('next', M('rsplitn', LINE, K(2), K('v'))))):
        return True, '', None
    if find(ctx, hfn['body'], M('rsplit_once', LINE, K('v'))):
        # the half that is kept must be the one after the separator
        second = []

        def v(n, anc):
            if n.get('k') == 'ptuple' and len(n.get('pats', [])) == 2:
                a, b = n['pats']
                if a.get('k') == 'wild' and b.get('k') == 'bind':
                    second.append(n)
            if n.get('k') == 'field' and str(n.get('n')) == '1':
                second.append(n)
        def deep(x):
            if isinstance(x, dict):
                v(x, [])
                for y in x.values():
                    deep(y)
            elif isinstance(x, list):
                for y in x:
                    deep(y)
        deep(hfn['body'])
        if second:
            return True, '', second[0].get('ln')
        return False, 'the text before the last `v` is taken as the version number', None
    return False, 'the version number is what follows the last `v` not found (reverse split on `v`, first item)', None


_number_after_last_v.positive = True
row('C05', TVL, 'number-after-last-v', _number_after_last_v)
def _dv_row(ctx, hfn):
    return _default_version(ctx, hfn)


def _flr_row(ctx, hfn):
    return _failed_line_reexamined(ctx, hfn)


_dv_row.positive = True
_flr_row.positive = True
row('C05', 'decode::DecodeBeatmap::decode', 'default-version', _dv_row)
row('C05', 'decode::parse_first_section', 'failed-version-line-may-open-a-section', _flr_row)


def _version_loop_skips_only_blank(ctx, hfn):
    """parse_version reads another line only after try_version_from_line said "blank, keep looking" (its Continue
    outcome): a first non-blank line that is not a version line ends the search (the version is then the latest)"""
    import symeval as SE
    loops = []
    H.walk(hfn['body'], lambda n, a: loops.append(n) if n.get('k') == 'loop' else None)
    if len(loops) != 1:
        return False, 'expected one line loop in parse_version, found %d' % len(loops), None
    body = loops[0]['body']
    ev = SE.SymEval(None, budget=6000)
    try:
        tree = ev.seq(list(body.get('stmts', [])), body.get('expr'), {}, lambda env, tail: ('v', {'k': 'again'})
                      if tail is None else ev.stmt(tail, env, lambda e2: ('v', {'k': 'again'}), lambda vt, e2=None: ('v', {'k': 'returned'})),
                      kret=lambda vt, env=None: ('v', {'k': 'returned'}))
    except SE.Stop:
        return False, 'loop too large to evaluate', None
    n_again = 0
    for path, leaf in SE.leaves(tree):
        kind = leaf.get('k') if isinstance(leaf, dict) else None
        if kind not in ('again', 'continue'):
            continue
        n_again += 1
        ok = False
        for c, pol in path:
            if c[0] == 'pat' and pol and 'try_version_from_line' in repr(c[2])[:3000]:
                nm = set()

                def pv(x):
                    if isinstance(x, dict):
                        if x.get('k') == 'path' and x.get('name'):
                            nm.add(x['name'])
                        for v_ in x.values():
                            pv(v_)
                    elif isinstance(x, list):
                        for y in x:
                            pv(y)
                pv(c[1])
                if 'Continue' in nm and 'Break' not in nm:
                    ok = True
        if not ok:
            return False, ('another line is read although the previous one was not blank (the loop goes on outside the '
                           '"keep looking" outcome of try_version_from_line): a junk first line no longer ends the version search'), None
    if n_again == 0:
        return False, 'blank lines before the version line are not skipped', None
    return True, '', None


def _version_loop_any_depth(ctx, hfn):
    res = None
    for dpt in (0, 1, 2):
        vh = hfn if dpt == 0 else H.inlined_fn(ctx.facts, hfn, depth=dpt, keep=('try_version_from_line', 'read_line', 'log_error_cause'))
        c2 = Ctx(ctx.facts, H.binding_inits(vh), vh) if dpt else ctx
        r = _version_loop_skips_only_blank(c2, vh)
        if r[0]:
            return r
        res = res or r
    return res


row('C05', 'decode::parse_version', 'version-search-stops-at-first-non-blank-line', _version_loop_any_depth)


def _version_protocol(facts, hfn=None):
    """{'found': V1, 'failed': V2, 'end': V3}: the variants of a crate-local enum that parse_version returns for a parsed
    version (carrying it), a failed version line and the end of input; None when it does not return such an enum"""
    hfn = hfn or facts.hir.get('decode::parse_version')
    if hfn is None:
        return None
    got = {}

    def sig(p):
        if not isinstance(p, dict):
            return '?'
        k = p.get('k')
        if k in ('ptstruct', 'pstruct'):
            return p['path'].get('name', '?') + '(' + ','.join(sig(x) for x in p.get('pats', [])) + ')'
        if k == 'pexpr':
            return p['e'].get('name', '?')
        return '_' if k == 'bind' else (k or '?')

    def variant_of(e):
        e = strip(e)
        if isinstance(e, dict) and e.get('k') == 'call' and e['f'].get('k') == 'path' and e['f'].get('name') == 'Ok' and len(e['args']) == 1:
            e = strip(e['args'][0])
        if isinstance(e, dict) and e.get('k') == 'call' and e['f'].get('k') == 'path' and 'Ctor(Variant' in (e['f'].get('dk') or ''):
            d = e['f'].get('def', '')
            if not d.startswith(('std::', 'core::')):
                return d, len(e['args'])
        if isinstance(e, dict) and e.get('k') == 'path' and 'Ctor(Variant' in (e.get('dk') or ''):
            d = e.get('def', '')
            if not d.startswith(('std::', 'core::')):
                return d, 0
        return None

    def visit(n, anc):
        val = None
        if n.get('k') == 'ret' and 'e' in n:
            val = variant_of(n['e'])
        if val is None:
            return
        outcome = 'end'
        for i, a in enumerate(anc):
            if a.get('k') == 'match' and not a.get('src', '').startswith('TryDesugar'):
                for arm in a['arms']:
                    inside = any(x is arm['body'] for x in anc[i + 1:]) or arm['body'] is n
                    sg = sig(arm['pat'])
                    if inside and sg.startswith('Break(Ok'):
                        outcome = 'found'
                    elif inside and sg.startswith('Break(Err'):
                        outcome = 'failed'
        got.setdefault(outcome, set()).add(val)
    H.walk(hfn['body'], visit)
    tail = hfn['body'].get('expr') if hfn['body'].get('k') == 'block' else None
    tv = variant_of(tail) if tail is not None else None
    if tv is not None:
        got.setdefault('end', set()).add(tv)
    if set(got) != {'found', 'failed', 'end'} or any(len(v) != 1 for v in got.values()):
        return None
    f_, fl, en = (next(iter(got[k])) for k in ('found', 'failed', 'end'))
    if len({f_[0], fl[0], en[0]}) != 3 or f_[1] != 1 or fl[1] != 0 or en[1] != 0:
        return None
    if len({x[0].rsplit('::', 1)[0] for x in (f_, fl, en)}) != 1:
        return None
    return {'found': f_[0].rsplit('::', 1)[1], 'failed': fl[0].rsplit('::', 1)[1], 'end': en[0].rsplit('::', 1)[1]}


def _pat_variant_names(p, out):
    if isinstance(p, dict):
        if p.get('k') == 'path' and p.get('name'):
            out.add(p['name'])
        for v in p.values():
            _pat_variant_names(v, out)
    elif isinstance(p, list):
        for x in p:
            _pat_variant_names(x, out)


def _default_version(ctx, hfn):
    """a missing or unreadable version means the latest version: `version.unwrap_or(14)` -- or, with the outcome enum,
    the value handed to `State::create` is the carried version for the found variant and 14 for the other two"""
    if find(ctx, hfn['body'], M('unwrap_or', ANY(), K(14))):
        return True, '', None
    proto = _version_protocol(ctx.facts)
    if proto is None:
        return False, 'a missing/unreadable version means the latest version not found (expected `unwrap_or(14)`)', None
    import symeval as SE
    for dpt in (1, 2):
        vh = H.inlined_fn(ctx.facts, hfn, depth=dpt, keep=('parse_version',))
        c2 = Ctx(ctx.facts, H.binding_inits(vh), vh)
        calls = find(c2, vh['body'], C('create', ANY()))
        for n, _a in calls:
            arg = strip(n)['args'][0]
            try:
                t = SE.SymEval(None, budget=3000).value(arg, {})
            except SE.Stop:
                continue
            okall = True
            for role, var in proto.items():
                def dec(c, var=var):
                    if c[0] != 'pat':
                        return None
                    names = set()
                    _pat_variant_names(c[1], names)
                    return var in names if names & set(proto.values()) else None
                leaf = SE.evaluate(t, dec)
                if leaf is None:
                    okall = False
                    break
                c2.env = {}
                if role == 'found':
                    if c2.const_value(leaf) is not None:
                        okall = False
                elif not K(14).m(c2, leaf):
                    okall = False
            if okall:
                return True, '', strip(n).get('ln')
    return False, 'the version handed to the state is not (the parsed version | 14 when there is none)', None


def _failed_line_reexamined(ctx, hfn):
    """the line that failed as a version line is itself tested as a section header -- and only that line"""
    if find(ctx, hfn['body'], IF(ANY(), CONTAINS(C('try_from_line', M('curr_line', ANY()))))):
        return True, '', None
    proto = _version_protocol(ctx.facts)
    hits = find(ctx, hfn['body'], C('try_from_line', M('curr_line', ANY())))
    if proto is None or not hits:
        return False, 'the failed version line itself is tested as a section header not found', None
    # the re-examination sits in an arm for exactly the failed variant
    node = strip(hits[0][0])
    for a in hits[0][1]:
        if isinstance(a, dict) and a.get('k') == 'match' and not a.get('src', '').startswith('TryDesugar'):
            for arm in a['arms']:
                inside = []
                H.walk(arm['body'], lambda x, anc: inside.append(x) if x is node else None)
                if inside or strip(arm['body']) is node:
                    names = set()
                    _pat_variant_names(arm['pat'], names)
                    ok = names & set(proto.values()) == {proto['failed']}
                    return ok, '' if ok else ('the current line is re-examined for %s, not exactly for the failed version line'
                                              % sorted(names & set(proto.values()))), node.get('ln')
    return False, 'the re-examination of the current line is not tied to the failed-version-line outcome', node.get('ln')


_default_version.positive = True
_failed_line_reexamined.positive = True


def _version_table(ctx, hfn):
    """what parse_version yields per outcome of try_version_from_line: (version, use-current-line)"""
    got = {}

    def sig(p):
        if not isinstance(p, dict):
            return '?'
        k = p.get('k')
        if k in ('ptstruct', 'pstruct'):
            return p['path'].get('name', '?') + '(' + ','.join(sig(x) for x in p.get('pats', [])) + ')'
        if k == 'pexpr':
            return p['e'].get('name', '?')
        if k == 'bind':
            return '_'
        if k == 'ptuple':
            return '()'
        return k or '?'

    def flag_of(e):
        v = ctx.const_value(e)
        if isinstance(v, bool):
            return v
        e2 = strip(e)
        if isinstance(e2, dict) and e2.get('k') == 'call' and len(e2['args']) == 1:
            v = ctx.const_value(e2['args'][0])
            if isinstance(v, bool):
                return v
        return None

    def visit(n, anc):
        if n.get('k') == 'tup' and len(n['es']) == 2:
            pair = n['es']
        elif n.get('k') == 'struct' and len(n.get('fields', [])) == 2:
            # a private struct bundling (version, flag)
            pair = [f['e'] for f in n['fields']]
            if flag_of(pair[0]) is not None and flag_of(pair[1]) is None:
                pair = [pair[1], pair[0]]
        else:
            return
        flag = flag_of(pair[1])
        if flag is None:
            return
        ver = strip(pair[0])
        vk = 'None' if ver.get('k') == 'path' and ver.get('name') == 'None' else (
            'Some' if ver.get('k') == 'call' and ver['f'].get('name') == 'Some' else '?')
        outcome = 'end-of-input'
        for i, a in enumerate(anc):
            if a.get('k') == 'match' and not a.get('src', '').startswith('TryDesugar'):
                for arm in a['arms']:
                    inside = any(x is arm['body'] for x in anc[i + 1:]) or arm['body'] is n
                    sg = sig(arm['pat'])
                    if inside and sg.startswith('Break('):
                        outcome = sg
        got.setdefault(outcome, set()).add((vk, flag))
    H.walk(hfn['body'], visit)
    exp = {'Break(Ok(_))': {('Some', False)}, 'Break(Err(_))': {('None', True)}, 'end-of-input': {('None', False)}}
    ok = got == exp
    if not ok and not got:
        # the three outcomes as the variants of a private enum instead of (Option, flag): Found(version) / failed line /
        # end of input must be three different variants, the first carrying the version; what the consumers make of
        # them is decided by the rows `default-version` and `failed-version-line-may-open-a-section`
        proto = _version_protocol(ctx.facts, hfn)
        if proto is not None:
            return True, '', None
    return ok, '' if ok else ('version outcomes are %s; expected: parsed version -> (Some, continue with the next line), '
                              'failed version line -> (None, re-examine this line), end of input -> (None, -)' % got), None


_version_table.positive = True
row('C05', 'decode::parse_version', 'version-outcomes', _version_table)
row('C05', 'decode::parse_version', 'blank-lines-before-version',
    _contains(C('try_version_from_line', L('line')), 'every line up to the version decision goes through try_version_from_line'))

# ------------------------------------------------------------------------------ C12
TPN = 'section::timing_points::control_points::'
row('C12', TPN + 'timing::TimingPoint::new', 'clamp:beat_len',
    _struct_init(TPN + 'timing::TimingPoint', 'beat_len', CLAMP(L('beat_len'), K(6.0), K(60000.0))))
row('C12', TPN + 'difficulty::DifficultyPoint::new', 'clamp:slider_velocity',
    _struct_init(TPN + 'difficulty::DifficultyPoint', 'slider_velocity', CLAMP(L('speed_multiplier'), K(0.1), K(10.0))))
row('C12', TPN + 'difficulty::DifficultyPoint::new', 'generate_ticks=!nan',
    _struct_init(TPN + 'difficulty::DifficultyPoint', 'generate_ticks', UN('Not', M('is_nan', L('beat_len')))))
row('C12', TPN + 'sample::SamplePoint::new', 'clamp:sample_volume',
    _struct_init(TPN + 'sample::SamplePoint', 'sample_volume', CLAMP(L('sample_volume'), K(0), K(100))))
row('C12', TPN + 'effect::EffectPoint::new', 'scroll_speed-default',
    _struct_init(TPN + 'effect::EffectPoint', 'scroll_speed', K(1.0)))
row('C12', TIMING, 'clamp:scroll_speed',
    _all_assign(['scroll_speed'], CLAMP(L('speed_multiplier'), K(0.01), K(10.0)), base='effect'))
row('C12', TIMING, 'speed_multiplier',
    _let('speed_multiplier', IF(BIN('Lt', L('beat_len'), K(0.0)), BIN('Div', K(100.0), UN('Neg', L('beat_len'))), K(1.0))))
def _bank_default_only_when_absent(ctx, hfn):
    """the sample bank of a timing line: the `[General]` default stands in only for a column that is missing or not a bank
    number, and bank 0 (none) then becomes Normal -- a chain `split.next().map(parse).transpose()?.map(try_from)
    .and_then(Result::ok).unwrap_or(default)`; any further narrowing of that Option (`filter`, ..) makes an explicitly
    written bank fall back to the default as well"""
    its = ctx.inits.get('sample_set', [])
    if len(its) != 1:
        return True, 'not determined: `sample_set` is not bound once', None
    e = strip(its[0])
    names = []
    cur = e
    while isinstance(cur, dict) and cur.get('k') == 'mcall':
        names.append(cur['name'])
        cur = strip(cur['recv'], keep_try=False) if True else cur
    if not names or names[0] not in ('unwrap_or', 'unwrap_or_else', 'map_or', 'unwrap_or_default'):
        return True, 'not determined: the bank is not an Option chain with a default', e.get('ln') if isinstance(e, dict) else None
    ALLOWED = {'unwrap_or', 'unwrap_or_else', 'map_or', 'next', 'map', 'transpose', 'and_then', 'ok', 'copied', 'trim'}
    extra = [n_ for n_ in names if n_ not in ALLOWED]
    ok = not extra
    return ok, '' if ok else ('the bank column is narrowed by `%s` before the default applies: an explicitly written bank can fall back to '
                              'the [General] default' % ', '.join(extra)), e.get('ln')


row('C12', TIMING, 'sample-bank:default-only-when-absent', _bank_default_only_when_absent)
row('C12', TIMING, 'sample-bank:none-means-normal',
    _contains(IF(BIN('Eq', L('sample_set'), P('SampleBank::None'), commutative=True), CONTAINS(P('SampleBank::Normal'))),
              'bank 0 (none) of a timing line means the normal bank'))
row('C12', TIMING, 'group:same-time-tolerance',
    _contains(OR(BIN('Ge', M('abs', BIN('Sub', ANY(), ANY())), K(2.220446049250313e-16)),
                 BIN('Lt', M('abs', BIN('Sub', ANY(), ANY())), K(2.220446049250313e-16))),
              'lines belong to one group when their times differ by less than the constant f64::EPSILON'))
row('C04', TIMING, 'group:same-time-tolerance',
    _contains(OR(BIN('Ge', M('abs', BIN('Sub', ANY(), ANY())), K(2.220446049250313e-16)),
                 BIN('Lt', M('abs', BIN('Sub', ANY(), ANY())), K(2.220446049250313e-16))),
              'lines belong to one group when their times differ by less than the constant f64::EPSILON (two lines the encoder '
              'writes one after the other must not be merged on read-back)'))
row('C12', TIMING, 'timing_change-default',
    _let('timing_change', OPT_OR(ANY(), K(True))))
for ty in ('timing::TimingPoint', 'difficulty::DifficultyPoint', 'sample::SamplePoint', 'effect::EffectPoint'):
    def no_literal(ctx, hfn, ty=ty):
        hits = []

        def visit(n, anc):
            if n.get('k') == 'struct' and n.get('adt') == TPN + ty:
                hits.append(n)
        H.walk(hfn['body'], visit)
        return (not hits, '' if not hits else 'the timing parser builds a `%s` with a struct literal, bypassing the '
                'clamping constructor' % ty.split('::')[-1], hits[0].get('ln') if hits else None)
    row('C12', TIMING, 'ctor-only:' + ty.split('::')[-1], no_literal)

# ------------------------------------------------------------------------------ C14
HOT = 'section::hit_objects::HitObjectType::'
for nm, v in (('CIRCLE', 1), ('SLIDER', 2), ('NEW_COMBO', 4), ('SPINNER', 8), ('COMBO_OFFSET', 0x70), ('HOLD', 128)):
    row('C14', None, 'const:' + nm, _const(HOT + nm, v))
row('C14', None, 'const:MAX_COORDINATE_VALUE', _const('section::hit_objects::decode::MAX_COORDINATE_VALUE', 131072))
row('C14', HITOBJ, 'combo_offset-shift',
    _let('combo_offset', BIN('Shr', BIN('BitAnd', L('hit_object_type'), K(0x70)), K(4)), every=False))
COORD = CAST(CAST(TRY(M('parse_with_limits', ANY(), K(131072))), 'i32'), 'f32')
row('C14', HITOBJ, 'pos.x', _struct_init('util::pos::Pos', 'x', COORD))
row('C14', HITOBJ, 'pos.y', _struct_init('util::pos::Pos', 'y', COORD))
row('C14', 'section::hit_objects::decode::HitObjectsState::convert_points::read_point', 'path-point-limits',
    _contains(M('parse_with_limits', ANY(), K(131072)), 'path coordinates parsed with the 131072 limit'))
row('C14', 'section::hit_objects::decode::HitObjectsState::convert_points::read_point', 'path-point-truncation',
    _contains(C('Pos::new', CAST(CAST(TRY(ANY()), 'i32'), 'f32'), CAST(CAST(TRY(ANY()), 'i32'), 'f32')),
              'each parsed path coordinate itself is truncated to an integer (before it is made relative)'))
row('C14', 'section::hit_objects::decode::HitObjectsState::convert_points::read_point', 'path-point-relative-after-truncation',
    _contains(C('PathControlPoint::new', BIN('Sub', ANY(), L('start_pos'))),
              'the truncated position is made relative to the slider position'))
row('C14', HITOBJ, 'length>=0',
    _let('new_len', M('max', TRY(M('parse_with_limits', ANY(), K(131072))), K(0.0))))
row('C14', HITOBJ, 'length-epsilon',
    _contains(BIN('Ge', M('abs', L('new_len')), K(2.220446049250313e-16)), 'zero length means natural length'))
_RAW_REPEATS = OR(L('repeat_count'), TRY(M('parse_num', ANY())))        # the parsed count, whatever the local is called
row('C14', HITOBJ, 'repeat-cap',
    _contains(IF(BIN('Gt', _RAW_REPEATS, K(9000)), ANY()), 'repeat counts above 9000 are rejected'))
row('C14', HITOBJ, 'repeat_count-1',
    _contains(OR(C('cmp::max', K(0), BIN('Sub', _RAW_REPEATS, K(1))), M('max', BIN('Sub', _RAW_REPEATS, K(1)), K(0))),
              'repeat_count = max(0, n - 1)'))
row('C14', HITOBJ, 'nodes=repeats+2', _let('nodes', BIN('Add', CAST(L('repeat_count'), 'usize'), K(2))))
def _filled(elem):
    # `vec![elem; nodes]` or the iterator spellings of the same vector
    return OR(C('from_elem', elem, L('nodes')),
              M('collect', M('take', C('repeat', elem), L('nodes'))),
              M('collect', C('repeat_n', elem, L('nodes'))),
              # parsed entries first, then the default up to the node count
              M('collect', M('take', M('chain', ANY(), C('repeat', elem)), L('nodes'))),
              M('take', M('chain', ANY(), C('repeat', elem)), L('nodes')))


row('C14', HITOBJ, 'node-default:sound-type', _let('node_sound_types', _filled(L('sound_type'))))
row('C14', HITOBJ, 'node-default:bank',
    _let('node_bank_infos', _filled(OR(M('clone', L('bank_info')), L('bank_info')))))
_GE2 = BIN('Ge', L('custom_sample_bank'), K(2))
CST = 'section::hit_objects::hit_samples::SampleBankInfo::convert_sound_type'
_HS = 'section::hit_objects::hit_samples::'


def _nodes(e):
    out = []
    H.walk(e if isinstance(e, dict) else {}, lambda x, a: out.append(x))
    return out


def _sound_type_samples(aspect):
    """hit-sound byte + bank info -> sample list (legacy rules): the first sample is the file sample (bank none, index 1)
    when a non-empty file name is given, else `hitnormal` (normal bank), layered iff the byte is non-zero without the NORMAL
    bit; then finish, whistle, clap -- in this order -- for their bits, each with the addition bank; all carry the custom
    index and the volume."""
    def chk(ctx, hfn):
        order = {}
        ctors, assigns, ifs, tuples = [], [], [], []

        def visit(n, anc):
            order[id(n)] = len(order)
            if n.get('k') == 'call' and n['f'].get('k') == 'path' and n['f'].get('def', '').endswith('HitSampleInfo::new') \
                    and len(n['args']) == 4:
                ctors.append((n, list(anc)))
            if n.get('k') == 'assign' and isinstance(n['l'], dict) and n['l'].get('k') == 'field' and n['l'].get('n') == 'is_layered':
                assigns.append(n)
            if n.get('k') == 'struct' and n.get('adt', '').endswith('hit_samples::HitSampleInfo') and n.get('base') is not None:
                # `HitSampleInfo { is_layered: X, ..HitSampleInfo::new(HIT_NORMAL, ..) }` sets the flag of that sample
                for f_ in n.get('fields', []):
                    if f_['n'] == 'is_layered':
                        assigns.append({'k': 'assign', 'l': None, 'r': f_['e'], 'ln': f_.get('ln'), 'on': n['base']})
            if n.get('k') == 'match' and not n.get('src', '').startswith('TryDesugar'):
                matches_.append(n)
            if n.get('k') == 'if':
                ifs.append(n)
            if n.get('k') == 'tup' and len(n.get('es', [])) == 2:
                tuples.append(n)
            if n.get('k') == 'mcall' and n.get('name') == 'filter' and n['args']:
                cl = strip(n['args'][0])
                if isinstance(cl, dict) and cl.get('k') == 'closure':
                    filters.append(strip(cl['body']))
        filters = []
        matches_ = []
        H.walk(hfn['body'], visit)
        # a flag -> name table kept in a (nested) const: its tuples count where the const is used

        def visit_c(n, anc):
            if n.get('k') == 'path' and n.get('dk', '').startswith(('Const', 'AssocConst')) and \
                    dict.__contains__(ctx.facts.hir, n.get('def')) and not n.get('name', '').startswith('HIT_'):
                base = order.get(id(n), 0)
                sub = []
                H.walk(ctx.facts.hir[n['def']]['body'],
                       lambda x, a: sub.append(x) if x.get('k') == 'tup' and len(x.get('es', [])) == 2 else None)
                for j, t in enumerate(sub):
                    order[id(t)] = base + (j + 1) * 1e-3
                    tuples.append(t)
        H.walk(hfn['body'], visit_c)
        ST = L('sound_type')
        fld = lambda nm: OR(F(ANY(), nm), L(nm))
        is_file = lambda e: C('HitSampleInfoName::File', ANY()).m(ctx, e)

        def name_is(e, nm):
            """the expression denotes the default sample name nm (HIT_FINISH const or the variant it wraps)"""
            hit = []

            def v(n, anc):
                if n.get('k') == 'path' and (n.get('name') == nm or
                                             ('HitSampleDefaultName::' in n.get('def', '') and 'HIT_' + n.get('name', '').upper() == nm)):
                    hit.append(n)
            H.walk(e if isinstance(e, dict) else {}, v)
            return bool(hit)
        is_name = name_is
        files = [c for c in ctors if is_file(c[0]['args'][0])]
        normals = [c for c in ctors if is_name(c[0]['args'][0], 'HIT_NORMAL')]
        others = [c for c in ctors if c not in files and c not in normals]
        if aspect == 'layered':
            if len(assigns) != 1:
                return False, '%d assignments to `is_layered` (expected one, on the normal sample)' % len(assigns), None
            has_normal = OR(M('has_flag', ST, P('HitSoundType::NORMAL')), C('has_flag', ST, P('HitSoundType::NORMAL')))
            pat = BIN('And', BIN('Ne', ST, OR(P('HitSoundType::NONE'), K(0)), commutative=True), UN('Not', has_normal), commutative=True)
            ok = pat.m(ctx, assigns[0]['r'])
            if ok and assigns[0].get('on') is not None and not any(c[0] is strip(assigns[0]['on']) for c in normals):
                return False, 'the layered flag is set on a sample other than the normal sample', assigns[0].get('ln')
            return ok, '' if ok else ('the normal sample is layered iff `sound_type != NONE && !sound_type.has_flag(NORMAL)`; '
                                      'found another condition'), assigns[0].get('ln')
        if aspect == 'primary':
            if len(files) != 1 or len(normals) != 1:
                return False, 'expected one file sample and one normal sample constructor (found %d / %d)' % (len(files), len(normals)), None
            f, nrm = files[0][0], normals[0][0]
            okf = P('None').m(ctx, f['args'][1]) and K(1).m(ctx, f['args'][2]) and fld('volume').m(ctx, f['args'][3])
            if not okf:
                return False, 'the file sample is not built with (no bank, index 1, the volume)', f.get('ln')
            okn = fld('bank_for_normal').m(ctx, nrm['args'][1]) and fld('custom_sample_bank').m(ctx, nrm['args'][2]) \
                and fld('volume').m(ctx, nrm['args'][3])
            if not okn:
                return False, 'the normal sample is not built with (normal bank, custom index, volume)', nrm.get('ln')
            # file and normal sample exclude each other: the two branches of the "non-empty file name" test
            for i in ifs:
                if 'e' not in i:
                    continue
                in_t, in_e = [], []
                H.walk(i['t'], lambda x, a: in_t.append(x) if x is f else None)
                H.walk(i['e'], lambda x, a: in_e.append(x) if x is nrm else None)
                if in_t and in_e:
                    c = strip(i['c'])
                    init = c.get('init') if isinstance(c, dict) and c.get('k') == 'let' else c
                    ok = CONTAINS(M('filter', fld('filename'), CONTAINS(UN('Not', M('is_empty', ANY()))))).m(ctx, init) or \
                        M('filter', fld('filename'), CONTAINS(UN('Not', M('is_empty', ANY())))).m(ctx, init)
                    return ok, '' if ok else 'file/normal sample choice is not "a non-empty file name is given"', i.get('ln')
            for mt in matches_:
                # `match filename { Some(f) if !f.is_empty() => <file sample>, _ => <normal sample> }`
                arm_f = [a for a in mt['arms'] if any(x is f for x in _nodes(a['body']))]
                arm_n = [a for a in mt['arms'] if any(x is nrm for x in _nodes(a['body']))]
                if len(arm_f) == 1 and len(arm_n) == 1 and arm_f[0] is not arm_n[0] and len(mt['arms']) == 2:
                    pa = arm_f[0]['pat']
                    g = arm_f[0].get('guard')
                    nm_ = pa['pats'][0].get('name') if pa.get('k') == 'ptstruct' and pa['path'].get('name') == 'Some' and \
                        len(pa.get('pats', [])) == 1 and pa['pats'][0].get('k') == 'bind' else None
                    ctx.env = {}
                    ok = nm_ is not None and g is not None and fld('filename').m(ctx, mt['scrut']) and \
                        UN('Not', M('is_empty', L(nm_))).m(ctx, g) and mt['arms'].index(arm_f[0]) == 0
                    return ok, '' if ok else 'file/normal sample choice is not "a non-empty file name is given"', mt.get('ln')
            return False, 'the file sample and the normal sample are not the two branches of one test', None
        if aspect == 'additions':
            if not others:
                return False, 'no addition sample constructor found', None
            for c, _a in others:
                ok = fld('bank_for_addition').m(ctx, c['args'][1]) and fld('custom_sample_bank').m(ctx, c['args'][2]) \
                    and fld('volume').m(ctx, c['args'][3])
                if not ok:
                    return False, 'an addition sample is not built with (addition bank, custom index, volume)', c.get('ln')
            pos = {}
            for X in ('FINISH', 'WHISTLE', 'CLAP'):
                flagp = P('HitSoundType::' + X)
                hit = None
                for i in ifs:
                    c = strip(i['c'])
                    if (M('has_flag', ST, flagp).m(ctx, c) or C('has_flag', ST, flagp).m(ctx, c)) and name_is(i['t'], 'HIT_' + X):
                        hit = i
                for t in tuples:
                    if flagp.m(ctx, t['es'][0]) and name_is(t['es'][1], 'HIT_' + X):
                        # table form: the table must be what a `has_flag` test (an `if` or a `filter`) runs over
                        tests = [strip(i['c']) for i in ifs] + filters
                        if any((M('has_flag', ST, ANY()).m(ctx, c_) or C('has_flag', ST, ANY()).m(ctx, c_)) for c_ in tests):
                            hit = t
                if hit is None:
                    return False, 'bit %s does not add the `hit%s` sample' % (X, X.lower()), None
                pos[X] = order[id(hit)]
            ok = pos['FINISH'] < pos['WHISTLE'] < pos['CLAP']
            return ok, '' if ok else 'additions are not produced in the order finish, whistle, clap', None
        return False, 'unknown aspect', None
    chk.positive = True
    chk.keep = ('HitSampleInfo::new', 'has_flag')
    return chk


for _a in ('layered', 'primary', 'additions'):
    row('C14', CST, 'sound-type:' + _a, _sound_type_samples(_a))
row('C14', _HS + 'HitSampleInfo::new', 'new-sample-not-layered',
    _struct_init(_HS + 'HitSampleInfo', 'is_layered', K(False)))
row('C14', 'section::hit_objects::hit_samples::HitSampleInfo::new', 'suffix-only-from-custom-index>=2',
    _struct_init('section::hit_objects::hit_samples::HitSampleInfo', 'suffix',
                 OR(M('then', _GE2, ANY()), M('then_some', _GE2, ANY()), IF(_GE2, ANY(), ANY()))))
row('C14', '<section::hit_objects::hit_samples::HitSoundType as std::str::FromStr>::from_str', 'hit-sound:whole-byte',
    _contains(CAST(BIN('BitAnd', ANY(), K(255)), 'u8'), 'the hit-sound value keeps its low 8 bits (layering is judged on the whole byte)'))
row('C14', HITOBJ, 'spinner-duration>=0',
    _let('duration', M('max', BIN('Sub', ANY(), L('start_time')), K(0.0)), every=False))
def _hold_end(ctx, hfn):
    """a hold note never ends before it starts: in `HitObjectHold { duration: end - start_time }` every value `end` can
    take (its `let`, later assignments, the arms of a `match`/`if` that computes it) is `start_time.max(..)`, and one of
    them clamps the end time parsed from the line"""
    import symeval as SE
    inits = struct_field_inits(hfn, 'section::hit_objects::hold::HitObjectHold', 'duration')
    if len(inits) != 1:
        return False, '%d `HitObjectHold { duration: .. }` literals' % len(inits), None
    e = strip(inits[0][0])
    if isinstance(e, dict) and e.get('k') == 'local':
        its = unique_inits(ctx, e['name'])
        if len(its) == 1:
            e = strip(its[0])
    if not (isinstance(e, dict) and e.get('k') == 'binary' and e.get('op') == 'Sub'):
        return False, 'the duration of a hold note is not `end - start`', inits[0][1]
    end = strip(e['a'])
    vals = []
    if isinstance(end, dict) and end.get('k') == 'local':
        nm = end['name']
        # the variable of that name in scope at the literal: the innermost enclosing block that declares it
        scope = hfn['body']
        for a in reversed(inits[0][2]):
            if isinstance(a, dict) and a.get('k') == 'block' and any(
                    isinstance(st, dict) and st.get('k') in ('slet', 'let') and nm in H.pat_bindings(st.get('pat', {}))
                    for st in a.get('stmts', [])):
                scope = a
                break

        def v(n, anc):
            if n.get('k') == 'assign' and strip(n['l']).get('k') == 'local' and strip(n['l'])['name'] == nm:
                vals.append(n['r'])
            if n.get('k') in ('slet', 'let') and 'init' in n and nm in H.pat_bindings(n.get('pat', {})) and \
                    any(n is st_ for st_ in scope.get('stmts', [])):
                vals.append(n['init'])      # (a `let` of the same name in a nested block is another variable)
        H.walk(scope, v)
    else:
        vals.append(end)
    leaves_ = []
    for x in vals:
        try:
            t = SE.SymEval(None, budget=3000).value(x, {})
        except SE.Stop:
            return False, 'the end time is too involved to evaluate', None
        leaves_.extend(l for _p, l in SE.leaves(t))
    if not leaves_:
        return False, 'no value for the end of a hold note found', inits[0][1]
    START = L('start_time')
    clamp = lambda other: OR(M('max', START, other), M('max', other, START), C('max', START, other), C('max', other, START))
    parsed = OR(L('new_end_time'), TRY(M('parse_num', ANY())), TRY(C('ParseNumber>::parse', ANY())))

    def unwrap_ok(l):
        l0 = strip(l)
        if isinstance(l0, dict) and l0.get('k') == 'call' and l0['f'].get('k') == 'path' and l0['f'].get('name') == 'Ok' and len(l0['args']) == 1:
            return l0['args'][0]
        return l
    def expand(l, depth=0):
        # `helper(..)?` with the helper inlined: the values its body can yield
        l0 = strip(l)
        if depth < 3 and isinstance(l0, dict) and l0.get('k') in ('block', 'match', 'if'):
            try:
                t_ = SE.SymEval(None, budget=3000).value(l0, {})
            except SE.Stop:
                return [l]
            out_ = []
            for _p, x_ in SE.leaves(t_):
                if x_ is l0 or strip(x_) is l0:
                    out_.append(x_)
                else:
                    out_.extend(expand(x_, depth + 1))
            return out_
        return [l]
    leaves_ = [y for l in leaves_ for y in expand(l)]
    leaves_ = [unwrap_ok(l) for l in leaves_ if not (isinstance(strip(l), dict) and strip(l).get('k') in ('returned', 'ret'))
               and not (isinstance(strip(l), dict) and strip(l).get('k') == 'call' and strip(l)['f'].get('k') == 'path' and strip(l)['f'].get('name') == 'Err')]
    for l in leaves_:
        ctx.env = {}
        if not clamp(ANY()).m(ctx, l):
            return False, 'an end time of a hold note is not clamped to its start time (`start_time.max(..)`)', \
                l.get('ln') if isinstance(l, dict) else None
    ctx.env = {}
    if not any(clamp(parsed).m(ctx, l) for l in leaves_):
        return False, 'the end time read from the line is not the one that is clamped to the start time', inits[0][1]
    return True, '', inits[0][1]


def _hold_end_row(ctx, hfn):
    r = _hold_end(ctx, hfn)
    for dpt in (1, 2):
        if r[0]:
            break
        vh = H.inlined_fn(ctx.facts, hfn, depth=dpt)
        r2 = _hold_end(Ctx(ctx.facts, H.binding_inits(vh), vh), vh)
        if r2[0]:
            return r2
    return r


row('C14', HITOBJ, 'hold-end>=start', _hold_end_row)
row('C14', HITOBJ, 'hold-duration',
    _struct_init('section::hit_objects::hold::HitObjectHold', 'duration', BIN('Sub', L('end_time'), L('start_time'))))

def _suffix_rejects_only_unparsable(ctx, hfn):
    """the sample suffix `bank:addition bank:custom index:volume:file` of a hit-object line is written by the encoder as
    the stored integers (K7), whatever they are -- also values inherited from a sample point; the suffix parser must
    therefore have no rejection of its own: every error exit is the `?` of a number parse or the missing second field"""
    bad = []

    def is_err_value(e):
        e = strip(e)
        if isinstance(e, dict) and e.get('k') == 'mcall' and e.get('name') == 'into':
            e = strip(e['recv'])
        if not (isinstance(e, dict) and e.get('k') == 'call' and e['f'].get('k') == 'path' and e['f'].get('name') == 'Err'):
            return False
        # the missing second field is the one rejection the format has here (`ok_or(MissingInfo)?` spelled as a return)
        pay = strip(e['args'][0]) if e.get('args') else None
        if isinstance(pay, dict) and pay.get('k') == 'path' and pay.get('name') == 'MissingInfo':
            return False
        # an error value handed on (`Err(err) => return Err(err.into())`) is the number parser's own rejection
        if isinstance(pay, dict) and pay.get('k') == 'mcall' and pay.get('name') == 'into' and strip(pay['recv']).get('k') == 'local':
            return False
        if isinstance(pay, dict) and pay.get('k') == 'local':
            return False
        return True

    def v(n, anc):
        if 'QuestionMark' in (n.get('exp') or ''):
            return
        if n.get('k') == 'ret' and 'e' in n and is_err_value(n['e']) and not any('QuestionMark' in (a.get('exp') or '') for a in anc):
            bad.append(n)
    for dpt in (0, 1, 2):
        vh = hfn if dpt == 0 else H.inlined_fn(ctx.facts, hfn, depth=dpt)
        H.walk(vh['body'], v)
        tail = vh['body'].get('expr') if vh['body'].get('k') == 'block' else None
        if tail is not None:
            import symeval as SE
            try:
                t = SE.SymEval(None, budget=3000).value(tail, {})
                for _p, l in SE.leaves(t):
                    if is_err_value(l):
                        bad.append(l if isinstance(l, dict) else {})
            except SE.Stop:
                pass
        if bad:
            break
    ok = not bad
    return ok, '' if ok else ('the sample suffix parser rejects a value the number parser accepted: the encoder writes the stored '
                              'integers as they are (a custom index or volume inherited from a sample point included), so it can '
                              'emit a hit-object line this parser refuses'), bad[0].get('ln') if bad else None


row('C04', _HS + 'SampleBankInfo::read_custom_sample_banks', 'sample-suffix-rejects-only-unparsable', _suffix_rejects_only_unparsable)
_AS_READ = OR(M('map', M('next', ANY()), OR(P('to_owned'), P('to_string'), P('String::from'), P('From>::from'), P('Into>::into'), P('ToOwned'))),
              M('map', M('next', ANY()), ANY()))


def _filename_as_read(ctx, hfn):
    """the sample file name of a hit object is stored as it stands in the line: the encoder writes it back verbatim, and a
    normalised name (separators replaced, trimmed, lower-cased) can contain `//` or differ from what was written"""
    rhs = assignments(hfn, 'self', ['filename'])
    if not rhs:
        return False, 'no assignment to `self.filename` found', None
    for r, ln, anc in rhs:
        ctx.env = {}
        bad = find(ctx, r, OR(M('to_standardized_path', ANY()), P('to_standardized_path'), M('replace', ANY(), ANY(), ANY()), M('trim', ANY()),
                              P('str::trim'), M('to_lowercase', ANY()), M('to_ascii_lowercase', ANY()), M('trim_matches', ANY(), ANY()),
                              M('clean_filename', ANY()), P('clean_filename')))
        if bad:
            return False, ('the sample file name is rewritten on the way in: what the encoder writes back is not what the line said '
                           '(and may contain `//`, which the hit-object parser cuts as a comment)'), ln
    return True, '', rhs[0][1]


_filename_as_read.positive = True
row('C04', _HS + 'SampleBankInfo::read_custom_sample_banks', 'sample-filename-as-read', _filename_as_read)
row('C14', _HS + 'SampleBankInfo::read_custom_sample_banks', 'sample-suffix-rejects-only-unparsable', _suffix_rejects_only_unparsable)
CONVP = 'section::hit_objects::decode::HitObjectsState::convert_points'
_SPLIT_SHAPE = {
    'split:repeated-point':
        _contains(IF(BIN('Ne', F(INDEX(ANY(), L('end_idx')), 'pos'), F(INDEX(ANY(), BIN('Sub', L('end_idx'), K(1))), 'pos'),
                         commutative=True), ANY()), 'segments split only at a repeated point (a vertex equal to its predecessor)'),
    'split:not-in-catmull':
        _contains(IF(BIN('And', BIN('Eq', L('path_type'), P('PathType::CATMULL')), BIN('Gt', L('end_idx'), K(1))), ANY()),
                  'Catmull paths are not split (except at index 1)'),
    'split:not-at-segment-end':
        _contains(IF(BIN('Eq', L('end_idx'), BIN('Sub', BIN('Sub', M('len', ANY()), L('end_point_len')), K(1))), ANY()),
                  'no split at the end of a segment'),
}


def _split_decision_tree(ctx, hfn):
    """the loop that cuts the vertices of a slider into sub-segments, as one decision: in an iteration the cut
    (`curve_points.extend(&vertices[start..end])`) happens exactly when
        vertices[i].pos == vertices[i - 1].pos  and not (path type is CATMULL and i > 1)  and  i != segment length - 1
    whichever way the code spells it (three `continue` guards, one boolean, nested ifs).
    Returns (True, ..) / (False, why, ln) / None when the loop or its tests cannot be interpreted."""
    import symeval as SE
    import itertools
    loops = []

    def is_cut_call(n):
        if n.get('k') == 'mcall' and n.get('name') in ('extend', 'extend_from_slice'):
            r = strip(n['recv'])
            return isinstance(r, dict) and r.get('k') == 'field' and r.get('n') == 'curve_points'
        return False

    def v(n, anc):
        if n.get('k') == 'loop':
            hit = []
            H.walk(n['body'], lambda m, a2: hit.append(m) if is_cut_call(m) and not any(x.get('k') == 'closure' for x in a2) else None)
            if hit:
                loops.append(n)
    H.walk(hfn['body'], v)
    if len(loops) != 1:
        return None
    lp = loops[0]
    body = lp['body']
    blk = None
    if lp.get('src') == 'While' and isinstance(body.get('expr'), dict) and body['expr'].get('k') == 'if' and not body.get('stmts'):
        blk = body['expr']['t']
    elif lp.get('src') == 'ForLoop' and body.get('stmts') and body['stmts'][0].get('k') == 'match':
        for a in body['stmts'][0]['arms']:
            if 'Some' in repr(a['pat']):
                blk = a['body']
    else:
        blk = body
    if not (isinstance(blk, dict) and blk.get('k') == 'block'):
        return None

    class Ev(SE.CallTrace):
        def stmt(self, st, env, knext, kret, as_tail=None):
            if isinstance(st, dict) and st.get('k') in ('continue', 'break'):
                return ('v', {'k': st['k'], 'calls': env.get('#calls', ())})
            return super().stmt(st, env, knext, kret, as_tail)
    ev = Ev({'extend', 'extend_from_slice'})
    try:
        tree = ev.seq(list(blk.get('stmts', [])), blk.get('expr'), {},
                      lambda env, tail: ('v', {'k': 'end', 'calls': (ev._scan(tail, env) or env).get('#calls', ()) if tail is not None
                                               else env.get('#calls', ())}),
                      kret=lambda vt, env=None: ('v', {'k': 'ret', 'calls': (env or {}).get('#calls', ())}))
    except SE.Stop:
        return None
    POS = F(ANY(), 'pos')
    CAT = P('PathType::CATMULL')
    END = BIN('Sub', BIN('Sub', M('len', ANY()), ANY()), K(1))
    idx_seen = []

    def atom(e):
        e = strip(e)
        if not (isinstance(e, dict) and e.get('k') == 'binary'):
            return None
        op = e.get('op')
        if op in ('Eq', 'Ne') and POS.m(ctx, e['a']) and POS.m(ctx, e['b']):
            ia, ib = strip(strip(e['a'])['e']), strip(strip(e['b'])['e'])
            if not (isinstance(ia, dict) and isinstance(ib, dict) and ia.get('k') == 'index' and ib.get('k') == 'index'):
                return None
            xa, xb = ia.get('i', ia.get('idx')), ib.get('i', ib.get('idx'))
            for hi_, lo_ in ((xa, xb), (xb, xa)):
                if SAME_(BIN('Sub', SAME_(hi_), K(1))).m(ctx, lo_):
                    idx_seen.append(hi_)
                    return ('E', op == 'Eq')
            return None
        if op in ('Eq', 'Ne') and (CAT.m(ctx, e['a']) or CAT.m(ctx, e['b'])):
            return ('C', op == 'Eq')
        if op in ('Eq', 'Ne'):
            for x, y in ((e['a'], e['b']), (e['b'], e['a'])):
                if END.m(ctx, y):
                    idx_seen.append(x)
                    return ('L', op == 'Eq')
                if BIN('Add', ANY(), K(1), commutative=True).m(ctx, x) and BIN('Sub', M('len', ANY()), ANY()).m(ctx, y):
                    return ('L', op == 'Eq')
        for op_, k_, pol, swap in (('Gt', 1, True, False), ('Ge', 2, True, False), ('Le', 1, False, False), ('Lt', 2, False, False),
                                   ('Lt', 1, True, True), ('Le', 2, True, True), ('Ge', 1, False, True), ('Gt', 2, False, True)):
            x, y = (e['b'], e['a']) if swap else (e['a'], e['b'])
            if op == op_ and K(k_).m(ctx, y) and (strip(x).get('ty') if isinstance(strip(x), dict) else None) == 'usize':
                idx_seen.append(x)
                return ('G', pol)
        return None

    def beval(e, val):
        e = strip(e)
        if not isinstance(e, dict):
            return None
        if e.get('k') == 'binary' and e.get('op') in ('And', 'Or'):
            a, b = beval(e['a'], val), beval(e['b'], val)
            if e['op'] == 'And':
                return False if (a is False or b is False) else (True if (a and b) else None)
            return True if (a is True or b is True) else (False if (a is False and b is False) else None)
        if e.get('k') == 'unary' and e.get('op') == 'Not':
            a = beval(e['e'], val)
            return None if a is None else (not a)
        if e.get('k') == 'local':
            inits = unique_inits(ctx, e['name'])
            if len(inits) == 1 and strip(inits[0]) is not e:
                return beval(inits[0], val)
            return None
        at = atom(e)
        if at is None:
            return None
        return val[at[0]] == at[1]

    for bits in itertools.product((True, False), repeat=4):
        val = dict(zip('ECGL', bits))
        t = tree
        while t[0] == 'ite':
            if t[1][0] != 'e':
                return None
            d = beval(t[1][1], val)
            if d is None:
                return None
            t = t[2] if d else t[3]
        leaf = t[1] if isinstance(t[1], dict) else {}
        cut = any(is_cut_call(c[1]) for c in leaf.get('calls', ()))
        want = val['E'] and not (val['C'] and val['G']) and not val['L']
        if cut != want:
            desc = ', '.join(w for w, on in (('repeated point', val['E']), ('Catmull', val['C']), ('index > 1', val['G']),
                                            ('last index of the segment', val['L'])) if on) or 'none of the conditions'
            return False, ('the vertices are %scut into a new sub-segment when [%s] holds; the format cuts exactly at a repeated point '
                           'that is not inside a Catmull path (index > 1) and not the end of the segment'
                           % ('' if cut else 'not ', desc)), lp.get('ln')
    return True, '', lp.get('ln')


class SAME_(Pat):
    """structural equality with a given expression, or a wrapped pattern"""

    def __init__(self, e):
        self.p = e if isinstance(e, Pat) else None
        self.c = None if self.p else canon(strip(e))

    def m0(self, ctx, e):
        if self.p is not None:
            return self.p.m0(ctx, e) if not getattr(self.p, 'via_let', False) else self.p.m(ctx, e)
        return canon(strip(e)) == self.c


def _split_row(label):
    def chk(ctx, hfn):
        for dpt in (0, 1, 2):
            vh = hfn if dpt == 0 else H.inlined_fn(ctx.facts, hfn, depth=dpt)
            c2 = Ctx(ctx.facts, H.binding_inits(vh), vh) if dpt else ctx
            r = _split_decision_tree(c2, vh)
            if r is not None:
                return r
        # the decision cannot be read off: the earlier, spelling-bound form of the three facts
        return _SPLIT_SHAPE[label](ctx, hfn)
    return chk


for _lbl in ('split:repeated-point', 'split:not-in-catmull', 'split:not-at-segment-end'):
    row('C14', CONVP, _lbl, _split_row(_lbl))
def _perfect_curve_table(ctx, hfn):
    """the path type stored on a segment's first vertex, as a decision table over (declared type is
    PERFECT_CURVE, the segment has exactly three vertices, they are collinear):
      not perfect -> declared;  perfect & 3 & collinear -> LINEAR;  perfect & 3 & not collinear -> PERFECT_CURVE;
      perfect & not 3 -> BEZIER.   Independent of how the code spells it (mutable local, match with guards, helper)."""
    import symeval as SE
    found = []

    def query(st, env, ev):
        if isinstance(st, dict) and st.get('k') == 'assign':
            l = st['l']
            if isinstance(l, dict) and l.get('k') == 'field' and l.get('n') == 'path_type':
                r = strip(st['r'])
                if isinstance(r, dict) and r.get('k') == 'call' and r['f'].get('k') == 'path' and r['f'].get('name') == 'Some' \
                        and len(r['args']) == 1:
                    r = r['args'][0]
                t = ev.value(r, env)
                found.append(t)
                return t
        return None
    ev = SE.SymEval(query)
    body = hfn['body']
    try:
        tree = ev.seq(list(body.get('stmts', [])), body.get('expr'), {}, lambda env, tail: ('v', {'k': 'end'}))
    except SE.Stop:
        return False, 'function too large to evaluate symbolically', None
    if not found:
        return False, 'no assignment to the first vertex\'s `path_type` found', None

    def classify(c):
        """(atom, polarity) of a condition, or None"""
        pol = True
        if c[0] == 'pat':
            pat = c[1]
            while isinstance(pat, dict) and pat.get('k') == 'pref':
                pat = pat['p']
            if pat.get('k') == 'pslice' and not pat.get('rest') and len(pat.get('before', [])) + len(pat.get('after', [])) == 3 \
                    and all(x.get('k') in ('bind', 'wild') for x in pat.get('before', []) + pat.get('after', [])):
                return ('len3', True)
            if pat.get('k') in ('pexpr', 'path') and 'PathType::PERFECT_CURVE' in repr(pat):
                return ('isP', True)
            return None
        e = strip(c[1])
        while isinstance(e, dict) and e.get('k') == 'unary' and e.get('op') == 'Not':
            e = strip(e['e'])
            pol = not pol
        if not isinstance(e, dict):
            return None
        if e.get('k') == 'binary' and e.get('op') in ('Eq', 'Ne'):
            sides = [strip(e['a']), strip(e['b'])]
            if any(P('PathType::PERFECT_CURVE').m(ctx, x) for x in sides):
                return ('isP', pol if e['op'] == 'Eq' else not pol)
            if any(isinstance(x, dict) and x.get('k') == 'mcall' and x.get('name') == 'len' for x in sides) and \
                    any(ctx.const_value(x) == 3 for x in sides):
                return ('len3', pol if e['op'] == 'Eq' else not pol)
            return None
        if e.get('k') == 'call' and e['f'].get('k') == 'path' and dict.__contains__(ctx.facts.hir, e['f'].get('def')) \
                and len(e['args']) == 3 and all((strip(a).get('ty') or '').endswith('pos::Pos') for a in e['args']):
            # the collinearity predicate over the three vertices (its formula has its own row)
            return ('lin', pol)
        if e.get('k') == 'binary' and e.get('op') == 'Lt' and isinstance(strip(e['a']), dict) and \
                strip(e['a']).get('k') == 'mcall' and strip(e['a']).get('name') == 'abs' and \
                ctx.const_value(e['b']) is not None and abs(ctx.const_value(e['b'])) < 1e-3:
            return ('lin', pol)
        return None

    def kind(leaf):
        leaf = strip(leaf)
        if not isinstance(leaf, dict) or leaf.get('k') in ('unknown', 'unreachable', 'end', 'unit', 'returned'):
            return None
        for nm, tag in (('PathType::LINEAR', 'L'), ('PathType::BEZIER', 'B'), ('PathType::PERFECT_CURVE', 'P')):
            if P(nm).m(ctx, leaf):
                return tag
        return 'D'
    import itertools
    for isP, len3, lin in itertools.product((True, False), repeat=3):
        val = {'isP': isP, 'len3': len3, 'lin': lin}
        bad = []

        def decide(c):
            cl = classify(c)
            if cl is None:
                bad.append(c)
                return None
            return val[cl[0]] == cl[1]
        # only the paths that reach the assignment matter: conditions that are not about the type are skipped by
        # following the branch that leads to the assignment
        leaf = _eval_to_assignment(tree, decide, classify)
        if leaf is None:
            return False, 'the path type decision tests something other than (perfect curve?, three vertices?, collinear?)', None
        kd = kind(leaf)
        if not isP:
            want = ('D',)
        elif not len3:
            want = ('B',)
        elif lin:
            want = ('L',)
        else:
            want = ('P', 'D')
        if kd not in want:
            return False, ('for (perfect curve=%s, three vertices=%s, collinear=%s) the stored path type is %s; expected %s'
                           % (isP, len3, lin, {'D': 'the declared one', 'L': 'LINEAR', 'B': 'BEZIER', 'P': 'PERFECT_CURVE',
                                               None: 'unknown'}[kd],
                              '/'.join({'D': 'declared', 'L': 'LINEAR', 'B': 'BEZIER', 'P': 'PERFECT_CURVE'}[w] for w in want))), None
    return True, '', None


def _eval_to_assignment(tree, decide, classify):
    """evaluate the tree; a test that is not about the path type (first segment?, end point?, error exits) is passed
    through if both sides give the same answer, else the side that still reaches the assignment is taken"""
    if tree[0] == 'v':
        return tree[1]
    _, c, t, e = tree
    if classify(c) is not None:
        d = decide(c)
        return _eval_to_assignment(t if d else e, decide, classify)
    a = _eval_to_assignment(t, decide, classify)
    b = _eval_to_assignment(e, decide, classify)
    dead = lambda x: x is None or (isinstance(x, dict) and x.get('k') in ('end', 'returned', 'unit'))
    if dead(a):
        return b
    if dead(b):
        return a
    from hp import canon
    return a if canon(a) == canon(b) else None


def _collinear_formula(ctx, hfn):
    """the predicate deciding "degenerate": |(p1.y-p0.y)(p2.x-p0.x) - (p1.x-p0.x)(p2.y-p0.y)| < f32::EPSILON"""
    calls = []

    def v(n, anc):
        if n.get('k') == 'call' and n['f'].get('k') == 'path' and dict.__contains__(ctx.facts.hir, n['f'].get('def')) \
                and len(n['args']) == 3 and all((strip(a).get('ty') or '').endswith('pos::Pos') for a in n['args']) \
                and n.get('ty') == 'bool':
            calls.append(n)
    H.walk(hfn['body'], v)
    if not calls:
        return False, 'no collinearity predicate over three vertex positions is called', None
    for c in calls:
        h2 = ctx.facts.hir[c['f']['def']]
        ps = [H.pat_bindings(p_)[0] for p_ in h2['params'] if H.pat_bindings(p_)]
        if len(ps) != 3:
            return False, 'unexpected predicate signature', None
        c2 = Ctx(ctx.facts, H.binding_inits(h2), h2)
        d = lambda i, j, ax: BIN('Sub', F(L(ps[i]), ax), F(L(ps[j]), ax))
        t1 = BIN('Mul', d(1, 0, 'y'), d(2, 0, 'x'), commutative=True)
        t2 = BIN('Mul', d(1, 0, 'x'), d(2, 0, 'y'), commutative=True)
        pat = BIN('Lt', M('abs', OR(BIN('Sub', t1, t2), BIN('Sub', t2, t1))), K(1.1920928955078125e-07))
        body = h2['body']
        tail = body.get('expr') if body.get('k') == 'block' else body
        if tail is None or not pat.m(c2, tail):
            return False, ('the collinearity test is not |(p1.y-p0.y)(p2.x-p0.x) - (p1.x-p0.x)(p2.y-p0.y)| < f32::EPSILON '
                           '(%s)' % c['f']['def']), c.get('ln')
        # the three vertices are passed in order
        names = []
        for a in c['args']:
            fc = H.field_chain(strip(a))
            names.append(fc[0] if fc and fc[1] == ['pos'] else None)
        if None in names or len(set(names)) != 3:
            return False, 'the predicate is not applied to the positions of the three vertices', c.get('ln')
    return True, '', calls[0].get('ln')


_collinear_formula.positive = True
row('C14', CONVP, 'perfect:collinear-test', _collinear_formula)
_perfect_curve_table.positive = True
_perfect_curve_table.keep = ('new_from_str',)
row('C14', CONVP, 'perfect->linear', _perfect_curve_table)
row('C14', CONVP, 'perfect->bezier', _perfect_curve_table)
row('C14', CONVP, 'first-point-origin',
    _contains(IF(L('first'), CONTAINS(M('push', ANY(), C('default')))), 'the first segment starts at the origin'))
row('C14', CONVP, 'type-on-first-vertex',
    _contains(M('first_mut', F(L('self'), 'vertices')), 'the path type is stored on the first vertex'))
PT = 'section::hit_objects::slider::path_type::PathType::new_from_str'
for letter, const in (('B', None), ('L', 'PathType::LINEAR'), ('P', 'PathType::PERFECT_CURVE')):
    pass


def _letters(ctx, hfn):
    from kt import _pat_lits
    got = {}

    def visit(n, anc):
        if n.get('k') == 'match' and not n.get('src', '').startswith('TryDesugar'):
            for a in n['arms']:
                lits = []
                _pat_lits(a['pat'], lits)
                names = []

                def v2(x, anc2):
                    if x.get('k') == 'path' and x.get('def', '').startswith('section::hit_objects::slider::path_type::PathType::'):
                        names.append(x['name'])
                H.walk(a['body'], v2)
                for l in lits:
                    if isinstance(l, str) and len(l) == 1:
                        got[l] = set(names)
                if a['pat'].get('k') == 'wild':
                    got['_'] = set(names)
    H.walk(hfn['body'], visit)
    if not got:
        from kt import letter_table_by_prefix_tests
        got = {l: {d.rsplit('::', 1)[-1] for d in ds} for l, ds in letter_table_by_prefix_tests(ctx.facts, hfn).items()}
    exp = {'B': 'BEZIER', 'L': 'LINEAR', 'P': 'PERFECT_CURVE', '_': 'CATMULL'}
    consts = set(exp.values())
    # each letter's arm yields its own constant and none of the others (the B arm may also build a B-spline
    # of a parsed degree)
    ok = set(got) == set(exp) and all(exp[k] in got[k] and not ((got[k] & consts) - {exp[k]}) for k in exp)
    return ok, '' if ok else 'path type letters map to %s, expected %s' % ({k: sorted(v) for k, v in got.items()}, exp), None


row('C14', PT, 'type-letters', _letters)

def _lossy_decode_progress(ctx, hfn):
    """the replacement loop for invalid UTF-8 ends when the error has no length (the input stops inside a character): the
    `None` of `error_len()` leads out of the loop -- consumed as a number (`unwrap_or(0)`) the remaining slice never gets
    shorter and the loop never ends"""
    sites = []

    def exits(e):
        hit = []
        H.walk(e if isinstance(e, dict) else {}, lambda x, a: hit.append(x) if x.get('k') in ('ret', 'break') else None)
        e0 = strip(e)
        return bool(hit) or (isinstance(e0, dict) and e0.get('k') in ('ret', 'break'))

    def v(n, anc):
        if n.get('k') == 'mcall' and n.get('name') == 'error_len':
            par = anc[-1] if anc else {}
            gp = anc[-2] if len(anc) > 1 else {}
            ok = False
            if par.get('k') == 'let' and gp.get('k') == 'if' and 'Some' in repr(par.get('pat'))[:300]:
                ok = 'e' in gp and exits(gp['e'])
            elif par.get('k') in ('slet',) and par.get('init') is n and 'els' in par:
                ok = exits(par['els'])
            elif par.get('k') == 'match' and par.get('scrut') is n:
                none_arms = [a for a in par['arms'] if 'None' in repr(a['pat'])[:300] or a['pat'].get('k') == 'wild']
                ok = bool(none_arms) and all(exits(a['body']) for a in none_arms)
            sites.append((n, ok))
    for dpt in (0, 1, 2):
        vh = hfn if dpt == 0 else H.inlined_fn(ctx.facts, hfn, depth=dpt)
        sites.clear()
        H.walk(vh['body'], v)
        if sites:
            break
    if not sites:
        return True, 'not determined: no `error_len()` in the decoder (no hand-written replacement loop)', None
    bad = [n for n, ok in sites if not ok]
    ok = not bad
    return ok, '' if ok else ('the case "the error has no length" (`error_len()` is None: the input ends inside a character) does not '
                              'leave the replacement loop: the remaining input never gets shorter'), bad[0].get('ln') if bad else None


row('C01', 'reader::encoding::Encoding::decode', 'lossy-decode-ends-at-truncated-character', _lossy_decode_progress)


def _no_loop_or_index_arithmetic(ctx, hfn):
    """the segment index is the result of the search as it comes (`Ok(i) | Err(i) => i`): no loop moving it on and no
    arithmetic on it -- stepping over equal lengths makes a distance inside the segment before a duplicated vertex land on
    the zero-length segment"""
    bad = []

    def v(n, anc):
        if n.get('k') == 'loop':
            bad.append(('a loop', n))
        if n.get('k') in ('assignop',) or (n.get('k') == 'binary' and n.get('op') in ('Add', 'Sub') and (n.get('ty') == 'usize')):
            bad.append(('index arithmetic', n))
    for dpt in (0, 1):
        vh = hfn if dpt == 0 else H.inlined_fn(ctx.facts, hfn, depth=1)
        H.walk(vh['body'], v)
    ok = not bad
    return ok, '' if ok else ('the found index is adjusted after the search (%s): the position for a distance is no longer the one '
                              'on its own segment' % bad[0][0]), bad[0][1].get('ln') if bad else None


row('C19', CURVE + 'idx_of_dist', 'search-result-unadjusted', _no_loop_or_index_arithmetic)


def _all_leaves_trimmed(ctx, hfn):
    """the line handed back for re-examination is trimmed at the end on every path, whatever the encoding (a header followed
    by its line feed is not a header)"""
    import symeval as SE
    body = hfn['body']
    ev = SE.SymEval(None, budget=3000)
    try:
        tree = ev.seq(list(body.get('stmts', [])), body.get('expr'), {},
                      lambda env, tail: ev.value(tail, env) if tail is not None else ('v', {'k': 'unit'}),
                      kret=lambda vt, env=None: vt)
    except SE.Stop:
        return True, 'not determined', None
    for _p, l in SE.leaves(tree):
        ctx.env = {}
        if not OR(M('trim_end', ANY()), M('trim', ANY()), M('trim_end_matches', ANY(), ANY())).m(ctx, l):
            return False, 'on some path the current line is handed back untrimmed (with its line terminator)', \
                l.get('ln') if isinstance(l, dict) else None
    return True, '', None


row('C05', 'reader::decoder::Decoder::<R>::curr_line', 'current-line-trimmed', _all_leaves_trimmed)


def _combo_push_unconditional(ctx, hfn):
    """every valid `Combo*` record appends a colour: the push sits directly in the arm of the key, under no further test"""
    hits = []

    def v(n, anc):
        if n.get('k') == 'mcall' and n.get('name') == 'push':
            r = strip(n['recv'])
            if isinstance(r, dict) and r.get('k') == 'field' and r.get('n') == 'custom_combo_colors':
                def plain_if(a):
                    c = strip(a.get('c')) if a.get('k') == 'if' else None
                    return isinstance(c, dict) and c.get('k') != 'let' and 'TryDesugar' not in repr(c)[:400]
                guards = [a for a in anc if plain_if(a)]
                hits.append((n, guards))
    for dpt in (0, 1, 2):
        vh = hfn if dpt == 0 else H.inlined_fn(ctx.facts, hfn, depth=dpt)
        hits.clear()
        H.walk(vh['body'], v)
        if hits:
            break
    if not hits:
        return False, 'no push onto the combo colour list found', None
    bad = [h for h in hits if h[1]]
    ok = not bad
    return ok, '' if ok else 'a valid combo colour record is appended only under a further condition', bad[0][0].get('ln') if bad else None


row('C11', 'section::colors::decode::Colors::parse_colors' if False else '<section::colors::decode::Colors as decode::DecodeBeatmap>::parse_colors',
    'combo-record-always-appended', _combo_push_unconditional)


def _float_parser_rejections(ty, n_expected):
    def chk(ctx, hfn):
        """the limit-checking number parser rejects exactly: unparsable text, below -limit, above limit (and NaN for floats):
        each of these error kinds is produced at one place, and no other kind of the number error is produced by hand"""
        from collections import Counter
        best = Counter()
        for h2 in [hfn] + local_callees(ctx.facts, hfn, depth=3):
            H.walk(h2['body'], lambda x, a: best.update([x.get('name')]) if x.get('k') == 'path' and 'ParseNumberError::' in x.get('def', '')
                   and 'Ctor' in (x.get('dk') or '') else None)
        if not best:
            return False, 'no limit rejection found in the number parser', None
        allowed = {'NumberUnderflow', 'NumberOverflow', 'NaN'}     # (a helper shared with the floats may carry a dead NaN test for i32)
        need = {'NumberUnderflow', 'NumberOverflow'} | ({'NaN'} if ty != 'i32' else set())
        passthrough = {'InvalidFloat', 'InvalidInteger'}          # wrapping the std parse error
        extra = {k for k in best if k not in allowed and k not in passthrough}
        dup = {k: v for k, v in best.items() if k in allowed and v > 1}
        ok = not extra and not dup and all(k in best for k in need)
        return ok, '' if ok else ('the number parser produces %s; the format rejects only unparsable text and values beyond the '
                                  'limit%s, each at one place: a number the encoder writes can be refused'
                                  % (', '.join('%s x%d' % kv for kv in sorted(best.items())), ' and NaN' if ty != 'i32' else '')), None
    return chk


for _t, _n in (('i32', 2), ('f32', 3), ('f64', 3)):
    row('C04', '<%s as util::parse_number::ParseNumber>::parse_with_limits' % _t, 'rejects-only-beyond-limits:' + _t, _float_parser_rejections(_t, _n))
    row('C11', '<%s as util::parse_number::ParseNumber>::parse_with_limits' % _t, 'rejects-only-beyond-limits:' + _t, _float_parser_rejections(_t, _n))


def _node_banks_after_object_banks(ctx, hfn):
    """slider nodes start from the object's own sample banks: the object's bank field is read into `bank_info` before the
    per-node copies of it are made"""
    order = {}
    reads, clones = [], []

    def v(n, anc):
        order[id(n)] = len(order)
        if n.get('k') == 'mcall' and n.get('name') == 'read_custom_sample_banks' and len(n.get('args', [])) == 2 and \
                ctx.const_value(n['args'][1]) is True and L('bank_info').m(ctx, n['recv']):
            reads.append(n)
        if n.get('k') in ('call', 'mcall') and CONTAINS(M('clone', L('bank_info'))).m(ctx, n) and \
                ('from_elem' in (n.get('full') or '') + (n['f'].get('def', '') if n.get('k') == 'call' and isinstance(n.get('f'), dict) else '')
                 or n.get('name') in ('collect', 'resize')):
            clones.append(n)
    H.walk(hfn['body'], v)
    if not reads or not clones:
        return True, 'not determined (the bank read or the node copies were not found)', None
    ok = min(order[id(r)] for r in reads) < min(order[id(c)] for c in clones)
    return ok, '' if ok else ('the per-node bank infos are copied from `bank_info` before the object\'s own bank field is read into it: '
                              'nodes no longer inherit the object\'s banks'), clones[0].get('ln')


row('C14', HITOBJ, 'node-banks-after-object-banks', _node_banks_after_object_banks)
def _hold_end_first_piece(ctx, hfn):
    """the end time of a hold note is the text before the first `:` of its field -- the whole field when there is no colon:
    some `parse_num` of the function reads `<field>.split(':').next()` (a `split_once(':')` loses a bare end time)"""
    def res(e, depth=0):
        e = strip(e)
        while isinstance(e, dict) and depth < 8:
            depth += 1
            if e.get('k') == 'mcall' and e.get('name') in ('ok_or', 'ok_or_else', 'unwrap_or', 'unwrap_or_default', 'trim'):
                e = strip(e['recv'])
                continue
            if e.get('k') == 'local':
                its = unique_inits(ctx, e['name'])
                if len(its) > 1:
                    # a shadowing `let x = parse(x)?`: the binding that does not mention itself is the earlier one
                    nm = e['name']
                    its = [i for i in its if not any(y.get('k') == 'local' and y.get('name') == nm for y in _nodes(i))]
                if len(its) == 1 and strip(its[0]) is not e:
                    e = strip(its[0])
                    continue
            break
        return e
    for n, _a in find(ctx, hfn['body'], OR(M('parse_num', ANY()), C('ParseNumber>::parse', ANY()))):
        if 'Result<f64' not in (strip(n).get('ty') or ''):
            continue                    # (node sample sets are `:`-separated integers)
        t = res(strip(n)['recv'] if strip(n).get('k') == 'mcall' else strip(n)['args'][0])
        if isinstance(t, dict) and t.get('k') == 'mcall' and t.get('name') == 'next':
            q = res(t['recv'])
            if isinstance(q, dict) and q.get('k') == 'mcall' and q.get('name') in ('split', 'splitn') and q.get('args') and \
                    K(':').m(ctx, q['args'][-1]):
                return True, '', strip(n).get('ln')
    return False, ('no number of the line is read from `<field>.split(\':\').next()`: the end time of a hold note written without a '
                   'sample suffix is lost'), None


_hold_end_first_piece.positive = True
row('C14', HITOBJ, 'hold-end-is-first-colon-piece', _hold_end_first_piece)

# ------------------------------------------------------------------------------ C15
row('C15', None, 'const:BASE_SCORING_DIST', _const('section::hit_objects::BASE_SCORING_DIST', 100.0))
row('C15', 'section::hit_objects::decode::get_precision_adjusted_beat_len', 'clamp:osu/catch',
    _contains(BIN('Div', CLAMP(ANY(), K(10.0), K(10000.0)), K(100.0)), 'osu!/catch clamp [10, 10000] / 100'))
row('C15', 'section::hit_objects::decode::get_precision_adjusted_beat_len', 'clamp:taiko/mania',
    _contains(BIN('Div', CLAMP(ANY(), K(10.0), K(1000.0)), K(100.0)), 'taiko/mania clamp [10, 1000] / 100'))
row('C15', 'section::hit_objects::decode::get_precision_adjusted_beat_len', 'sv-as-beat-len',
    _let('slider_velocity_as_beat_len', BIN('Div', K(-100.0), L('slider_velocity'))))
row('C15', HO_FROM, 'velocity',
    _all_assign(['velocity'], BIN('Div', BIN('Mul', C('from', K(100.0)), F(L('difficulty'), 'slider_multiplier')),
                                  C('get_precision_adjusted_beat_len', L('slider_velocity'), L('beat_len'), ANY())),
                base='slider'))
row('C15', HO_FROM, 'leniency:object',
    _contains(CALLARG('sample_point', BIN('Add', OR(M('end_time_with_bufs', ANY(), ANY()), M('end_time', ANY())), K(5.0))),
              'object samples looked up 5 ms after the end (for every kind of object)'),
    keep=('end_time_with_bufs', 'end_time', 'sample_point_at'))
def _all_sample_lookups_lenient(ctx, hfn):
    """every sample-point lookup of the conversion (object and slider nodes) is made 5 ms late"""
    calls = find(ctx, hfn['body'], M('sample_point_at', ANY(), ANY()))
    if len(calls) < 2:
        return False, 'expected the object and the node sample-point lookups, found %d' % len(calls), None
    for n, _anc in calls:
        arg = strip(n)['args'][0]
        ctx.env = {}
        if not BIN('Add', ANY(), K(5.0)).m(ctx, arg):
            return False, 'a sample point is looked up without the 5 ms leniency', strip(n).get('ln')
    return True, '', strip(calls[0][0]).get('ln')


_all_sample_lookups_lenient.positive = True
row('C15', HO_FROM, 'leniency:nodes', _all_sample_lookups_lenient, keep=('sample_point_at',))
row('C15', HO_FROM, 'default-beat-len',
    _let('beat_len', OPT_OR(M('timing_point_at', ANY(), F(L('h'), 'start_time')), K(1000.0))))
row('C15', HO_FROM, 'default-slider-velocity',
    _let('slider_velocity', OPT_OR(M('difficulty_point_at', ANY(), F(L('h'), 'start_time')), K(1.0))))
row('C15', HO_FROM, 'stable-sort',
    _contains(M('sort_by', L('hit_objects'), ANY(), defsuffix='sort_by'), 'stable sort of the hit objects'))
row('C15', HO_FROM, 'no-unstable-sort',
    _not_contains(OR(M('sort_unstable_by', ANY(), ANY()), M('sort_unstable_by_key', ANY(), ANY()), M('sort_unstable', ANY())),
                  'hit objects are sorted with an unstable sort: file order among equal start times is lost'))
row('C15', 'section::hit_objects::slider::HitObjectSlider::duration_with_bufs', 'duration',
    _ret(BIN('Div', BIN('Mul', C('from', M('span_count', ANY())), M('dist', ANY())), F(L('self'), 'velocity'))))
row('C15', 'section::hit_objects::slider::HitObjectSlider::span_count', 'span_count',
    _ret(BIN('Add', F(L('self'), 'repeat_count'), K(1))))

PPB = 'section::hit_objects::decode::HitObjectsState::post_process_breaks'


def _break_forces_combo(ctx, hfn):
    """every break that ended before an object forces a new combo on it: the flag that is or-ed into
    `new_combo` only ever holds the constants true/false, `true` is guarded by nothing but the
    "break ended before the object starts" test and the cursor bounds, and it reaches circle, slider
    and spinner"""
    flags = set()
    applied = 0

    sites = H.new_combo_or_sites(ctx.facts, hfn)
    def _flag_value(r_):
        # `let force = passed > 0;` -- an immutable local stands for its initialiser
        x = strip(r_)
        if isinstance(x, dict) and x.get('k') == 'local':
            its = unique_inits(ctx, x['name'])
            if len(its) == 1 and isinstance(strip(its[0]), dict) and strip(its[0]).get('k') == 'binary':
                return its[0]
        return r_
    if sites:
        # no boolean flag that is set and reset: the slice-cursor spelling (count of the leading passed breaks > 0)
        from hp import slice_cursor_break_flag
        res = [slice_cursor_break_flag(ctx, hfn, _flag_value(r_)) for r_, _m, _n in sites]
        if all(r is not None for r in res):
            bad = [r for r in res if not r[0]]
            if bad:
                return False, bad[0][1], sites[0][2].get('ln')
            if sum(m_ for _r, m_, _n in sites) < 3:
                return False, 'the flag is not applied to circles, sliders and spinners', sites[0][2].get('ln')
            return True, '', sites[0][2].get('ln')
    for r_, mult, _n in sites:
        if strip(r_).get('k') == 'local':
            flags.add(strip(r_)['name'])
            applied += mult
    if len(flags) != 1:
        return False, 'no single flag is or-ed into `new_combo` (found %s)' % sorted(flags), None
    flag = next(iter(flags))
    if applied < 3:
        return False, 'the flag is not applied to circles, sliders and spinners (%d of 3)' % applied, None
    ALLOWED_FIELDS = {'end_time', 'start_time', 'breaks'}
    ALLOWED_METHODS = {'len', 'get', 'split_first', 'first', 'is_some', 'is_none', 'is_empty', 'as_slice', 'iter', 'peek',
                       'next', 'copied', 'cloned', 'is_some_and', 'next_if', 'peekable'}
    problems = []

    def guard_ok(c):
        bad = []

        def v(n, anc):
            if n.get('k') == 'field' and n.get('n') not in ALLOWED_FIELDS and not n.get('n', '').isdigit():
                bad.append('field `%s`' % n['n'])
            if n.get('k') == 'mcall' and n.get('name') not in ALLOWED_METHODS:
                bad.append('`.%s()`' % n['name'])
            if n.get('k') == 'call' and n['f'].get('k') == 'path' and n['f'].get('dk', '').startswith(('Fn', 'AssocFn')) \
                    and n['f'].get('name') not in ('Some', 'Ok'):
                bad.append('`%s()`' % n['f'].get('name'))
        H.walk(c, v)
        # the cursor the guard advances (`breaks.next_if(..)`): what it iterates over must be all the breaks
        seen_l = set()

        def vl(n, anc):
            if n.get('k') == 'index':
                ix = strip(n.get('i', n.get('idx', {})))
                if isinstance(ix, dict) and ix.get('k') == 'local' and ix.get('name') not in seen_l:
                    seen_l.add(ix['name'])
                    for i in ctx.inits.get(ix['name'], []):
                        if ctx.const_value(i) != 0 or isinstance(ctx.const_value(i), bool):
                            bad.append('a break cursor `%s` that does not start at the first break' % ix['name'])
            if n.get('k') == 'mcall' and n.get('name') in ('next_if', 'next_if_eq', 'peek', 'next', 'peek_mut'):
                r_ = strip(n['recv'])
                if isinstance(r_, dict) and r_.get('k') == 'local' and r_.get('name') not in seen_l:
                    seen_l.add(r_['name'])
                    for i in unique_inits(ctx, r_['name']):
                        if isinstance(i, dict):
                            H.walk(i, v)
        H.walk(c, vl)
        return bad

    def v2(n, anc):
        is_set = None
        if n.get('k') == 'assign' and strip(n['l']).get('k') == 'local' and strip(n['l'])['name'] == flag:
            is_set = n['r']
        elif n.get('k') == 'assignop' and strip(n['l']).get('k') == 'local' and strip(n['l'])['name'] == flag:
            problems.append(('the flag is combined with another value (`%s`)' % n.get('op'), n.get('ln')))
            return
        elif n.get('k') in ('slet', 'let') and flag in H.pat_bindings(n['pat']) and 'init' in n:
            is_set = n['init']
        if is_set is None:
            return
        v = ctx.const_value(is_set)
        if not isinstance(v, bool):
            problems.append(('the flag is set to a computed value', n.get('ln')))
            return
        if v is True:
            for a in anc:
                if a.get('k') == 'if':
                    bad = guard_ok(a['c'])
                    if bad:
                        problems.append(('only some of the passed breaks force a new combo (the guard uses %s)'
                                         % ', '.join(sorted(set(bad))), a.get('ln')))
                elif a.get('k') == 'match' and not a.get('src', '').startswith(('TryDesugar', 'ForLoop')):
                    bad = guard_ok(a['scrut'])
                    if bad:
                        problems.append(('only some of the passed breaks force a new combo (the guard uses %s)'
                                         % ', '.join(sorted(set(bad))), a.get('ln')))
    H.walk(hfn['body'], v2)
    # every object is visited: the list of hit objects is not split, offset or filtered
    objs = H.pat_bindings(hfn['params'][0])[0] if hfn.get('params') else None

    def v3(n, anc):
        if n.get('k') == 'mcall' and n.get('name') in ('split_first_mut', 'split_first', 'split_last_mut', 'split_at_mut', 'skip',
                                                       'take', 'step_by', 'filter', 'skip_while', 'take_while', 'chunks_mut'):
            cur = n
            while isinstance(cur, dict) and cur.get('k') == 'mcall':
                cur = strip(cur['recv'])
            if isinstance(cur, dict) and cur.get('k') == 'local' and cur.get('name') == objs:
                problems.append(('not every hit object is visited (`%s` on the object list): an object that follows a break '
                                 'may not get its new combo' % n['name'], n.get('ln')))
    H.walk(hfn['body'], v3)
    if problems:
        return False, problems[0][0], problems[0][1]
    return True, '', None


_break_forces_combo.positive = True
row('C15', PPB, 'break-forces-new-combo', _break_forces_combo)
row('C15', PPB, 'break-passed-test',
    _contains(BIN('Lt', F(ANY(), 'end_time'), F(ANY(), 'start_time')),
              'a break counts once it ended before the object starts'))

row('C15', TPN + 'difficulty::DifficultyPoint::new', 'slider-velocity-multiplier-clamped',
    _struct_init(TPN + 'difficulty::DifficultyPoint', 'slider_velocity', CLAMP(L('speed_multiplier'), K(0.1), K(10.0))))

# ------------------------------------------------------------------------------ C19
row('C19', CURVE + 'progress_to_dist', 'clamp*dist',
    _ret(BIN('Mul', CLAMP(L('progress'), K(0.0), K(1.0)), C('dist', L('lengths')), commutative=True)))
def _last_or_zero(ctx, hfn):
    """total distance = the last cumulative length, 0 for an empty list (combinator or match form)"""
    if _ret(M('unwrap_or', OR(M('copied', M('last', L('lengths'))), M('cloned', M('last', L('lengths')))), K(0.0)))(ctx, hfn)[0]:
        return True, '', None
    # slice-pattern form: `match lengths { [.., total] => *total, [] => 0.0 }` (arms in either order, or `if let`)
    import symeval as SE
    try:
        ev = SE.SymEval(None, budget=2000)
        body = hfn['body']
        tree = ev.seq(list(body.get('stmts', [])), body.get('expr'), {},
                      lambda env, tail: ev.value(tail, env) if tail is not None else ('v', {'k': 'unit'}),
                      kret=lambda vt, env=None: vt)
        if tree[0] == 'ite' and tree[1][0] == 'pat' and tree[2][0] == 'v' and tree[3][0] == 'v' and L('lengths').m(ctx, tree[1][2]):
            pat = tree[1][1]
            while isinstance(pat, dict) and pat.get('k') == 'pref':
                pat = pat['p']
            th, el = strip(tree[2][1]), strip(tree[3][1])
            last_el = INDEX(L('lengths'), BIN('Sub', M('len', L('lengths')), K(1)))
            if pat.get('k') == 'pslice' and pat.get('rest') and not pat.get('before') and len(pat.get('after', [])) == 1 \
                    and isinstance(th, dict) and ((th.get('k') == 'local' and pat['after'][0].get('k') == 'bind' and
                                                   th.get('name') == pat['after'][0]['name']) or last_el.m(ctx, th)) \
                    and ctx.const_value(el) == 0.0:
                return True, '', None
            if pat.get('k') == 'pslice' and not pat.get('rest') and not pat.get('before') and not pat.get('after') \
                    and ctx.const_value(th) == 0.0:
                # `[] => 0.0, [.., total] => *total` : the second arm is exhaustive
                if isinstance(el, dict) and (el.get('k') == 'local' or INDEX(L('lengths'), BIN('Sub', M('len', L('lengths')), K(1))).m(ctx, el)):
                    return True, '', None
    except SE.Stop:
        pass
    last = find(ctx, hfn['body'], M('last', L('lengths')))
    lits = []
    other = []

    def visit(n, anc):
        if n.get('k') == 'lit' and n.get('t') in ('float', 'int'):
            lits.append(n.get('v'))
        if n.get('k') in ('binary', 'index') or (n.get('k') == 'mcall' and n.get('name') in ('first', 'get', 'iter', 'len')):
            other.append(n)
    H.walk(hfn['body'], visit)
    ok = len(last) == 1 and lits == [0.0] and not other
    return ok, '' if ok else 'the total distance is not `the last cumulative length, or 0.0 if there is none`', None


row('C19', CURVE + 'dist', 'last-or-zero', _last_or_zero)
def _numeric_search(ctx, hfn):
    """the search comparator orders a cumulative length against the distance as numbers: `len.partial_cmp(&d)` or the
    `<` / `>` comparisons that mean the same (NaN: equal)"""
    if find(ctx, hfn['body'], M('partial_cmp', ANY(), L('d'))):
        return True, '', None
    lt = find(ctx, hfn['body'], IF(BIN('Lt', ANY(), L('d')), CONTAINS(P('Ordering::Less')), ANY()))
    gt = find(ctx, hfn['body'], IF(BIN('Gt', ANY(), L('d')), CONTAINS(P('Ordering::Greater')), ANY()))
    if lt and gt and find(ctx, hfn['body'], M('binary_search_by', ANY(), ANY())):
        return True, '', None
    return False, 'the segment is not found by comparing cumulative lengths with the distance as numbers', None


_numeric_search.positive = True
row('C19', CURVE + 'idx_of_dist', 'numeric-search', _numeric_search)
row('C19', CURVE + 'idx_of_dist', 'no-bit-pattern-comparison',
    _not_contains(OR(M('to_bits', ANY()), M('total_cmp', ANY(), ANY())),
                  'lengths are compared by bit pattern / total order: -0.0 and 0.0 (a progress of -0.0) no longer compare equal'))
row('C19', CURVE + 'position_at', 'composition:dist', _let('d', C('progress_to_dist', L('lengths'), L('progress'))))
row('C19', CURVE + 'position_at', 'composition:idx', _let('i', C('idx_of_dist', L('lengths'), L('d'))))
row('C19', CURVE + 'position_at', 'composition:interpolate',
    _ret(C('interpolate_vertices', L('path'), L('lengths'), L('i'), L('d'))))



def _raw_param_only_through(pidx, accept, what):
    """the raw value of parameter #pidx is used only as an argument of one of `accept` (pattern
    constructors applied to the parameter): it cannot reach the result unclamped"""
    def chk(ctx, hfn):
        names = H.pat_bindings(hfn['params'][pidx]) if len(hfn.get('params', [])) > pidx else []
        if len(names) != 1:
            return False, 'parameter #%d not found' % pidx, None
        name = names[0]
        if ctx.inits.get(name):
            return False, 'parameter `%s` is re-bound before it is used' % name, None
        pats = [mk(L(name)) for mk in accept]
        bad = []

        def visit(n, anc):
            if n.get('k') == 'local' and n.get('name') == name:
                # nearest ancestors up to the first call
                for a in reversed(anc):
                    if a.get('k') in ('addr',) or (a.get('k') == 'unary' and a.get('op') == 'Deref'):
                        continue
                    ctx.env = {}
                    if not any(p.m0(ctx, a) for p in pats):
                        bad.append(n)
                    break
        H.walk(hfn['body'], visit)
        ok = not bad
        return ok, '' if ok else ('the raw `%s` is used outside %s: a value outside [0, 1] is not clamped on that path'
                                  % (name, what)), bad[0].get('ln') if bad else None
    return chk


row('C19', CURVE + 'position_at', 'raw-progress-only-clamped',
    _raw_param_only_through(2, [lambda p: C('progress_to_dist', ANY(), p), lambda p: CLAMP(p, K(0.0), K(1.0))],
                            'progress_to_dist / clamp(0, 1)'))
row('C19', CURVE + 'progress_to_dist', 'raw-progress-only-clamped',
    _raw_param_only_through(1, [lambda p: CLAMP(p, K(0.0), K(1.0))], 'clamp(0, 1)'))
IV = CURVE + 'interpolate_vertices'
def _interp_table(ctx, hfn, parts_only=None):
    """interpolate_vertices(path, lengths, i, d) as a decision table (symbolic evaluation; early returns, an if/else
    chain or a segment helper give the same tree):
      empty path -> default;  i == 0 -> path[0];  i beyond the path -> the last vertex;
      |lengths[i-1] - lengths[i]| <= EPSILON -> path[i-1] (no division);
      else path[i-1] + (path[i] - path[i-1]) * ((d - lengths[i-1]) / (lengths[i] - lengths[i-1])) as f32"""
    import symeval as SE
    import itertools
    if parts_only:
        PATH, LENS, I, D = parts_only
    else:
        ps = [H.pat_bindings(p_)[0] for p_ in hfn.get('params', []) if H.pat_bindings(p_)]
        if len(ps) != 4:
            return False, 'unexpected signature of the interpolation function', None
        PATH, LENS, I, D = (L(x) for x in ps)
        ev = SE.SymEval(None, budget=8000)
        body = hfn['body']
        try:
            tree = ev.seq(list(body.get('stmts', [])), body.get('expr'), {},
                          lambda env, tail: ev.value(tail, env) if tail is not None else ('v', {'k': 'unit'}),
                          kret=lambda vt, env=None: vt)
        except SE.Stop:
            return False, 'function too large to evaluate symbolically', None
    P0 = INDEX(PATH, BIN('Sub', I, K(1)))
    D0 = INDEX(LENS, BIN('Sub', I, K(1)))
    D1 = INDEX(LENS, I)
    P1 = OR(INDEX(PATH, I), UN('Deref', ANY()), ANY())         # the vertex `path.get(i)` yielded (pattern-bound)
    zero = OR(BIN('Le', M('abs', BIN('Sub', D0, D1, commutative=True)), K(2.220446049250313e-16)),
              BIN('Lt', M('abs', BIN('Sub', D0, D1, commutative=True)), K(2.220446049250313e-16)))
    lerp = BIN('Add', P0, BIN('Mul', BIN('Sub', P1, P0), CAST(BIN('Div', BIN('Sub', D, D0), BIN('Sub', D1, D0)), 'f32')))

    def classify(c):
        if c[0] == 'pat':
            pat = c[1]
            if 'Some' in repr(pat)[:400] and M('get', PATH, I).m(ctx, c[2]):
                return ('some', True)
            if "'None'" in repr(pat)[:400] and M('get', PATH, I).m(ctx, c[2]):
                return ('some', False)
            if 'Some' in repr(pat)[:400] and M('first', PATH).m(ctx, c[2]):
                return ('empty', False)
            if "'None'" in repr(pat)[:400] and M('first', PATH).m(ctx, c[2]):
                return ('empty', True)
            p0 = pat
            while isinstance(p0, dict) and p0.get('k') == 'pref':
                p0 = p0['p']
            if isinstance(p0, dict) and p0.get('k') == 'pslice' and PATH.m(ctx, c[2]):
                n_el = len(p0.get('before', [])) + len(p0.get('after', []))
                if n_el == 0 and not p0.get('rest'):
                    return ('empty', True)                 # `[]`
                if n_el == 1 and p0.get('rest'):
                    return ('empty', False)                # `[first, ..]` / `[.., last]`: any non-empty path
            return None
        e = strip(c[1])
        pol = True
        while isinstance(e, dict) and e.get('k') == 'unary' and e.get('op') == 'Not':
            e = strip(e['e'])
            pol = not pol
        if M('is_empty', PATH).m(ctx, e):
            return ('empty', pol)
        if BIN('Eq', I, K(0), commutative=True).m(ctx, e):
            return ('i0', pol)
        if BIN('Ne', I, K(0), commutative=True).m(ctx, e):
            return ('i0', not pol)
        if zero.m(ctx, e):
            return ('zero', pol)
        # `i >= path.len()` / `i < path.len()`: whether vertex i exists
        if BIN('Ge', I, M('len', PATH)).m(ctx, e) or BIN('Le', M('len', PATH), I).m(ctx, e):
            return ('some', not pol)
        if BIN('Lt', I, M('len', PATH)).m(ctx, e) or BIN('Gt', M('len', PATH), I).m(ctx, e):
            return ('some', pol)
        return None

    def run(t, val):
        while t[0] == 'ite':
            cl = classify(t[1])
            if cl is None:
                return None
            t = t[2] if val[cl[0]] == cl[1] else t[3]
        return t[1]
    want = want_rows = [
        ({'empty': True}, C('default'), 'an empty path gives the default position'),
        ({'empty': False, 'i0': True}, INDEX(PATH, K(0)), 'index 0 gives the first vertex'),
        ({'empty': False, 'i0': False, 'some': False}, INDEX(PATH, BIN('Sub', M('len', PATH), K(1))), 'an index beyond the path gives the last vertex'),
        ({'empty': False, 'i0': False, 'some': True, 'zero': True}, P0, 'a (near) zero-length segment gives its first vertex instead of dividing'),
        ({'empty': False, 'i0': False, 'some': True, 'zero': False}, lerp,
         'otherwise the position is p0 + (p1 - p0) * ((d - d0) / (d1 - d0))'),
    ]
    if parts_only:
        return classify, want_rows
    for fixed, pat, what in want:
        free = [k_ for k_ in ('empty', 'i0', 'some', 'zero') if k_ not in fixed]
        for bits in itertools.product((True, False), repeat=len(free)):
            val = dict(fixed)
            val.update(zip(free, bits))
            leaf = run(tree, val)
            if leaf is None:
                return False, 'cannot tell: the interpolation tests something other than (empty?, i == 0?, vertex i exists?, zero-length segment?)', None
            if not pat.m(ctx, leaf):
                unresolved = []
                H.walk(leaf if isinstance(leaf, dict) else {}, lambda n, a: unresolved.append(n) if n.get('k') == 'local' and n.get('name') not in ps else None)
                return False, ('cannot tell: ' if unresolved else '') + '%s; the function yields something else there' % what, None
    return True, '', None


_IV_SHAPE_ROWS = {
    # the earlier, spelling-bound form of the same facts: used only where the table cannot tell (slice patterns binding
    # the first / last vertex, pattern-bound indices)
    'zero-length-segment-guard':
        _contains(IF(OR(BIN('Le', M('abs', BIN('Sub', L('d0'), L('d1'), commutative=True)), ANY()),
                        BIN('Lt', M('abs', BIN('Sub', L('d0'), L('d1'), commutative=True)), ANY())),
                     CONTAINS(RET(L('p0')))),
                  'a (near) zero-length segment returns its first vertex instead of dividing'),
    'weight': _let('w', BIN('Div', BIN('Sub', L('d'), L('d0')), BIN('Sub', L('d1'), L('d0')))),
    'lerp': _ret(BIN('Add', L('p0'), BIN('Mul', BIN('Sub', L('p1'), L('p0')), CAST(L('w'), 'f32')))),
    'segment': _let('p0', INDEX(L('path'), BIN('Sub', L('i'), K(1)))),
    'segment-lengths:d0': _let('d0', INDEX(L('lengths'), BIN('Sub', L('i'), K(1)))),
    'segment-lengths:d1': _let('d1', INDEX(L('lengths'), L('i'))),
}


def _interp_row(label):
    def chk(ctx, hfn):
        res = (False, '', None)
        definite = False
        for dpt in (0, 1, 2):
            vh = hfn if dpt == 0 else H.inlined_fn(ctx.facts, hfn, depth=dpt)
            c2 = Ctx(ctx.facts, H.binding_inits(vh), vh) if dpt else ctx
            r = _interp_table(c2, vh)
            if r[0]:
                return r
            if not r[1].startswith('cannot tell'):
                definite = True
            if dpt == 0:
                res = r
        if definite:
            return res
        r2 = _IV_SHAPE_ROWS[label](ctx, hfn)
        if r2[0]:
            return True, '', None
        for dpt in (1, 2):
            vh = H.inlined_fn(ctx.facts, hfn, depth=dpt)
            c2 = Ctx(ctx.facts, H.binding_inits(vh), vh)
            if _IV_SHAPE_ROWS[label](c2, vh)[0]:
                return True, '', None
        return r2
    return chk


for _lbl in ('zero-length-segment-guard', 'weight', 'lerp', 'segment', 'segment-lengths:d0', 'segment-lengths:d1'):
    row('C19', IV, _lbl, _interp_row(_lbl))


class SAME(Pat):
    """the very expression `e` (after symbolic substitution): structural equality without positions/types"""

    def __init__(self, e):
        self.c = canon(strip(e))

    def m0(self, ctx, e):
        return canon(strip(e)) == self.c


def _position_is_interpolation(ctx, hfn):
    """position_at(path, lengths, progress), as a decision tree: every path ends in the interpolation
    interpolate(path, lengths, idx(lengths, d), d) -- the function whose table the rows above decide -- or, where it
    answers itself, in exactly what that table prescribes under the conditions tested on the way (a shortcut
    `if path.is_empty() { return Pos::default() }` is the table's first row; a shortcut under any other test is not the
    position the interpolation would give)."""
    import symeval as SE
    import itertools
    facts = ctx.facts
    ev = SE.SymEval(None, budget=8000)
    body = hfn['body']
    try:
        tree = ev.seq(list(body.get('stmts', [])), body.get('expr'), {},
                      lambda env, tail: ev.value(tail, env) if tail is not None else ('v', {'k': 'unit'}),
                      kret=lambda vt, env=None: vt)
    except SE.Stop:
        return False, 'function too large to evaluate symbolically', None
    lv = SE.leaves(tree)
    pnames = [H.pat_bindings(p_)[0] for p_ in hfn.get('params', []) if H.pat_bindings(p_)]

    def interp_call(leaf):
        e = strip(leaf)
        if isinstance(e, dict) and e.get('k') == 'call' and e['f'].get('k') == 'path' and len(e.get('args', [])) == 4:
            d = e['f'].get('def')
            if d == IV or (d and dict.__contains__(facts.hir, d) and
                           _interp_table(Ctx(facts, H.binding_inits(facts.hir[d]), facts.hir[d]), facts.hir[d])[0]):
                return e['args']
        return None
    calls = [(pc, interp_call(leaf)) for pc, leaf in lv]
    found = [a for _, a in calls if a is not None]
    if not found:
        return True, 'not determined here: no path ends in a call of the interpolation (inlined or restructured)', None
    a0 = found[0]
    for a in found:
        if [canon(strip(x)) for x in a] != [canon(strip(x)) for x in a0]:
            return False, 'the interpolation is called with different arguments on different paths', None
    for j, what in ((0, 'path'), (1, 'lengths')):
        x = strip(a0[j])
        while isinstance(x, dict) and x.get('k') in ('addr', 'unary'):
            x = strip(x['e'])
        if not (isinstance(x, dict) and x.get('k') == 'local' and x.get('name') in pnames):
            return False, 'the interpolation is not given the %s of the curve' % what, None
    classify, want = _interp_table(ctx, hfn, parts_only=(SAME(a0[0]), SAME(a0[1]), SAME(a0[2]), SAME(a0[3])))
    for (pc, leaf), (_, a) in zip(lv, calls):
        if a is not None:
            continue
        known = {}
        for c, pol in pc:
            cl = classify(c)
            if cl is not None:
                known[cl[0]] = (cl[1] == pol)
        rows_ = [(fx, pat, what) for fx, pat, what in want if all(known.get(k_, v_) == v_ for k_, v_ in fx.items())]
        bad = [what for fx, pat, what in rows_ if not pat.m(ctx, leaf)]
        if bad:
            ln = leaf.get('ln') if isinstance(leaf, dict) else None
            return False, ('a path answers without the interpolation although the tests on it do not establish that answer (%s)'
                           % bad[0]), ln
    return True, '', None


row('C19', CURVE + 'position_at', 'every-path-is-the-interpolation', _position_is_interpolation)
CLEN = CURVE + 'calculate_length'


def _fit_end_point(ctx, hfn):
    """length adjustment: the (new) last vertex lies on the last kept segment at the expected total length:
    path[end] = path[prev] + dir * (expected_len - cumulative_len[prev]) and the expected length is recorded for it"""
    hits = []

    def v(n, anc):
        if n.get('k') in ('assign', 'assignop') and isinstance(n['l'], dict) and strip(n['l']).get('k') == 'index':
            base = strip(strip(n['l'])['e'])
            if isinstance(base, dict) and base.get('k') == 'local' and (base.get('ty') or '').find('Pos') >= 0:
                hits.append(n)
    H.walk(hfn['body'], v)
    hits = [h for h in hits if L('path').m(ctx, strip(h['l'])['e'])]
    if len(hits) != 1:
        return False, '%d writes to a path vertex in the length adjustment (expected exactly the end point)' % len(hits), None
    h = hits[0]
    if h['k'] != 'assign' or not L('end_idx').m(ctx, strip(h['l'])['i']):
        return False, 'the end point is not assigned as a whole (`path[end_idx] = ..`)', h.get('ln')
    pat = BIN('Add', INDEX(L('path'), L('prev_idx')),
              BIN('Mul', L('dir'), CAST(BIN('Sub', L('expected_len'), INDEX(L('cumulative_len'), L('prev_idx'))), 'f32'),
                  commutative=True), commutative=True)
    ok = pat.m(ctx, h['r'])
    return ok, '' if ok else ('the end point is not `path[prev] + dir * (expected_len - cumulative_len[prev])`: the last vertex '
                              'would not sit at the expected total length'), h.get('ln')


def _lenshape(mode):
    def chk(ctx, hfn):
        import lenshape
        why = ''
        for dpt in (0, 1, 2, 3):
            vh = hfn if dpt == 0 else H.inlined_fn(ctx.facts, hfn, depth=dpt)
            ok, why, n = lenshape.check(ctx.facts, vh, mode)
            if ok:
                return True, '', None
            if 'not determined' not in why:
                break           # a definite finding; only "cannot tell" is retried with helpers inlined
        return False, why, None
    return chk


_path_lengths_in_step = _lenshape('in-step')
row('C19', CLEN, 'vertices-and-lengths-in-step', _path_lengths_in_step)


_fit_indices_in_range = _lenshape('underflow')
row('C19', CLEN, 'fit:indices-non-negative', _fit_indices_in_range)
row('C01', CLEN, 'fit:indices-non-negative', _fit_indices_in_range)
_fit_end_point.positive = True
row('C19', CLEN, 'fit:end-point', _fit_end_point)
row('C19', CLEN, 'fit:end_idx', _let('end_idx', M('len', L('cumulative_len'))))
row('C19', CLEN, 'fit:prev_idx', _let('prev_idx', BIN('Sub', L('end_idx'), K(1))))
row('C19', CLEN, 'fit:direction',
    _let('dir', M('normalize', BIN('Sub', INDEX(L('path'), L('end_idx')), INDEX(L('path'), L('prev_idx'))))))
row('C19', CLEN, 'fit:expected-length-recorded',
    _contains(M('push', L('cumulative_len'), L('expected_len')), 'the expected length becomes the last cumulative length'))
row('C19', CLEN, 'fit:last-valid',
    _let('last_valid', OR(OPT_OR(M('position', M('rev', M('iter', L('cumulative_len'))), ANY()), K(0)),
                          OPT_OR(M('rposition', OR(M('iter', L('cumulative_len')), L('cumulative_len')), ANY()), K(0),
                                 CONTAINS(BIN('Add', ANY(), K(1), commutative=True))))))

# ------------------------------------------------------------------------------ C20
row('C20', None, 'const:MAX_LEN', _const(EVENT + "SliderEventsIter::<'ticks_buf>::MAX_LEN", 100000.0))
row('C20', None, 'const:TAIL_LENIENCY', _const(EVENT + "SliderEventsIter::<'ticks_buf>::TAIL_LENIENCY", -36.0))
SEI = EVENT + "SliderEventsIter::<'ticks_buf>::new"
row('C20', SEI, 'len', _let('len', M('min', K(100000.0), L('total_dist'))))
def _tick_dist_clamped(ctx, hfn):
    # the stored tick distance is the parameter clamped to [0, len]: either the parameter is
    # re-assigned before it is stored, or the stored value is (a let bound to) the clamp
    pat = CLAMP(L('tick_dist'), K(0.0), L('len'))
    a = _all_assign([], pat, base='tick_dist')(ctx, hfn)
    if a[0]:
        return a
    b = _struct_init(EVENT + 'SliderEventsIter', 'tick_dist', pat)(ctx, hfn)
    return b if b[0] else a


_tick_dist_clamped.positive = True
row('C20', SEI, 'tick_dist-clamp', _tick_dist_clamped)
row('C20', SEI, 'min_dist_from_end',
    _struct_init(EVENT + 'SliderEventsIter', 'min_dist_from_end', BIN('Mul', L('velocity'), K(10.0), commutative=True)))
row('C20', SEI, 'initial-state', _struct_init(EVENT + 'SliderEventsIter', 'state', P('SliderEventsIterState::Head')))

# closed forms of head, ticks, repeats, last tick and tail ("have their closed-form times and progress values")
NXT = "<" + EVENT + "SliderEventsIter<'_> as std::iter::Iterator>::next"
GENT = EVENT + 'generate_ticks'
REPT = EVENT + 'new_repeat_point'
SELF_ = L('self')
FROM = lambda p: OR(C('from', p), CAST(p, 'f64'))
SPAN_START = lambda idx: BIN('Add', F(ANY(), 'start_time'), BIN('Mul', FROM(idx), F(ANY(), 'span_duration'), commutative=True))
FINAL_IDX = BIN('Sub', F(SELF_, 'span_count'), K(1))
EVENT_FORMS = {
    'Head': {'span_idx': K(0), 'span_start_time': F(SELF_, 'start_time'), 'time': F(SELF_, 'start_time'),
             'path_progress': K(0.0)},
    'LastTick': {'span_idx': FINAL_IDX, 'span_start_time': SPAN_START(FINAL_IDX),
                 'time': M('max', BIN('Add', F(SELF_, 'start_time'), BIN('Div', L('total_duration'), K(2.0))),
                           BIN('Add', BIN('Add', SPAN_START(FINAL_IDX), F(SELF_, 'span_duration')), K(-36.0)))},
    # (the LastTick progress -- (time - final span start) / span duration, mirrored on an even span count -- is decided by the
    #  symbolic rule `last-tick-mirrored-on-even-span-count`)
    'Tail': {'span_idx': FINAL_IDX, 'span_start_time': SPAN_START(FINAL_IDX),
             'time': BIN('Add', F(SELF_, 'start_time'), L('total_duration')),
             'path_progress': FROM(BIN('Rem', F(SELF_, 'span_count'), K(2)))},
}


def _event_literals(hfn):
    res = []

    def visit(n, anc):
        if n.get('k') == 'struct' and n.get('adt') == EVENT + 'SliderEvent':
            kind = None
            for f in n['fields']:
                if f['n'] == 'kind' and strip(f['e']).get('k') == 'path':
                    kind = strip(f['e'])['def'].rsplit('::', 1)[-1]
            res.append((kind, n))
    H.walk(hfn['body'], visit)
    return res


def _event_forms(kind):
    def chk(ctx, hfn):
        lits = [n for k, n in _event_literals(hfn) if k == kind]
        if len(lits) != 1:
            return False, 'expected exactly one `SliderEvent { kind: %s, .. }` literal, found %d' % (kind, len(lits)), None
        for f in lits[0]['fields']:
            pat = EVENT_FORMS[kind].get(f['n'])
            if pat is not None and not pmatch(ctx, pat, f['e']):
                return False, ('the %s event\'s `%s` does not have its closed form %r' % (kind, f['n'], pat)), f.get('ln')
        return True, '', lits[0].get('ln')
    chk.positive = True
    return chk


for _k in ('Head', 'LastTick', 'Tail'):
    row('C20', NXT, 'closed-form:' + _k, _event_forms(_k))
row('C20', NXT, 'total_duration', _let('total_duration', BIN('Mul', FROM(F(SELF_, 'span_count')), F(SELF_, 'span_duration'),
                                                             commutative=True)))


def _last_tick_mirror(ctx, hfn):
    """on an even span count the last tick's progress is mirrored (1 - p), otherwise it is p -- as the decision tree of the
    `path_progress` the LastTick event is built with (mutable local re-assigned under an `if`, an `if` expression, or a
    helper method: the same tree)"""
    import symeval as SE
    from hp import canon
    last_why = ''
    for dpt in (0, 1, 2):
        vh = hfn if dpt == 0 else H.inlined_fn(ctx.facts, hfn, depth=dpt)
        c2 = Ctx(ctx.facts, H.binding_inits(vh), vh)
        arms = []

        def va(n, anc):
            if n.get('k') == 'match' and not n.get('src', '').startswith('TryDesugar'):
                for a_ in n['arms']:
                    if 'SliderEventsIterState::LastTick' in repr(a_['pat']):
                        arms.append(a_['body'])
        H.walk(vh['body'], va)
        if len(arms) != 1:
            last_why = 'expected one LastTick state arm, found %d' % len(arms)
            continue
        found = []
        own = {}

        def query(st, env, ev):
            lits = []

            def vs(n, anc):
                if n.get('k') == 'struct' and (n.get('adt') or '').endswith('SliderEvent'):
                    kd = [f for f in n['fields'] if f['n'] == 'kind']
                    if kd and 'LastTick' in repr(kd[0]['e']):
                        lits.append(n)
            holders = []

            def vs2(n, anc):
                if n.get('k') == 'struct' and (n.get('adt') or '').endswith('SliderEvent'):
                    kd = [f for f in n['fields'] if f['n'] == 'kind']
                    if kd and 'LastTick' in repr(kd[0]['e']):
                        blks = [a_ for a_ in anc if a_.get('k') == 'block' and a_.get('stmts')]
                        holders.append(blks[-1] if blks else None)
            if isinstance(st, dict) and st.get('k') in ('ret', 'call', 'struct', 'slet'):
                H.walk(st, vs)
                H.walk(st, vs2)
            if lits:
                pp = [f for f in lits[0]['fields'] if f['n'] == 'path_progress']
                if pp:
                    blk = holders[0] if holders else None
                    def grab(env2):
                        for fn_ in ('time', 'span_start_time'):
                            ff = [f for f in lits[0]['fields'] if f['n'] == fn_]
                            if ff:
                                own[fn_] = ev.subst(ff[0]['e'], env2)
                        return ev.value(pp[0]['e'], env2)
                    if blk is not None and blk is not st:
                        # the literal is built by a helper that was inlined: run the helper's statements first
                        t = ev.seq(list(blk.get('stmts', [])), None, dict(env), lambda env2, tl: grab(env2),
                                   kret=lambda vt, env2=None: ('v', {'k': 'returned'}))
                    else:
                        t = grab(env)
                    found.append(t)
                    return t
            return None
        ev = SE.SymEval(query, budget=8000)
        body = arms[0]
        try:
            if body.get('k') == 'block':
                tree = ev.seq(list(body.get('stmts', [])), body.get('expr'), {}, lambda env, tl: (
                    query(tl, env, ev) or ('v', {'k': 'end'})) if tl is not None else ('v', {'k': 'end'}),
                    kret=lambda vt, env=None: ('v', {'k': 'returned'}))
            else:
                tree = query(body, {}, ev) or ('v', {'k': 'end'})
        except SE.Stop:
            last_why = 'LastTick arm too large to evaluate'
            continue
        if not found:
            last_why = 'no LastTick event literal found in the LastTick state'
            continue
        t = found[0] if tree[0] == 'v' and isinstance(tree[1], dict) and tree[1].get('k') in ('end', 'returned') else tree
        # strip conditions above that do not concern the progress (none expected)
        if t[0] != 'ite':
            last_why = 'the last tick progress does not depend on the parity of the span count'
            continue
        _, c, th, el = t
        if c[0] != 'e' or th[0] != 'v' or el[0] != 'v':
            last_why = 'the last tick progress is decided by more than the parity of the span count'
            continue
        ce = strip(c[1])
        even = None
        if BIN('Eq', BIN('Rem', F(ANY(), 'span_count'), K(2)), K(0)).m(c2, ce):
            even = True
        elif BIN('Ne', BIN('Rem', F(ANY(), 'span_count'), K(2)), K(0)).m(c2, ce) or \
                BIN('Eq', BIN('Rem', F(ANY(), 'span_count'), K(2)), K(1)).m(c2, ce):
            even = False
        if even is None:
            last_why = 'the last tick progress is not mirrored exactly when the span count is even'
            continue
        mirrored, plain = (th[1], el[1]) if even else (el[1], th[1])
        m0 = strip(mirrored)
        ok = isinstance(m0, dict) and m0.get('k') == 'binary' and m0.get('op') == 'Sub' and \
            c2.const_value(m0['a']) == 1.0 and canon(strip(m0['b'])) == canon(strip(plain))
        if not ok:
            last_why = 'on an even span count the last tick progress is not `1 - progress` of the same progress'
            continue
        # the progress itself: (the event's own time - the final span's start) / span duration
        p0_ = strip(plain)
        okp = isinstance(p0_, dict) and p0_.get('k') == 'binary' and p0_.get('op') == 'Div' and \
            F(ANY(), 'span_duration').m(c2, p0_['b']) and isinstance(strip(p0_['a']), dict) and \
            strip(p0_['a']).get('k') == 'binary' and strip(p0_['a']).get('op') == 'Sub' and \
            'time' in own and 'span_start_time' in own and \
            canon(strip(strip(p0_['a'])['a'])) == canon(strip(own['time'])) and \
            canon(strip(strip(p0_['a'])['b'])) == canon(strip(own['span_start_time']))
        if okp:
            return True, '', None
        last_why = ('the last tick progress is not (its time - the final span\'s start time) / span duration of the '
                    'same event')
    return False, last_why, None


row('C20', NXT, 'last-tick-mirrored-on-even-span-count', _last_tick_mirror)
SPANP = PARAM_TY('i32')      # the span index handed to generate_ticks (whatever it is called)
row('C20', GENT, 'reversed', _let('reversed', BIN('Eq', BIN('Rem', SPANP, K(2)), K(1))))
row('C20', GENT, 'span_start_time', _let('span_start_time', SPAN_START(SPANP)))
row('C20', GENT, 'with_repeat', _let('with_repeat', BIN('Lt', SPANP, BIN('Sub', F(ANY(), 'span_count'), K(1)))))
# the tick distances of a span: tick_dist, 2*tick_dist, .. (by repeated addition) while d <= len and d is not within
# min_dist_from_end of the end -- as a `while` loop with a `break`, or as `successors(..).take_while(..)`
_TD = OR(F(ANY(), 'tick_dist'), L('tick_dist'))
_LEN = OR(F(ANY(), 'len'), L('len'))
_MINEND = OR(F(ANY(), 'min_dist_from_end'), L('min_dist_from_end'))


def _either(pat_loop, pat_iter, what):
    def chk(ctx, hfn):
        for pat in (pat_loop, pat_iter):
            if find(ctx, hfn['body'], pat):
                return True, '', None
        return False, '%s not found (neither as a loop nor as an iterator pipeline)' % what, None
    chk.positive = True
    return chk


def _first_tick(ctx, hfn):
    r = _let('d', F(ANY(), 'tick_dist'))(ctx, hfn)
    if r[0]:
        return r
    if find(ctx, hfn['body'], C('successors', C('Some', _TD), ANY())):
        return True, '', None
    return r


_first_tick.positive = True
row('C20', GENT, 'first-tick-distance', _first_tick)
row('C20', GENT, 'tick-step',
    _either(_ASSIGNOP('AddAssign', L('d'), F(ANY(), 'tick_dist')),
            C('successors', ANY(), CONTAINS(C('Some', BIN('Add', ANY(), _TD, commutative=True)))),
            'ticks advance by the tick distance (`d += tick_dist`)'))
row('C20', GENT, 'ticks-up-to-length',
    _either(IF(BIN('Le', L('d'), F(ANY(), 'len')), ANY()),
            M('take_while', ANY(), CONTAINS(BIN('Le', ANY(), _LEN))),
            'tick loop runs while d <= len'))
def _min_dist_from_end(ctx, hfn):
    """no tick within min_dist_from_end of the span end: `d >= len - min_dist_from_end` ends the span's ticks (a `break`
    in the loop form, a negated `take_while` condition in the iterator form)"""
    if find(ctx, hfn['body'], IF(BIN('Ge', L('d'), BIN('Sub', F(ANY(), 'len'), F(ANY(), 'min_dist_from_end'))), CONTAINS(BREAK()))):
        return True, '', None
    too_close = BIN('Ge', ANY(), BIN('Sub', _LEN, _MINEND))
    tw = find(ctx, hfn['body'], M('take_while', ANY(), CONTAINS(UN('Not', ANY()))))
    if tw and find(ctx, hfn['body'], too_close):
        # the negated test of the take_while is that comparison (directly or through a local closure)
        for n, _a in tw:
            cl = strip(strip(n)['args'][0])
            body = strip(cl['body']) if isinstance(cl, dict) and cl.get('k') == 'closure' else None
            if body is None:
                continue
            nots = []
            H.walk(body, lambda x, anc: nots.append(x) if x.get('k') == 'unary' and x.get('op') == 'Not' else None)
            for nt in nots:
                inner = strip(nt['e'])
                if too_close.m(ctx, inner):
                    return True, '', None
                if isinstance(inner, dict) and inner.get('k') == 'call' and strip(inner['f']).get('k') == 'local':
                    for i in ctx.inits.get(strip(inner['f'])['name'], []):
                        i2 = strip(i)
                        if isinstance(i2, dict) and i2.get('k') == 'closure' and too_close.m(ctx, strip(i2['body'])):
                            return True, '', None
    return False, ('no tick within min_dist_from_end of the span end (`d >= len - min_dist_from_end` ends the span) not found '
                   '(neither as a loop nor as an iterator pipeline)'), None


_min_dist_from_end.positive = True
row('C20', GENT, 'min-distance-from-end', _min_dist_from_end)
row('C20', GENT, 'tick:path_progress', _let('path_progress', BIN('Div', L('d'), F(ANY(), 'len'))))
row('C20', GENT, 'tick:time-mirrored-on-reversed-spans',
    _let('time_progres', IF(L('reversed'), BIN('Sub', K(1.0), L('path_progress')), L('path_progress'))))
_TICK = ('kind', 'SliderEventType::Tick')
_REPEAT = ('kind', 'SliderEventType::Repeat')
row('C20', GENT, 'tick:time',
    _struct_init(EVENT + 'SliderEvent', 'time',
                 BIN('Add', L('span_start_time'), BIN('Mul', L('time_progres'), F(ANY(), 'span_duration'), commutative=True)),
                 where=_TICK))
row('C20', GENT, 'tick:progress', _struct_init(EVENT + 'SliderEvent', 'path_progress', L('path_progress'), where=_TICK))
row('C20', GENT, 'tick:span', _struct_init(EVENT + 'SliderEvent', 'span_idx', SPANP, where=_TICK))
# the repeat event of a span (built by a helper of generate_ticks today: the rows see it through inlining)
row('C20', GENT, 'repeat:time',
    _struct_init(EVENT + 'SliderEvent', 'time', BIN('Add', L('span_start_time'), OR(L('span_duration'), F(ANY(), 'span_duration'))),
                 where=_REPEAT))
row('C20', GENT, 'repeat:progress',
    _struct_init(EVENT + 'SliderEvent', 'path_progress', FROM(BIN('Rem', BIN('Add', SPANP, K(1)), K(2))), where=_REPEAT))
row('C20', GENT, 'repeat:span', _struct_init(EVENT + 'SliderEvent', 'span_idx', SPANP, where=_REPEAT))


def local_callees(facts, hfn, depth=2, seen=None):
    """crate-local functions called (transitively, bounded) from hfn, in call order"""
    seen = seen if seen is not None else {hfn['path']}
    res = []

    def visit(n, anc):
        d = None
        if n.get('k') == 'call' and n['f'].get('k') == 'path':
            d = n['f'].get('def')
        elif n.get('k') == 'mcall':
            d = n.get('def')
        if d and d not in seen and dict.__contains__(facts.hir, d):
            seen.add(d)
            res.append(facts.hir[d])
    H.walk(hfn['body'], visit)
    if depth > 1:
        for h2 in list(res):
            res.extend(local_callees(facts, h2, depth - 1, seen))
    return res


def run(facts, out, props=None):
    n = 0
    for r in ROWS:
        if props and r.prop not in props:
            continue
        rule = 'SC-' + r.prop
        if r.fn is None:
            ctx = Ctx(facts)
            ok, why, ln = r.check(ctx, None)
            out.add(rule, 'const', r.label, 'crate', ok, why, ordinal=False)
            n += 1
            continue
        hfn = facts.hir.get(r.fn)
        if hfn is None:
            out.anchor(rule, 'function ' + r.fn, False, 'needed by row ' + r.label)
            continue
        ctx = Ctx(facts, H.binding_inits(hfn), hfn)
        ok, why, ln = r.check(ctx, hfn)
        if not ok and getattr(r.check, 'positive', False):
            # the code the row describes may have been moved into a private helper of this function
            for h2 in local_callees(facts, hfn):
                c2 = Ctx(facts, H.binding_inits(h2), h2)
                ok2, _w2, ln2 = r.check(c2, h2)
                if ok2:
                    ok, why, ln = True, '', None
                    break
            if not ok:
                # ... or spread over a pipeline of helpers: look at the function with its crate-local calls inlined
                # (one level first: deeper inlining also dissolves the helper calls a row may be about)
                for dpt in (1, 2, 3):
                    vh = H.inlined_fn(facts, hfn, depth=dpt, keep=getattr(r.check, 'keep', ()))
                    c3 = Ctx(facts, H.binding_inits(vh), vh)
                    ok3, _w3, ln3 = r.check(c3, vh)
                    if ok3:
                        ok, why, ln = True, '', None
                        break
        elif ok and getattr(r.check, 'negative', False):
            # a forbidden construct must not hide in a helper either
            vh = H.inlined_fn(facts, hfn, depth=2)
            c3 = Ctx(facts, H.binding_inits(vh), vh)
            ok3, w3, ln3 = r.check(c3, vh)
            if not ok3:
                ok, why, ln = False, w3, None
        b = facts.body(r.fn)
        file = b.file if b else 'src'
        out.add(rule, r.fn, r.label, '%s:%s' % (file, ln if ln else (b.line if b else 0)), ok, why, ordinal=False)
        n += 1
    return n


# ------------------------------------------------------------------------------ NF

NF_FUNCS = {
    'general': GEN,
    'editor': '<section::editor::Editor as decode::DecodeBeatmap>::parse_editor',
    'metadata': '<section::metadata::Metadata as decode::DecodeBeatmap>::parse_metadata',
    'difficulty': DIFF,
    'events': EVENTS,
    'colors': '<section::colors::decode::Colors as decode::DecodeBeatmap>::parse_colors',
    'timing_points': TIMING,
    'hit_objects': HITOBJ,
    'read_point': 'section::hit_objects::decode::HitObjectsState::convert_points::read_point',
    'bank_info': 'section::hit_objects::hit_samples::SampleBankInfo::read_custom_sample_banks',
    'color_from_str': '<section::colors::Color as std::str::FromStr>::from_str',
}
# raw `str::parse::<T>` allowed only here, one reason each
NF_EXCEPTIONS = {
    ('editor', 'i32'): 'bookmarks: the format allows the full i32 range, invalid entries are skipped',
    ('color_from_str', 'u8'): 'colour components are bytes; u8 parsing is its own range check',
    ('timing_points', 'f64'): 'beat length: NaN must survive on inherited lines; explicit +-MAX_PARSE_VALUE tests follow',
    ('general', 'section::hit_objects::hit_samples::SampleBank'): 'enum keyword/number, not a numeric field',
    ('general', 'section::general::GameMode'): 'enum number, exact match on "0".."3"',
    ('general', 'section::general::CountdownType'): 'enum keyword/number',
    ('events', 'section::events::EventType'): 'enum keyword/number',
    ('timing_points', 'section::timing_points::effect_flags::EffectFlags'): 'flag word (i32 bits)',
    ('hit_objects', 'section::hit_objects::HitObjectType'): 'flag word (i32 bits)',
    ('hit_objects', 'section::hit_objects::hit_samples::HitSoundType'): 'flag word, truncated to a byte',
    ('colors', 'section::colors::Color'): 'delegates to Color::from_str',
}
NUMERIC = {'i8', 'i16', 'i32', 'i64', 'u8', 'u16', 'u32', 'u64', 'usize', 'isize', 'f32', 'f64'}


def run_nf(facts, out):
    n = 0
    for tag, fn in NF_FUNCS.items():
        b = facts.body(fn)
        out.anchor('NF', 'function ' + fn, b is not None)
        if b is None:
            continue
        bodies = [b] + [facts.bodies[p] for p in facts.bodies if p.startswith(fn + '::{closure')]
        for bd in bodies:
            for bb, t in bd.calls():
                if bd.is_cleanup(bb):
                    continue
                c = callee_of(t)
                if not c:
                    continue
                if c['path'] == 'core::str::<impl str>::parse':
                    ty = c['targs'][0]['s'] if c['targs'] else '?'
                    n += 1
                    exc = NF_EXCEPTIONS.get((tag, ty))
                    numeric = ty in NUMERIC
                    ok = bool(exc) or not numeric
                    out.add('NF', fn, 'raw-parse:' + ty, loc_of(t['sp']), ok,
                            '' if ok else ('a number is read with raw `str::parse::<%s>` instead of the limit-checking '
                                           'ParseNumber (values beyond +-(2^31-1), NaN or inf would be accepted)') % ty,
                            {'exception': exc} if exc else None)
                elif c.get('trait') == 'util::parse_number::ParseNumber' or c['name'] in ('parse_num', 'parse_with_limits'):
                    n += 1
                    out.add('NF', fn, 'funnel:' + c['name'], loc_of(t['sp']), True, '', {'callee': c['full']})
        # fn items passed as values (e.g. `.map(i32::parse)`, `.map(str::parse)`)
        for bd in bodies:
            for blk in bd.blocks:
                if blk.get('cleanup'):
                    continue
                t = blk['term']
                if t['k'] != 'call':
                    continue
                for a in t['args']:
                    if a['k'] == 'const' and 'fn' in a:
                        f = a['fn']
                        if f['path'] == 'core::str::<impl str>::parse':
                            ty = f['targs'][0]['s'] if f['targs'] else '?'
                            n += 1
                            exc = NF_EXCEPTIONS.get((tag, ty))
                            ok = bool(exc) or ty not in NUMERIC
                            out.add('NF', fn, 'raw-parse-fn:' + ty, loc_of(t['sp']), ok,
                                    '' if ok else 'raw `str::parse::<%s>` passed as a function: bypasses the numeric limits' % ty,
                                    {'exception': exc} if exc else None)
                        elif f.get('trait') == 'util::parse_number::ParseNumber':
                            n += 1
                            out.add('NF', fn, 'funnel-fn:' + f['name'], loc_of(t['sp']), True, '', {'callee': f['full']})
    out.anchor('NF', 'numeric conversions in the parsers', n >= 15, '%d' % n)
    # timing beat length: explicit range tests dominate its use
    b = facts.body(TIMING)
    if b is not None:
        hfn = facts.hir.get(TIMING)
        ok = False
        # in the parser itself or in a private helper it calls (the local may be named differently there)
        for h2 in [hfn] + local_callees(facts, hfn, depth=3):
            ctx = Ctx(facts, H.binding_inits(h2), h2)
            lo = find(ctx, h2['body'], IF(BIN('Lt', L('beat_len'), C('from', UN('Neg', K(2147483647)))), ANY()))
            hi = find(ctx, h2['body'], BIN('Gt', L('beat_len'), C('from', K(2147483647))))
            if lo and hi:
                ok = True
        out.add('NF', TIMING, 'beat_len-range', '%s:%d' % (b.file, b.line), ok,
                '' if ok else 'the manually parsed beat length is not range-checked against +-MAX_PARSE_VALUE', ordinal=False)
