"""UG unsafe guards, AB allocation bounds, U8 encoder bytes, PX explicit panics (C01, C14)."""
from facts import op_const, callee_of, op_local, op_place, place_key, resolve_ref, value_def, field_path, place_str
from common import loc_of
import ed

MAX_ALLOC_BOUND = 65536


# ------------------------------------------------------------------ small helpers

def copies_of(body, l, limit=10):
    """follow `_a = copy/move _b` and IntToInt casts backwards; returns list of (local|None, place|None, casts)"""
    cur = l
    casts = []
    for _ in range(limit):
        defs = body.defs.get(cur, [])
        if len(defs) != 1 or defs[0][2] != 'assign':
            return cur, None, casts
        rv = defs[0][3]['rv']
        if rv['k'] == 'use':
            pl = op_place(rv['op'])
            if pl is None:
                return cur, rv['op'], casts
            if pl['p']:
                return None, pl, casts
            cur = pl['l']
            continue
        if rv['k'] == 'cast' and 'IntToInt' in rv['ck']:
            casts.append((rv['from']['s'], rv['ty']['s']))
            pl = op_place(rv['op'])
            if pl is None:
                return cur, rv['op'], casts
            if pl['p']:
                return None, pl, casts
            cur = pl['l']
            continue
        return cur, None, casts
    return cur, None, casts


INT_BITS = {'i8': 8, 'u8': 8, 'i16': 16, 'u16': 16, 'i32': 32, 'u32': 32, 'i64': 64, 'u64': 64,
            'isize': 64, 'usize': 64, 'i128': 128, 'u128': 128}


def nonzero_guard(op, k):
    """does `x <op> k` (true edge) imply x != 0 ?"""
    if k is None:
        return False
    if op == 'Ge':
        return k >= 1
    if op == 'Gt':
        return k >= 0
    if op == 'Ne':
        return k == 0
    if op == 'Eq':
        return k != 0
    return False


def comparison_of(body, l):
    """local l = <cmp>(copy P, const k) -> (op, place_key(P) or ('local', n), k)"""
    defs = body.defs.get(l, [])
    if len(defs) != 1 or defs[0][2] != 'assign':
        return None
    rv = defs[0][3]['rv']
    if rv['k'] != 'binop' or rv['op'] not in ('Ge', 'Gt', 'Ne', 'Eq', 'Lt', 'Le'):
        return None
    a, b = rv['a'], rv['b']
    if b['k'] != 'const' or 'v' not in b:
        return None
    al = op_local(a)
    if al is None:
        pl = op_place(a)
        return (rv['op'], place_key(pl), b['v']) if pl else None
    root, pl, casts = copies_of(body, al)
    if pl is not None and isinstance(pl, dict) and 'l' in pl:
        return (rv['op'], place_key(pl), b['v'])
    return (rv['op'], (root, ()), b['v'])


# ------------------------------------------------------------------ UG

def run_ug(facts, out):
    sites = []
    for p, b in sorted(facts.bodies.items()):
        for bb, t in b.calls():
            if t.get('unsafe_callee') and not t['sp'].get('exp'):
                sites.append((b, bb, t))
    blocks = [u for u in facts.items['unsafe_blocks'] if not u['sp'].get('exp')]
    out.add('UG', facts.crate, 'inventory', 'crate', True, '',
            {'unsafe_blocks': len(blocks), 'unsafe_calls': len(sites), 'trivial': True}, ordinal=False)
    # every user unsafe block must contain only recognised unsafe calls (no raw deref etc.)
    site_fns = {}
    for b, bb, t in sites:
        site_fns.setdefault(b.path, []).append(t)
    for u in blocks:
        ok = u['fn'] in site_fns
        out.add('UG', u['fn'], 'block', loc_of(u['sp']), ok,
                '' if ok else 'unsafe block without a recognised unsafe call: a new kind of unsafe operation '
                              'needs a rule before it is accepted', ordinal=True)
    for b in facts.bodies.values():
        for blk in b.blocks:
            for s in blk['st']:
                if s['k'] == 'assign' and "'raw': True" in repr(s) and not s['sp'].get('exp'):
                    out.add('UG', b.path, 'raw-deref', loc_of(s['sp']), False,
                            'raw pointer dereference: unrecognised unsafe operation')
    for b, bb, t in sites:
        c = callee_of(t)
        name = c['name']
        if c['path'].startswith('std::num::NonZero') and name == 'new_unchecked':
            ok, why = check_new_unchecked(facts, b, bb, t)
            out.add('UG', b.path, 'new_unchecked', loc_of(t['sp']), ok, why)
        elif c['path'] == 'std::str::from_utf8_unchecked':
            ok, why = check_from_utf8_unchecked(b, bb, t)
            out.add('UG', b.path, 'from_utf8_unchecked', loc_of(t['sp']), ok, why)
        elif c['path'] == 'std::slice::from_raw_parts':
            for (ok, why, what) in check_from_raw_parts(facts, b, bb, t):
                out.add('UG', b.path, 'from_raw_parts:' + what, loc_of(t['sp']), ok, why, ordinal=False)
        else:
            out.add('UG', b.path, 'unsafe-call:' + name, loc_of(t['sp']), False,
                    'call to unsafe fn `%s` has no guard rule: a new unsafe operation on the input path needs a rule'
                    % c['full'])


def check_new_unchecked(facts, b, bb, t):
    a = t['args'][0]
    if a['k'] == 'const':
        v = a.get('v')
        return (isinstance(v, int) and v != 0), ('' if v else 'new_unchecked(0)')
    l = op_local(a)
    if l is None:
        return False, 'argument of new_unchecked is not traceable'
    root, pl, casts = copies_of(b, l)
    for frm, to in casts:
        if INT_BITS.get(frm) != INT_BITS.get(to):
            return False, 'new_unchecked argument is cast between widths (%s -> %s): the guard does not transfer' % (frm, to)
    if pl is not None and isinstance(pl, dict) and pl.get('k') == 'const':
        v = pl.get('v')
        return (isinstance(v, int) and v != 0), ('' if v else 'new_unchecked(0)')
    if pl is not None and isinstance(pl, dict) and 'l' in pl:
        src = place_key(pl)
        # `(*_x)` where `_x = copy _1.k` (closure capture): normalise to (1, ('.k', '*'))
        if src[1] == ('*',):
            d0 = b.defs.get(src[0], [])
            if len(d0) == 1 and d0[0][2] == 'assign' and d0[0][3]['rv']['k'] == 'use':
                p0 = op_place(d0[0][3]['rv']['op'])
                if p0 is not None and p0['p']:
                    k0 = place_key(p0)
                    src = (k0[0], k0[1] + ('*',))
    else:
        src = (root, ())
    # (a) dominated by the true edge of a guarding comparison on the same place
    for db in sorted(b.dom.get(bb, [])):
        tt = b.term(db)
        if tt['k'] != 'switch':
            continue
        dl = op_local(tt['discr'])
        cmp_ = comparison_of(b, dl) if dl is not None else None
        if not cmp_:
            continue
        op, pk, k = cmp_
        if pk != src or not nonzero_guard(op, k):
            continue
        # the call must be reached through the non-zero ("true") edge only
        false_t = [tg for (lab, tg) in b.edges(db) if lab == 0]
        true_t = [tg for (lab, tg) in b.edges(db) if lab != 0]
        if true_t and all(b.dominates(x, bb) for x in true_t) and not any(b.dominates(x, bb) for x in false_t):
            # no write to the guarded place between guard and use
            if not _written_between(b, src, db, bb):
                return True, ''
            return False, 'the guarded value is modified between the guard and new_unchecked'
    # (b) closure passed to bool::then whose receiver is a guard on the captured value
    if b.path.endswith('}') and '{closure' in b.path:
        # src must be *(capture k)
        if src[0] == 1 and len(src[1]) >= 1 and src[1][0].startswith('.'):
            cap = int(src[1][0][1:]) if src[1][0][1:].isdigit() else None
            ok, why = _closure_then_guard(facts, b.path, cap)
            return ok, why
    return False, ('NonZero::new_unchecked is not dominated by a guard that implies a non-zero argument '
                   '(accepted: `x >= c` c>=1, `x > c` c>=0, `x != 0` on the same value, or bool::then on such a test)')


def _written_between(b, src, guard_bb, use_bb):
    for bi, blk in enumerate(b.blocks):
        if blk.get('cleanup') or bi == guard_bb:
            continue
        if not (b.dominates(guard_bb, bi) and _reaches(b, bi, use_bb)):
            continue
        for s in blk['st']:
            if s['k'] == 'assign' and place_key(s['pl']) == src and bi != use_bb:
                return True
    return False


def _reaches(body, a, b):
    seen = {a}
    st = [a]
    while st:
        x = st.pop()
        if x == b:
            return True
        for s in body.succ(x):
            if s not in seen:
                seen.add(s)
                st.append(s)
    return False


def _closure_then_guard(facts, cpath, cap):
    found = False
    for p, b in facts.bodies.items():
        for bi, blk in enumerate(b.blocks):
            for s in blk['st']:
                if s['k'] == 'assign' and s['rv']['k'] == 'aggr' and s['rv'].get('closure') == cpath:
                    found = True
                    cl = s['pl']['l']
                    ops = s['rv']['ops']
                    if cap is None or cap >= len(ops):
                        return False, 'cannot match the closure capture'
                    cl_src = op_local(ops[cap])
                    pl = resolve_ref(b, cl_src) if cl_src is not None else None
                    if pl is None:
                        return False, 'closure captures a value that cannot be traced'
                    captured = place_key(pl)
                    # consumer
                    for bb, t in b.calls():
                        if any(op_local(a) == cl for a in t['args']):
                            c = callee_of(t)
                            if not c or c['path'] != 'core::bool::<impl bool>::then':
                                return False, 'the closure holding new_unchecked is not passed to bool::then'
                            gl = op_local(t['args'][0])
                            cmp_ = comparison_of(b, gl) if gl is not None else None
                            if not cmp_:
                                return False, 'receiver of bool::then is not a comparison'
                            op, pk, k = cmp_
                            if pk != captured:
                                return False, 'bool::then tests a different value than the closure converts'
                            if not nonzero_guard(op, k):
                                return False, ('bool::then guard `%s %s` does not imply a non-zero value for '
                                               'new_unchecked' % (op, k))
                            return True, ''
    return False, 'closure with new_unchecked is never constructed' if not found else 'closure is not consumed by bool::then'


def check_from_utf8_unchecked(b, bb, t):
    l = op_local(t['args'][0])
    # operand = &*&*index(src, RangeTo{valid_up_to})
    cur = l
    idx_call = None
    split_call = None
    for _ in range(8):
        defs = b.defs.get(cur, [])
        if len(defs) != 1:
            break
        bi, si, kind, s = defs[0]
        if kind == 'assign' and s['rv']['k'] == 'ref':
            pl = s['rv']['pl']
            if pl['p'] and all(e['k'] == 'deref' for e in pl['p']):
                cur = pl['l']
                continue
            break
        if kind == 'assign' and s['rv']['k'] == 'use':
            pl = op_place(s['rv']['op'])
            if pl is not None and not pl['p']:
                cur = pl['l']
                continue
            if pl is not None and len(pl['p']) == 1 and pl['p'][0]['k'] == 'field' and str(pl['p'][0]['n']) == '0':
                # `.0` of `buf.split_at(n)`: the first n bytes
                d2 = b.defs.get(pl['l'], [])
                if len(d2) == 1 and d2[0][2] == 'call':
                    c2 = callee_of(d2[0][3])
                    if c2 and c2['name'] == 'split_at' and 'slice' in c2['path']:
                        split_call = d2[0][3]
            break
        if kind == 'call':
            idx_call = s
            break
        break
    if split_call is not None:
        base_l = op_local(split_call['args'][0])
        base = resolve_ref(b, base_l, stop_at_multi=True) if base_l is not None else None
        if base is None and base_l is not None:
            base = {'l': base_l, 'p': []}
        end_l = op_local(split_call['args'][1])
    elif idx_call is None:
        return False, 'argument of from_utf8_unchecked is not an indexed slice'
    else:
        c = callee_of(idx_call)
        if not c or c['name'] != 'index' or 'std::ops::RangeTo<usize>' not in c['full']:
            return False, ('from_utf8_unchecked is applied to `%s`; only `&src[..valid_up_to]` (an exclusive RangeTo) of '
                           'the validated buffer is known to be valid UTF-8' % (c['full'] if c else '?'))
        base_l = op_local(idx_call['args'][0])
        base = resolve_ref(b, base_l, stop_at_multi=True) if base_l is not None else None
        rng_l = op_local(idx_call['args'][1])
        vd = value_def(b, rng_l) if rng_l is not None else None
        if not vd or vd[0] != 'assign' or vd[1]['rv']['k'] != 'aggr' or not vd[1]['rv'].get('adt', '').startswith('std::ops::RangeTo'):
            return False, 'slice range is not a plain `..end`'
        end_l = op_local(vd[1]['rv']['ops'][0])
    root, pl, casts = copies_of(b, end_l) if end_l is not None else (None, None, [])
    end_defs = b.defs.get(root, []) if root is not None else []
    if len(end_defs) != 1 or end_defs[0][2] != 'call' or callee_of(end_defs[0][3])['path'] != 'std::str::Utf8Error::valid_up_to':
        return False, 'slice end is not exactly Utf8Error::valid_up_to() (e.g. off by one)'
    vcall = end_defs[0][3]
    vbb = end_defs[0][0]
    err_pl = resolve_ref(b, op_local(vcall['args'][0]))
    if err_pl is None or err_pl['p']:
        return False, 'cannot resolve the Utf8Error value'
    err_l = err_pl['l']
    if base is None or any(e['k'] != 'deref' for e in base['p']):
        return False, 'cannot resolve the sliced buffer'
    src_l = base['l']
    # must-dataflow: valid(src, err) holds at the valid_up_to call and is not killed up to the unsafe call
    entry = False
    param_init = None
    if 1 <= src_l <= b.argc and 1 <= err_l <= b.argc:
        # the buffer and its error are parameters: the relation is a precondition of this helper and
        # must be established by every caller at the call site
        okc, whyc = _callers_establish_utf8(b, src_l, err_l)
        if not okc:
            return False, whyc
        entry = True
    else:
        # `let mut remaining = src; let mut err = first_err;` over parameters with the same precondition (either of the
        # two may also be the parameter itself, declared `mut`)
        ps = src_l if 1 <= src_l <= b.argc else _param_copied_into(b, src_l)
        pe = err_l if 1 <= err_l <= b.argc else _param_copied_into(b, err_l)
        if ps is not None and pe is not None:
            okc, whyc = _callers_establish_utf8(b, ps, pe)
            if not okc:
                return False, whyc
            param_init = (ps, pe)
    ok, why = _utf8_valid_flow(b, src_l, err_l, vbb, bb, entry=entry, param_init=param_init)
    return ok, why


def _param_copied_into(b, l):
    """the (never reassigned) parameter one of l's definitions copies, if any"""
    for bi, si, kind, s in b.defs.get(l, []):
        if kind == 'assign' and s['rv']['k'] == 'use':
            pl = op_place(s['rv']['op'])
            if pl is not None and not pl['p'] and 1 <= pl['l'] <= b.argc and not b.defs.get(pl['l']):
                return pl['l']
    return None


def _callers_establish_utf8(b, src_l, err_l):
    facts = b.facts
    n = 0
    for p2, cb in facts.bodies.items():
        for cbb, t in cb.calls():
            c = callee_of(t)
            if not c or c['path'] != b.path:
                continue
            n += 1
            if len(t['args']) < max(src_l, err_l):
                return False, 'caller passes too few arguments'
            sa, ea = t['args'][src_l - 1], t['args'][err_l - 1]
            sl = op_local(sa)
            el = op_local(ea)
            if sl is None or el is None:
                return False, 'caller of `%s` does not pass plain locals for buffer/error' % b.path
            def root_local(l):
                cur = l
                for _ in range(10):
                    d = cb.defs.get(cur, [])
                    if len(d) == 1 and d[0][2] == 'assign' and d[0][3]['rv']['k'] == 'use':
                        pl_ = op_place(d[0][3]['rv']['op'])
                        if pl_ is not None and not pl_['p']:
                            cur = pl_['l']
                            continue
                    break
                return cur
            sroot = root_local(sl)
            eroot = root_local(el)
            spl = resolve_ref(cb, sl)
            if spl is not None and all(e['k'] == 'deref' for e in spl['p']):
                sroot = spl['l']
            if sroot is None or eroot is None:
                return False, 'cannot trace the buffer/error passed to `%s`' % b.path
            okf, whyf = _utf8_valid_flow(cb, sroot, eroot, cbb, cbb, entry=False, at_only=True)
            if not okf:
                return False, ('`%s` relies on its error argument describing its buffer argument, but the caller %s '
                               'does not establish that at %s') % (b.path, cb.path, loc_of(t['sp']))
    if n == 0:
        return False, 'helper with from_utf8_unchecked has no caller that establishes its precondition'
    return True, ''


def _utf8_valid_flow(b, src_l, err_l, vbb, ubb, entry=False, at_only=False, param_init=None):
    """forward must-analysis: V = `err` is the Err payload of from_utf8(src) for the current src"""
    # sources: calls from_utf8(&*src)
    from_utf8_res = {}
    for bb, t in b.calls():
        c = callee_of(t)
        if c and c['path'] == 'std::str::from_utf8':
            pl = resolve_ref(b, op_local(t['args'][0]), stop_at_multi=True) if op_local(t['args'][0]) is not None else None
            if pl is not None and pl['l'] == src_l and all(e['k'] == 'deref' for e in pl['p']):
                from_utf8_res[t['dest']['l']] = bb
    # payload locals: x = copy (_r as Err).0 (and copies of them)
    def transfer(bi, st):
        blk = b.blocks[bi]
        for s in blk['st']:
            if s['k'] != 'assign':
                continue
            d = s['pl']
            if d['p']:
                continue
            dl = d['l']
            rv = s['rv']
            if dl == src_l:
                st = (False, set())          # src reassigned: neither err nor earlier results describe it
                if param_init and rv['k'] == 'use':
                    pl = op_place(rv['op'])
                    if pl is not None and not pl['p'] and pl['l'] == param_init[0]:
                        # the buffer is (again) the parameter the error parameter describes
                        st = (False, st[1] | {'@param'})
                continue
            if param_init and dl == err_l and rv['k'] == 'use':
                pl = op_place(rv['op'])
                if pl is not None and not pl['p'] and pl['l'] == param_init[1]:
                    st = ('@param' in st[1], st[1])
                    continue
            if rv['k'] == 'use':
                pl = op_place(rv['op'])
                if pl is not None:
                    pk = place_key(pl)
                    if pl['l'] in from_utf8_res and pk[1] == ('@Err', '.0'):
                        # payload of a from_utf8(src) result: valid if src not reassigned since that call;
                        # tracked through st[1] = set of result locals still describing current src
                        if pl['l'] in st[1]:
                            if dl == err_l:
                                st = (True, st[1])
                            else:
                                st = (st[0], st[1] | {dl})
                            continue
                    if not pl['p'] and pl['l'] in st[1]:
                        if dl == err_l:
                            st = (True, st[1])
                        else:
                            st = (st[0], st[1] | {dl})
                        continue
            if dl == err_l:
                st = (False, st[1])
            elif dl in st[1]:
                st = (st[0], st[1] - {dl})
        t = blk['term']
        if t['k'] == 'call' and not t['dest']['p']:
            dl = t['dest']['l']
            if dl in from_utf8_res and from_utf8_res[dl] == bi:
                st = (st[0], st[1] | {dl})
            elif dl == err_l:
                st = (False, st[1])
            elif dl == src_l:
                st = (False, set())
        return st

    init_res = frozenset({'@param'}) if (param_init and param_init[0] == src_l) else frozenset()
    init_valid = entry or bool(param_init and param_init[0] == src_l and param_init[1] == err_l)
    IN = {0: (init_valid, init_res)}
    work = [0]
    while work:
        bi = work.pop()
        st = IN[bi]
        # src reassignment invalidates result locals too
        out = transfer(bi, (st[0], set(st[1])))
        blk = b.blocks[bi]
        if any(s['k'] == 'assign' and not s['pl']['p'] and s['pl']['l'] == src_l for s in blk['st']) and not param_init:
            # src assigned in this block: keep only results produced by this block's terminator
            keep = set()
            t = blk['term']
            if t['k'] == 'call' and not t['dest']['p'] and t['dest']['l'] in from_utf8_res \
                    and from_utf8_res[t['dest']['l']] == bi:
                keep.add(t['dest']['l'])
            out = (False, keep)
        out = (out[0], frozenset(out[1]))
        for s2 in b.succ(bi):
            old = IN.get(s2)
            new = out if old is None else (old[0] and out[0], old[1] & out[1])
            if new != old:
                IN[s2] = new
                work.append(s2)
    if at_only:
        # state at the *end* of block vbb's statements (the call is its terminator)
        if vbb not in IN:
            return False, 'call site unreachable'
        st = transfer(vbb, (IN[vbb][0], set(IN[vbb][1])))
        # the error local may be a copy of a payload local still describing src
        return (bool(st[0]) or err_l in st[1]), ''
    if vbb not in IN or not IN[vbb][0]:
        return False, ('at Utf8Error::valid_up_to() the error value is not known to be the result of from_utf8 on the '
                       'current buffer on every path (the prefix may not be valid UTF-8)')
    # between the valid_up_to call and the unsafe call: same block chain without reassignments
    cur = vbb
    seen = set()
    while cur != ubb:
        if cur in seen:
            return False, 'cannot follow the path from valid_up_to() to from_utf8_unchecked'
        seen.add(cur)
        nx = b.succ(cur)
        if len(nx) != 1:
            return False, 'control flow between valid_up_to() and from_utf8_unchecked'
        cur = nx[0]
        for s in b.blocks[cur]['st']:
            if s['k'] == 'assign' and not s['pl']['p'] and s['pl']['l'] in (src_l, err_l):
                return False, 'buffer or error reassigned between valid_up_to() and from_utf8_unchecked'
    return True, ''


def check_from_raw_parts(facts, b, bb, t):
    res = []
    # ptr / len from the same Vec field of self, after the extend
    pl_ptr = None
    pl_len = None
    l0 = op_local(t['args'][0])
    root, pl, casts = copies_of(b, l0) if l0 is not None else (None, None, [])
    # ptr = cast(as_ptr(&field))
    def call_on_field(l, names):
        cur = l
        for _ in range(6):
            defs = b.defs.get(cur, [])
            if len(defs) != 1:
                return None
            bi, si, kind, s = defs[0]
            if kind == 'call':
                c = callee_of(s)
                if c and c['name'] in names:
                    a0 = op_local(s['args'][0])
                    return (resolve_ref(b, a0) if a0 is not None else None), bi
                if c and c['name'] in ('cast',):
                    cur = op_local(s['args'][0])
                    continue
                return None
            if kind == 'assign':
                rv = s['rv']
                if rv['k'] in ('use', 'cast'):
                    p2 = op_place(rv['op'])
                    if p2 is None or p2['p']:
                        return None
                    cur = p2['l']
                    continue
            return None
        return None
    r1 = call_on_field(l0, ('as_ptr',))
    l1 = op_local(t['args'][1])
    r2 = call_on_field(l1, ('len',)) if l1 is not None else None
    if not r1 or not r2 or r1[0] is None or r2[0] is None:
        return [(False, 'pointer/length of from_raw_parts are not as_ptr()/len() of a Vec', 'ptr-len')]
    f1, f2 = field_path(r1[0]), field_path(r2[0])
    same = f1 == f2 and r1[0]['l'] == 1 and r2[0]['l'] == 1 and f1
    res.append((bool(same), '' if same else 'pointer and length come from different buffers (%s vs %s)' % (f1, f2), 'ptr-len'))
    if not same:
        return res
    field = f1[-1]
    adt = None
    for e in r1[0]['p']:
        if e['k'] == 'field':
            adt = e.get('adt')
    # no mutation of the field between as_ptr/len and from_raw_parts, and extend dominates
    ext = []
    clears = []
    cb = []
    for b2, t2 in b.calls():
        if b.is_cleanup(b2):
            continue
        c = callee_of(t2)
        if not c:
            continue
        a0 = op_local(t2['args'][0]) if t2['args'] else None
        pl = resolve_ref(b, a0) if a0 is not None else None
        onfield = pl is not None and field_path(pl)[-1:] == (field,) and pl['l'] == 1
        if onfield and c['name'] in ('extend', 'push', 'insert', 'append', 'reserve', 'extend_from_slice', 'resize'):
            ext.append(b2)
        if onfield and c['name'] == 'clear':
            clears.append(b2)
        if c.get('trait') in ('std::ops::FnOnce', 'std::ops::FnMut', 'std::ops::Fn'):
            cb.append((b2, t2))
    ok = all(b.dominates(e, r1[1]) and b.dominates(e, r2[1]) for e in ext) and b.dominates(r1[1], bb) and b.dominates(r2[1], bb)
    res.append((ok, '' if ok else 'the buffer may be grown after its pointer/length were taken (dangling slice)', 'no-realloc'))
    # after the callback: every path to return passes clear(field)
    ok2 = bool(cb) and bool(clears)
    why2 = ''
    if ok2:
        for (cbb, ct) in cb:
            start = ct.get('t')
            seen = set()
            st = [start]
            while st:
                x = st.pop()
                if x in seen or x is None:
                    continue
                seen.add(x)
                if x in clears:
                    continue
                if b.term(x)['k'] == 'return':
                    ok2 = False
                    why2 = ('a normal return is reachable after the callback without clearing `%s`: the buffer would '
                            'keep dangling `*const str` pointers for the next call' % field)
                    break
                st.extend(b.succ(x))
    else:
        why2 = 'callback call or clear of `%s` not found' % field
    res.append((ok2, why2, 'clear-after-use'))
    # who may touch the field
    touchers = set()
    for p2, b2 in facts.bodies.items():
        for blk in b2.blocks:
            txt = None
            for s in blk['st']:
                if s['k'] == 'assign':
                    for pl in _places_in(s):
                        for e in pl['p']:
                            if e['k'] == 'field' and e['n'] == field and e.get('adt') == adt:
                                touchers.add(p2)
                    if s['rv']['k'] == 'aggr' and s['rv'].get('adt') == adt:
                        touchers.add(p2 + ' (constructor)')
            t2 = blk['term']
            if t2['k'] == 'drop':
                pass
    allowed = {b.path}
    extra = sorted(x for x in touchers if x not in allowed and not x.endswith('(constructor)'))
    ok3 = not extra
    res.append((ok3, '' if ok3 else ('`%s` is also accessed by %s: code running inside the callback could reallocate the '
                                     'buffer the raw slice points into' % (field, extra)), 'who-may-touch'))
    # privacy
    a = facts.adts.get(adt)
    priv = None
    if a:
        for f in a['variants'][0]['fields']:
            if f['name'] == field:
                priv = not f.get('reachable', f['pub'])
    res.append((bool(priv), '' if priv else 'the raw-pointer buffer field is public', 'private-field'))
    return res


def _places_in(s):
    out = [s['pl']]

    def rec(x):
        if isinstance(x, dict):
            if 'pl' in x and isinstance(x['pl'], dict) and 'l' in x['pl']:
                out.append(x['pl'])
            for v in x.values():
                rec(v)
        elif isinstance(x, list):
            for y in x:
                rec(y)
    rec(s['rv'])
    return out


# ------------------------------------------------------------------ AB

PARSE_NAMES = {'parse', 'parse_num', 'parse_with_limits'}
ALLOC_CALLS = {
    'std::vec::from_elem': 1, 'std::vec::Vec::<T>::with_capacity': 0, 'std::vec::Vec::<T, A>::reserve': 1,
    'std::vec::Vec::<T, A>::reserve_exact': 1, 'std::vec::Vec::<T, A>::resize': 1,
    'std::string::String::with_capacity': 0, 'std::string::String::reserve': 1,
    'std::iter::Iterator::take': 1, 'core::str::<impl str>::repeat': 1,
    'std::vec::Vec::<T, A>::with_capacity_in': 0,
}


def backward_slice(b, l, limit=60):
    """locals contributing to local l through moves, casts, arithmetic, min/max/clamp; returns
    (set of locals, set of source tags)"""
    seen = set()
    sources = set()
    work = [l]
    while work and len(seen) < limit:
        x = work.pop()
        if x in seen or x is None:
            continue
        seen.add(x)
        if x <= b.argc and x != 0:
            sources.add('param')
        for bi, si, kind, s in b.defs.get(x, []):
            if kind == 'assign':
                rv = s['rv']
                k = rv['k']
                ops = []
                if k == 'use':
                    ops = [rv['op']]
                elif k == 'cast':
                    ops = [rv['op']]
                    if 'FloatToInt' in rv['ck']:
                        sources.add('float-to-int')
                elif k == 'binop':
                    ops = [rv['a'], rv['b']]
                elif k == 'unop':
                    ops = [rv['a']]
                elif k == 'aggr':
                    ops = rv['ops']
                elif k == 'discr':
                    pass
                for o in ops:
                    pl = op_place(o)
                    if pl is not None:
                        work.append(pl['l'])
                    elif o['k'] == 'const':
                        sources.add('const')
            else:
                t = s
                c = callee_of(t)
                name = c['name'] if c else ''
                path = c['path'] if c else ''
                if name in PARSE_NAMES or path.startswith('core::str::<impl str>::parse'):
                    sources.add('parse')
                    continue
                if name in ('len', 'count', 'size_hint', 'capacity'):
                    sources.add('length')
                    continue
                if name in ('max', 'min', 'clamp', 'from', 'into', 'branch', 'unwrap_or', 'abs', 'ceil', 'floor',
                            'round', 'acos', 'sqrt', 'unwrap_or_default', 'map', 'transpose', 'try_into', 'try_from',
                            'saturating_sub', 'checked_sub', 'wrapping_add', 'recip', 'sin_cos', 'atan2'):
                    for a in t['args']:
                        pl = op_place(a)
                        if pl is not None:
                            work.append(pl['l'])
                    continue
                sources.add('call:' + name)
                for a in t['args']:
                    pl = op_place(a)
                    if pl is not None and not b.locals[pl['l']]['s'].startswith('&'):
                        work.append(pl['l'])
    return seen, sources


def run_ab(facts, out, bodies=None):
    fixture = bodies is not None
    if bodies is None:
        o2 = type(out)()
        dec, enc = ed.decode_encode_roots(facts, o2)
        bodies, _ = ed.path_bodies(facts, dec)
    n = 0
    for b in bodies:
        for bb, t in b.calls():
            if b.is_cleanup(bb):
                continue
            c = callee_of(t)
            if not c or c['path'] not in ALLOC_CALLS:
                continue
            ai = ALLOC_CALLS[c['path']]
            if ai >= len(t['args']):
                continue
            _check_size(b, bb, t['args'][ai], c['name'], loc_of(t['sp']), out)
            n += 1
        # ranges driving loops
        for bi, blk in enumerate(b.blocks):
            if blk.get('cleanup'):
                continue
            for s in blk['st']:
                if s['k'] == 'assign' and s['rv']['k'] == 'aggr' and s['rv'].get('adt', '').startswith('std::ops::Range') \
                        and s['rv'].get('adt') in ('std::ops::Range', 'std::ops::RangeInclusive') and len(s['rv']['ops']) == 2:
                    if b.locals[s['pl']['l']]['s'].endswith('<usize>') or 'usize' in b.locals[s['pl']['l']]['s']:
                        _check_size(b, bi, s['rv']['ops'][1], 'range', loc_of(s['sp']), out, only_if_parse=True)
                        n += 1
    out.add('AB', facts.crate, 'inventory', 'crate', True, '', {'allocation_sites': n, 'trivial': True}, ordinal=False)


def _check_size(b, bb, operand, what, where, out, only_if_parse=False):
    if operand['k'] == 'const':
        v = operand.get('v')
        ok = isinstance(v, int) and v <= MAX_ALLOC_BOUND
        if not only_if_parse:
            out.add('AB', b.path, 'alloc:' + what, where, ok, '' if ok else 'constant allocation of %s elements' % v,
                    {'size': 'const %s' % v, 'trivial': True})
        return
    l = op_local(operand)
    if l is None:
        pl = op_place(operand)
        l = pl['l'] if pl else None
    locs, sources = backward_slice(b, l)
    risky = sources & {'parse', 'float-to-int'}
    if not risky:
        if not only_if_parse:
            out.add('AB', b.path, 'alloc:' + what, where, True, '',
                    {'size_sources': sorted(sources), 'bounded_by': 'input length / constants', 'trivial': True})
        return
    # find a dominating early exit on a comparison of a slice member with a constant
    best = None
    for db in sorted(b.dom.get(bb, [])):
        tt = b.term(db)
        if tt['k'] != 'switch':
            continue
        dl = op_local(tt['discr'])
        defs = b.defs.get(dl, []) if dl is not None else []
        if len(defs) != 1 or defs[0][2] != 'assign' or defs[0][3]['rv']['k'] != 'binop':
            continue
        rv = defs[0][3]['rv']
        op = rv['op']
        if op not in ('Gt', 'Ge', 'Lt', 'Le'):
            continue
        x, cst = rv['a'], rv['b']
        if cst['k'] != 'const' or 'v' not in cst:
            continue
        xl = op_local(x)
        if xl is None:
            continue
        xs, _ = backward_slice(b, xl, 10)
        if not (xs & locs):
            continue
        # site reached through the "small" side
        small_label_zero = op in ('Gt', 'Ge')     # false edge = x <= c / x < c
        ok_edge = False
        for lab, tg in b.edges(db):
            is_zero = (lab == 0)
            if is_zero == small_label_zero and b.dominates(tg, bb):
                ok_edge = True
        if ok_edge:
            bound = cst['v']
            if best is None or bound < best:
                best = bound
    ok = best is not None and best <= MAX_ALLOC_BOUND
    why = ''
    if best is None:
        why = ('size of `%s` derives from parsed input (%s) and no dominating early exit bounds it by a constant: '
               'a hostile number can force a huge allocation / loop' % (what, ', '.join(sorted(risky))))
    elif not ok:
        why = 'size of `%s` derives from parsed input and is only bounded by %s (> %d)' % (what, best, MAX_ALLOC_BOUND)
    out.add('AB', b.path, 'alloc:' + what, where, ok, why, {'size_sources': sorted(sources), 'bound': best})


# ------------------------------------------------------------------ U8

def possible_bytes(facts, b, operand, depth=0):
    """set of byte strings an operand may denote, or None if not constant"""
    if depth > 10:
        return None
    if operand['k'] == 'const':
        if 'bytes' in operand:
            return {bytes(operand['bytes'])}
        if 'str' in operand:
            return {operand['str'].encode()}
        if isinstance(operand.get('v'), int) and operand['ty']['s'] == 'u8':
            return {bytes([operand['v']])}
        if 'promoted' in operand:
            proms = b.j.get('promoted', [])
            idx = operand['promoted']
            if idx < len(proms):
                from facts import Body
                pb = Body(proms[idx], facts)
                return _ret_bytes(facts, pb, depth + 1)
        return None
    pl = op_place(operand)
    if pl is None:
        return None
    if pl['p'] and not all(e['k'] == 'deref' for e in pl['p']):
        return None
    return local_bytes(facts, b, pl['l'], depth + 1)


def local_bytes(facts, b, l, depth=0):
    if depth > 12:
        return None
    defs = b.defs.get(l, [])
    if not defs:
        return None
    res = set()
    for bi, si, kind, s in defs:
        if kind == 'assign':
            rv = s['rv']
            if rv['k'] in ('use', 'cast'):
                r = possible_bytes(facts, b, rv['op'], depth + 1)
            elif rv['k'] == 'ref':
                pl = rv['pl']
                if pl['p'] and not all(e['k'] == 'deref' for e in pl['p']):
                    return None
                r = local_bytes(facts, b, pl['l'], depth + 1)
            elif rv['k'] == 'aggr' and rv.get('ak') == 'array' and 1 <= len(rv.get('ops', [])) <= 4:
                # `[sep(i)]`, `[b'x', y]`: every element a constant or a value with known possible bytes
                combos = {b''}
                for o in rv['ops']:
                    if o['k'] == 'const' and isinstance(o.get('v'), int):
                        ro = {bytes([o['v'] & 0xff])}
                    else:
                        ro = possible_bytes(facts, b, o, depth + 1)
                    if ro is None or any(len(x) != 1 for x in ro) or len(combos) * len(ro) > 64:
                        combos = None
                        break
                    combos = {x + y for x in combos for y in ro}
                if combos is None:
                    return None
                r = combos
            else:
                return None
        else:
            t = s
            c = callee_of(t)
            if c and c['path'] == 'std::slice::from_ref':
                r = possible_bytes(facts, b, t['args'][0], depth + 1)
            elif c and c.get('trait') in ('std::ops::Fn', 'std::ops::FnMut', 'std::ops::FnOnce'):
                # call of a local closure: its return constants
                cl = op_local(t['args'][0])
                cpl = resolve_ref(b, cl) if cl is not None else None
                ctys = b.locals[cpl['l']] if cpl is not None and not cpl['p'] else (b.locals[cl] if cl is not None else None)
                cname = ctys.get('closure') if ctys else None
                if cname is None and cpl is not None:
                    cname = b.locals[cpl['l']].get('closure')
                cb = facts.bodies.get(cname) if cname else None
                if cb is None:
                    return None
                r = _ret_bytes(facts, cb, depth + 1)
            elif c and c.get('local') and c['path'] in facts.bodies and \
                    facts.bodies[c['path']].locals[0]['s'] in ('u8', '&[u8]', "&'static [u8]", "&'static str", '&str'):
                # a crate-local function returning a byte / byte string: the constants it can return
                r = _ret_bytes(facts, facts.bodies[c['path']], depth + 1)
            else:
                return None
        if r is None:
            return None
        res |= r
    return res


def _ret_bytes(facts, body, depth):
    res = set()
    defs = body.defs.get(0, [])
    if not defs:
        return None
    for bi, si, kind, s in defs:
        if kind != 'assign':
            return None
        rv = s['rv']
        if rv['k'] in ('use', 'cast'):
            r = possible_bytes(facts, body, rv['op'], depth + 1)
        elif rv['k'] == 'ref':
            pl = rv['pl']
            r = local_bytes(facts, body, pl['l'], depth + 1) if not pl['p'] or all(e['k'] == 'deref' for e in pl['p']) else None
        elif rv['k'] == 'aggr' and rv['ak'] == 'array':
            parts = []
            for o in rv['ops']:
                if o['k'] == 'const' and isinstance(o.get('v'), int):
                    parts.append(o['v'])
                else:
                    return None
            r = {bytes(parts)}
        else:
            return None
        if r is None:
            return None
        res |= r
    return res


def run_u8(facts, out, bodies=None):
    fixture = bodies is not None
    if bodies is None:
        o2 = type(out)()
        dec, enc = ed.decode_encode_roots(facts, o2)
        bodies, _ = ed.path_bodies(facts, enc)
    n = 0
    for b in bodies:
        for bb, t in b.calls():
            if b.is_cleanup(bb):
                continue
            c = callee_of(t)
            if not c or c.get('trait') != 'std::io::Write' or c['name'] != 'write_all':
                continue
            n += 1
            vals = possible_bytes(facts, b, t['args'][1])
            if vals is None:
                out.add('U8', b.path, 'write_all', loc_of(t['sp']), False,
                        'bytes passed to write_all cannot be traced to constants: the output may not be valid UTF-8')
                continue
            bad = []
            for v in vals:
                try:
                    v.decode('utf-8')
                except UnicodeDecodeError:
                    bad.append(v)
                if len(v) == 1 and v[0] >= 128:
                    bad.append(v)
            out.add('U8', b.path, 'write_all', loc_of(t['sp']), not bad,
                    '' if not bad else 'write_all writes bytes that are not valid UTF-8: %r' % bad,
                    {'values': sorted(repr(v) for v in vals)})
    out.add('U8', facts.crate, 'inventory', 'crate', True, '', {'write_all_sites': n, 'trivial': True}, ordinal=False)


# ------------------------------------------------------------------ PX

PANIC_PATHS = ('core::panicking::', 'std::rt::begin_panic', 'core::option::unwrap_failed', 'core::result::unwrap_failed',
               'core::option::expect_failed')
PANIC_METHODS = {'unwrap', 'expect', 'unwrap_err', 'expect_err', 'unwrap_unchecked'}


def run_px(facts, out, paths=None):
    fixture = paths is not None
    if paths is None:
        o2 = type(out)()
        dec, enc = ed.decode_encode_roots(facts, o2)
        ids = facts.reachable_instances(dec + enc)
        paths = sorted({facts.inst[i]['def'] for i in ids})
    n = 0
    for p in paths:
        b = facts.bodies.get(p)
        if b is None:
            continue
        for bb, t in b.calls():
            if b.is_cleanup(bb):
                continue
            c = callee_of(t)
            if not c:
                continue
            is_panic = c['path'].startswith(PANIC_PATHS)
            is_unwrap = c['name'] in PANIC_METHODS and (c['path'].startswith('std::option::Option') or
                                                        c['path'].startswith('std::result::Result'))
            if is_str_offset_op(c):
                # byte-offset slicing of a str / String panics when the offset is not a char boundary
                n += 1
                ok, why, how = discharge_str_offset(facts, b, bb, t, c)
                out.add('PX', b.path, 'str-offset:' + c['name'], loc_of(t['sp']), ok, why,
                        {'discharged_by': how} if ok else None)
                continue
            if not (is_panic or is_unwrap):
                continue
            n += 1
            if t['sp'].get('macro', '').startswith('tracing::'):
                # exception (one reason): generated by tracing's event macros (`tracing` feature only); the
                # expect() is on tracing's own static field set, not on anything derived from the input
                out.add('PX', b.path, 'tracing-macro:' + c['name'], loc_of(t['sp']), True, '',
                        {'discharged_by': 'tracing event macro internals', 'trivial': True})
                continue
            ok, why, how = discharge_panic(facts, b, bb, t, c, is_unwrap)
            out.add('PX', b.path, ('unwrap' if is_unwrap else 'panic') + ':' + c['name'], loc_of(t['sp']), ok, why,
                    {'discharged_by': how} if ok else None)
    out.add('PX', facts.crate, 'inventory', 'crate', True, '', {'explicit_panic_sites': n, 'trivial': True}, ordinal=False)


STR_OFFSET_METHODS = {'core::str::<impl str>::split_at', 'core::str::<impl str>::split_at_mut',
                      'std::string::String::truncate', 'std::string::String::insert', 'std::string::String::insert_str',
                      'std::string::String::remove', 'std::string::String::drain', 'std::string::String::split_off',
                      'std::string::String::replace_range', 'core::str::<impl str>::is_char_boundary'}
BOUNDARY_SOURCES = {'find', 'rfind', 'len'}      # str methods whose result is always a char boundary
OPTION_ADAPTERS = {'map', 'map_or', 'map_or_else', 'and_then', 'is_some_and', 'inspect', 'filter', 'unwrap_or_else'}


def is_str_offset_op(c):
    full = c.get('full', '')
    if c['path'] in ('std::ops::Index::index', 'std::ops::IndexMut::index_mut') and \
            (full.startswith('<str as ') or full.startswith('<std::string::String as ')) and 'Range' in full:
        return True
    return c['path'] in STR_OFFSET_METHODS and c['name'] != 'is_char_boundary'


def _offset_leaves(b, l, depth=0, seen=None):
    """leaves of the value of local l: ('param', i) | ('call', name, path) | ('const', v) | ('arith',) | ('other',)"""
    seen = seen if seen is not None else set()
    if l in seen or depth > 12:
        return []
    seen.add(l)
    if 1 <= l <= b.argc:
        return [('param', l)]
    leaves = []
    for bi, si, kind, s in b.defs.get(l, []):
        if kind == 'assign':
            rv = s['rv']
            k = rv['k']
            ops = []
            if k in ('use', 'cast'):
                ops = [rv['op']]
            elif k == 'aggr':
                ops = rv['ops']
            elif k in ('binop', 'checked_binop', 'unop'):
                leaves.append(('arith',))
                continue
            elif k == 'ref':
                leaves.extend(_offset_leaves(b, rv['pl']['l'], depth + 1, seen))
                continue
            else:
                leaves.append(('other',))
                continue
            for o in ops:
                pl = op_place(o)
                if pl is not None:
                    leaves.extend(_offset_leaves(b, pl['l'], depth + 1, seen))
                elif o['k'] == 'const':
                    leaves.append(('const', o.get('v', o.get('int'))))
        else:
            c = callee_of(s)
            leaves.append(('call', c['name'] if c else '?', c['path'] if c else '?', s))
    return leaves


def discharge_str_offset(facts, b, bb, t, c):
    """accepted: every offset is the result of str::find / rfind / len (always a char boundary) --
    directly, through Option unwrapping, or as the parameter of a closure handed to an Option
    adapter whose receiver is such a result -- or the constant 0"""
    why = ('byte-offset `%s` on a str whose offset is not proven to be a char boundary (accepted: results of '
           'find/rfind/len, 0): panics on multi-byte text') % c['name']
    bad = []
    for a in t['args'][1:]:
        pl = op_place(a)
        if pl is None:
            if a['k'] == 'const' and a.get('v', a.get('int')) in (0, '0'):
                continue
            bad.append('constant offset')
            continue
        for lf in _offset_leaves(b, pl['l']):
            if lf[0] == 'const':
                if lf[1] not in (0, '0', None):
                    bad.append('constant offset %s' % (lf[1],))
            elif lf[0] == 'call':
                if not (lf[1] in BOUNDARY_SOURCES and lf[2].startswith('core::str::<impl str>')) and lf[1] not in ('branch', 'unwrap', 'expect', 'unwrap_or', 'unwrap_or_default'):
                    bad.append('offset computed by `%s`' % lf[1])
                elif lf[1] in ('branch', 'unwrap', 'expect', 'unwrap_or', 'unwrap_or_default'):
                    l0 = op_local(lf[3]['args'][0]) if lf[3]['args'] else None
                    inner = _offset_leaves(b, l0) if l0 is not None else [('other',)]
                    for lf2 in inner:
                        if not (lf2[0] == 'call' and lf2[1] in BOUNDARY_SOURCES and lf2[2].startswith('core::str::<impl str>')):
                            bad.append('offset from `%s`' % (lf2[1] if len(lf2) > 1 else lf2[0]))
            elif lf[0] == 'param':
                if not _closure_param_is_boundary(facts, b, lf[1]):
                    bad.append('offset is parameter #%d, not known to be a char boundary' % lf[1])
            else:
                bad.append('offset involves %s' % lf[0])
    if bad:
        return False, why + ' [' + '; '.join(sorted(set(bad))) + ']', None
    return True, '', 'offsets are results of str::find/rfind/len (char boundaries) or 0'


def _closure_param_is_boundary(facts, b, pidx):
    """b is a closure whose parameter #pidx (>= 2) receives the payload of an Option produced by
    str::find / rfind in the parent function"""
    if '{closure' not in b.path or pidx < 2:
        return False
    parent = facts.bodies.get(b.path.rsplit('::{closure', 1)[0])
    if parent is None:
        return False
    for bi, blk in enumerate(parent.blocks):
        for s in blk['st']:
            if s['k'] == 'assign' and s['rv']['k'] == 'aggr' and s['rv'].get('closure') == b.path:
                cl = s['pl']['l']
                for bb2, t2 in parent.calls():
                    ls = [op_local(a) for a in t2['args']]
                    if cl not in ls:
                        continue
                    c2 = callee_of(t2)
                    if not c2 or c2['name'] not in OPTION_ADAPTERS or not c2['path'].startswith('std::option::Option'):
                        return False
                    r = ls[0]
                    lv = _offset_leaves(parent, r) if r is not None else []
                    return bool(lv) and all(x[0] == 'call' and x[1] in ('find', 'rfind') and
                                            x[2].startswith('core::str::<impl str>') for x in lv)
    return False


def discharge_panic(facts, b, bb, t, c, is_unwrap):
    # (1) max()/min()/first()/last() of an iterator over a slice, dominated by the false edge of is_empty()
    if is_unwrap and c['name'] in ('unwrap', 'expect'):
        l = op_local(t['args'][0])
        vd = value_def(b, l) if l is not None else None
        if vd and vd[0] == 'call':
            c2 = callee_of(vd[1])
            if c2 and c2['name'] in ('max', 'min', 'first', 'last', 'max_by', 'min_by', 'max_by_key', 'min_by_key'):
                root = _iter_root(b, vd[1])
                if root is not None:
                    for db in sorted(b.dom.get(bb, [])):
                        tt = b.term(db)
                        if tt['k'] != 'switch':
                            continue
                        dl = op_local(tt['discr'])
                        d2 = b.defs.get(dl, []) if dl is not None else []
                        if len(d2) == 1 and d2[0][2] == 'call':
                            c3 = callee_of(d2[0][3])
                            if c3 and c3['name'] == 'is_empty':
                                a0 = op_local(d2[0][3]['args'][0])
                                r3 = _root_of(b, a0)
                                if r3 == root:
                                    for lab, tg in b.edges(db):
                                        if lab == 0 and b.dominates(tg, bb):
                                            return True, '', 'non-empty slice: is_empty() early exit dominates %s().unwrap()' % c2['name']
        return False, ('`%s` on a value that is not proven present: hostile input may panic (accepted: max/min/first/last '
                       'of a slice behind an is_empty() early return)' % c['name']), None
    # (2) macro-generated Display: trailing unreachable!() after one `if let` per variant
    if t['sp'].get('macro') == 'thiserror' or (b.path.endswith('std::fmt::Display>::fmt') and t['sp'].get('exp')):
        ok = _all_variants_tested(facts, b, bb)
        if ok:
            return True, '', 'every enum variant is matched before the trailing unreachable!()'
        return False, 'trailing unreachable!() of a generated Display impl is reachable: not every variant is matched', None
    # (3) unreachable!() in the `0` arm of a match on the length of a `..=` slice
    for db in sorted(b.dom.get(bb, [])):
        tt = b.term(db)
        if tt['k'] != 'switch':
            continue
        zero_t = [tg for lab, tg in b.edges(db) if lab == 0]
        if not zero_t or not all(b.dominates(z, bb) for z in zero_t):
            continue
        dl = op_local(tt['discr'])
        vd = value_def(b, dl) if dl is not None else None
        if vd and vd[0] == 'call':
            c2 = callee_of(vd[1])
            if c2 and c2['name'] == 'len':
                r = _root_call(b, op_local(vd[1]['args'][0]))
                if r is not None:
                    c3 = callee_of(r)
                    if c3 and c3['name'] == 'index' and 'RangeInclusive' in c3['full']:
                        return True, '', 'length of a `start..=end` slice is never 0 (exception: slice::index panics first)'
    # (3b) the same fact in pattern form: the `[]` arm of a match on a `..=` slice (`len == 0` edge of the pattern test)
    def incl_slice_len(l):
        vd_ = value_def(b, l) if l is not None else None
        if vd_ and vd_[0] == 'assign' and vd_[1]['rv']['k'] == 'unop' and vd_[1]['rv']['op'] == 'PtrMetadata':
            r_ = _root_call(b, op_local(vd_[1]['rv']['a']))
            if r_ is not None:
                c3_ = callee_of(r_)
                return bool(c3_ and c3_['name'] == 'index' and 'RangeInclusive' in c3_['full'])
        return False
    for db in sorted(b.dom.get(bb, [])):
        tt = b.term(db)
        if tt['k'] != 'switch':
            continue
        dl = op_local(tt['discr'])
        vd = value_def(b, dl) if dl is not None else None
        if not (vd and vd[0] == 'assign' and vd[1]['rv']['k'] == 'binop' and vd[1]['rv']['op'] in ('Eq', 'Ne')):
            continue
        rv = vd[1]['rv']
        sides = [(rv['a'], rv['b']), (rv['b'], rv['a'])]
        for x, y in sides:
            lx, ly = op_local(x), op_local(y)
            cy = op_const(y)
            if cy is None and ly is not None:
                vy = value_def(b, ly)
                if vy and vy[0] == 'assign' and vy[1]['rv']['k'] == 'use':
                    cy = op_const(vy[1]['rv']['op'])
            if cy is None or not incl_slice_len(lx):
                continue
            try:
                is_zero = int(cy.get('v', cy) if isinstance(cy, dict) else cy) == 0
            except (TypeError, ValueError):
                is_zero = False
            if not is_zero:
                continue
            # the edge on which `len == 0` holds: Eq -> non-zero labels/otherwise ; Ne -> label 0
            holds = [tg for lab, tg in b.edges(db) if (lab != 0) == (rv['op'] == 'Eq')]
            if holds and all(b.dominates(z, bb) for z in holds):
                return True, '', 'an empty `start..=end` slice does not exist (slice::index panics first): the `[]` arm is dead'
    return False, 'explicit panic (`%s`) on a path that hostile input may reach; no enumerated guard discharges it' % c['full'], None


def _iter_root(b, t):
    """root local (parameter or slice local) an iterator chain starts from"""
    cur = op_local(t['args'][0])
    for _ in range(10):
        vd = value_def(b, cur) if cur is not None else None
        if vd is None:
            return _root_of(b, cur)
        if vd[0] == 'call':
            c = callee_of(vd[1])
            if c and c['name'] in ('map', 'iter', 'copied', 'cloned', 'filter', 'into_iter', 'rev', 'skip', 'zip', 'deref'):
                cur = op_local(vd[1]['args'][0])
                continue
            return None
        return _root_of(b, cur)
    return None


def _root_of(b, l):
    if l is None:
        return None
    pl = resolve_ref(b, l)
    if pl is None:
        root, pl2, _ = copies_of(b, l)
        return ('l', root) if root is not None else None
    if not pl['p'] or all(e['k'] == 'deref' for e in pl['p']):
        root, pl2, _ = copies_of(b, pl['l'])
        return ('l', root if root is not None else pl['l'])
    return ('p', place_key(pl))


def _root_call(b, l):
    cur = l
    for _ in range(8):
        defs = b.defs.get(cur, [])
        if len(defs) != 1:
            return None
        bi, si, kind, s = defs[0]
        if kind == 'call':
            return s
        rv = s['rv']
        if rv['k'] == 'ref':
            pl = rv['pl']
            if pl['p'] and all(e['k'] == 'deref' for e in pl['p']):
                cur = pl['l']
                continue
            return None
        if rv['k'] in ('use', 'cast'):
            pl = op_place(rv['op'])
            if pl is None or pl['p']:
                return None
            cur = pl['l']
            continue
        return None
    return None


def _all_variants_tested(facts, b, bb):
    # the enum: type of *self
    ty = b.locals[1]
    adt = ty.get('to_adt') or ty.get('adt')
    a = facts.adts.get(adt)
    if not a:
        return False
    nvar = len(a['variants'])
    tested = set()
    for db in sorted(b.dom.get(bb, [])):
        tt = b.term(db)
        if tt['k'] != 'switch':
            continue
        dl = op_local(tt['discr'])
        d2 = b.defs.get(dl, []) if dl is not None else []
        if len(d2) == 1 and d2[0][2] == 'assign' and d2[0][3]['rv']['k'] == 'discr':
            pl = d2[0][3]['rv']['pl']
            if pl['l'] == 1:
                for lab, tg in b.edges(db):
                    if lab != 'otherwise' and not b.dominates(tg, bb):
                        tested.add(lab)
    return len(tested) == nvar
