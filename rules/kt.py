"""KT: key tables of encoder vs decoder; KV: key/value splitting (C02, C03, C04, C11).

K1 every key the decoder reads is written by the writer of the same section, except the
   exclusions the property statement itself lists
K2 every written key takes its value from the field the decoder stores that key in
K3 literal key text in templates is accepted by that section's key parser
K4 enums written `as i32` are read back to the same variant by the decoder's conversions
KV value = remainder after the first colon; the six parsers split through KeyValue::parse only;
   the metadata parser does not strip comments
"""
import hirutil as H
from facts import callee_of
from common import loc_of

SECTIONS = {
    # section -> (decoder type, key enum, writer fn)
    'general': ('section::general::decode::General', 'section::general::decode::GeneralKey',
                'encode::<impl beatmap::Beatmap>::encode_general'),
    'editor': ('section::editor::Editor', 'section::editor::EditorKey',
               'encode::<impl beatmap::Beatmap>::encode_editor'),
    'metadata': ('section::metadata::Metadata', 'section::metadata::MetadataKey',
                 'encode::<impl beatmap::Beatmap>::encode_metadata'),
    'difficulty': ('section::difficulty::Difficulty', 'section::difficulty::DifficultyKey',
                   'encode::<impl beatmap::Beatmap>::encode_difficulty'),
}

# Exclusions: each line quotes the property statement (C02) that licenses it.
K1_EXCLUSIONS = {
    # "Only what the legacy text format cannot carry is excluded: default sample bank/volume, ..."
    ('section::general::decode::GeneralKey', 'SampleVolume'): 'C02: "default sample bank/volume" is excluded',
}
K1_COND_EXTRA = {
    # C02: "special style outside mania" is excluded by the statement
    ('section::general::decode::GeneralKey', 'SpecialStyle'): {'mode'},
}
K2_EXCLUSIONS = {
    # SampleSet is written from the first sample point, the decoder stores it as the default bank:
    # "default sample bank/volume" is excluded by the statement
    ('section::general::decode::GeneralKey', 'SampleSet'): 'C02: "default sample bank/volume" is excluded',
}


def decoder_key_table(facts, dec_ty, key_enum, sec):
    """variant -> set(state field names assigned in its arm), from the primary parser's `match key`"""
    path = '<%s as decode::DecodeBeatmap>::parse_%s' % (dec_ty, sec)
    hfn = facts.hir.get(path)
    if hfn is None:
        return None, path
    hfn = H.inlined_fn(facts, hfn, depth=2)      # arms may delegate to private methods of the state
    table = {}

    def visit(e, anc):
        if e.get('k') != 'match' or e.get('src', '').startswith('TryDesugar'):
            return
        sc = e['scrut']
        if sc.get('k') != 'local' or sc.get('name') != 'key':
            return
        for a in e['arms']:
            vs = []
            _pat_variants(a['pat'], key_enum, vs)
            fields = set()

            def v2(n, anc2):
                if n.get('k') in ('assign', 'assignop'):
                    fc = H.field_chain(n['l'])
                    if fc and fc[0] == 'state' and fc[1]:
                        fields.add(tuple(fc[1]))
                if n.get('k') == 'mcall' and n.get('name') in ('clone_into', 'push', 'push_str', 'extend', 'insert'):
                    for arg in [n['recv']] + n['args']:
                        inner = arg
                        while isinstance(inner, dict) and inner.get('k') == 'addr':
                            inner = inner['e']
                        fc = H.field_chain(inner)
                        if fc and fc[0] == 'state' and fc[1]:
                            fields.add(tuple(fc[1]))
            H.walk(a['body'], v2)
            # expression-oriented form: `let x = match kind { A => Some(v), .. }; if let Some(v) = x { state.f = v }` --
            # the fields written from x belong to the arms that yield a value other than `None`
            par = anc[-1] if anc else None
            if isinstance(par, dict) and par.get('k') == 'slet' and par.get('init') is e and par['pat'].get('k') == 'bind':
                import symeval as SE
                vt = SE.SymEval(None, budget=3000).value(a['body'], {})
                lv = [l for _c, l in SE.leaves(vt)]
                yields = any(not (isinstance(l, dict) and H.peel(l).get('k') == 'path' and H.peel(l).get('name') == 'None')
                             and not (isinstance(l, dict) and l.get('k') in ('returned', 'unit')) for l in lv)
                if yields:
                    fields |= flows.setdefault(par['pat']['name'], _fields_fed_by(hfn, par['pat']['name']))
            for v in vs:
                table.setdefault(v, set()).update(fields)
    flows = {}
    H.walk(hfn['body'], visit)
    adt = facts.adts.get(key_enum)
    variants = [v['name'] for v in adt['variants']] if adt else []
    if variants and any(not table.get(v) for v in variants):
        # some key is not decided by an arm of `match key` that writes its field: the same table from the paths of the
        # parser (selector helpers handing out `&mut` fields, `key == K` tests)
        bt = key_table_by_paths(hfn, key_enum, variants)
        if bt:
            for v, fs in bt.items():
                if fs and not table.get(v):
                    table[v] = set(fs)
    return table, path


def key_table_by_paths(hfn, key_enum, variants):
    """variant -> state fields that may be written when the key is that variant, by symbolic evaluation of the
    (inlined) parser: tests of the key are `match key { .. }` arms and `key == Variant` comparisons, in the parser or in
    a selector helper (`state.text_field_mut(key) -> Option<&mut String>`: the reference each arm hands out is followed to
    the write through it); any other test leaves both branches open"""
    import symeval as SE

    WRITERS = ('clone_into', 'push', 'push_str', 'extend', 'insert', 'clear', 'truncate')

    def state_field(e):
        e = H.peel(e)
        while isinstance(e, dict) and e.get('k') in ('addr',) or (isinstance(e, dict) and e.get('k') == 'unary' and e.get('op') == 'Deref'):
            e = H.peel(e['e'])
        fc = H.field_chain(e) if isinstance(e, dict) else None
        if fc and fc[0] == 'state' and fc[1]:
            return tuple(fc[1])
        return None

    class Ev(SE.SymEval):
        def note(self, env, fld):
            env2 = dict(env)
            env2['#w'] = tuple(env.get('#w', ())) + (fld,)
            return env2

        def scan(self, e, env):
            hits = []

            def v(n, anc):
                if any(a.get('k') == 'closure' for a in anc):
                    return
                if n.get('k') == 'mcall' and n.get('name') in WRITERS:
                    for arg in [n['recv']] + n['args']:
                        f_ = state_field(self.subst(arg, env))
                        if f_:
                            hits.append(f_)
            if isinstance(e, dict):
                H.walk(e, v)
            for f_ in hits:
                env = self.note(env, f_)
            return env if hits else None

        def effect(self, st, env):
            return self.scan(st, env)

        def stmt(self, st, env, knext, kret, as_tail=None):
            if isinstance(st, dict) and st.get('k') in ('assign', 'assignop'):
                f_ = state_field(self.subst(st['l'], env))
                if f_:
                    env = self.note(env, f_)
            elif isinstance(st, dict) and st.get('k') in ('slet', 'let') and 'init' in st and \
                    not (isinstance(st['init'], dict) and st['init'].get('k') in ('if', 'match', 'block')):
                e2 = self.scan(st['init'], env)
                if e2 is not None:
                    env = e2
            return super().stmt(st, env, knext, kret, as_tail)
    ev = Ev(None, budget=40000)
    ev.track_let_blocks = True
    body = hfn['body']
    try:
        tree = ev.seq(list(body.get('stmts', [])), body.get('expr'), {},
                      lambda env, tail: ('v', {'k': 'end', 'w': (ev.scan(tail, env) or env).get('#w', ()) if tail is not None
                                               else env.get('#w', ())}),
                      kret=lambda vt, env=None: ('v', {'k': 'ret', 'w': (env or {}).get('#w', ())}))
    except SE.Stop:
        return None

    def is_key(e):
        e = H.peel(e)
        return isinstance(e, dict) and e.get('k') == 'local' and e.get('name') == 'key'

    def classify(c):
        if c[0] == 'pat' and is_key(c[2]):
            vs = []
            _pat_variants(c[1], key_enum, vs)
            return set(vs) if vs else None
        if c[0] == 'e':
            e = H.peel(c[1])
            if isinstance(e, dict) and e.get('k') == 'binary' and e.get('op') in ('Eq', 'Ne'):
                for x, y in ((e['a'], e['b']), (e['b'], e['a'])):
                    y0 = H.peel(y)
                    if is_key(x) and isinstance(y0, dict) and y0.get('k') == 'path' and y0.get('def', '').startswith(key_enum + '::'):
                        return ({y0['name']}, e['op'] == 'Eq')
        return None

    def fields(t, var):
        if t[0] == 'v':
            return set(t[1].get('w', ())) if isinstance(t[1], dict) else set()
        cl = classify(t[1])
        if cl is None:
            return fields(t[2], var) | fields(t[3], var)
        if isinstance(cl, tuple):
            vs, eq = cl
            holds = (var in vs) == eq
        else:
            holds = var in cl
        return fields(t[2] if holds else t[3], var)
    return {v: fields(tree, v) for v in variants}


def _fields_fed_by(hfn, name):
    """state fields assigned / pushed to from local `name` (directly, or under an `if let .. = name`)"""
    fields = set()

    def mentions(x):
        hit = []
        H.walk(x if isinstance(x, dict) else {}, lambda n, a: hit.append(n) if n.get('k') == 'local' and n.get('name') == name else None)
        return bool(hit)

    def v(n, anc):
        tgt = None
        if n.get('k') == 'assign':
            fc = H.field_chain(n['l'])
            if fc and fc[0] == 'state' and fc[1]:
                tgt = tuple(fc[1])
                src = n['r']
        elif n.get('k') == 'mcall' and n.get('name') in ('push', 'extend', 'insert'):
            fc = H.field_chain(H.peel(n['recv']))
            if fc and fc[0] == 'state' and fc[1]:
                tgt = tuple(fc[1])
                src = n['args']
        if tgt is None:
            return
        guarded = any(a.get('k') == 'if' and mentions(a['c']) for a in anc) or \
            any(a.get('k') == 'match' and mentions(a['scrut']) for a in anc)
        if guarded or mentions(src if isinstance(src, dict) else {'k': 'x', 'v': src}):
            fields.add(tgt)
    H.walk(hfn['body'], v)
    return fields


def _pat_variants(p, key_enum, out):
    if isinstance(p, dict):
        if p.get('k') == 'path' and p.get('def', '').startswith(key_enum + '::'):
            out.append(p['name'])
        for v in p.values():
            _pat_variants(v, key_enum, out)
    elif isinstance(p, list):
        for x in p:
            _pat_variants(x, key_enum, out)


def writer_key_table(facts, writer, key_enum):
    """list of (variant, value roots (set of first-level self fields), cond roots, ln, const_value?)"""
    hfn = facts.hir.get(writer)
    if hfn is None:
        return None
    inits_by_fn = {}
    rows = []
    lits = []
    for ev in H.flat_write_events(facts, writer):
        if ev['kind'] != 'fmt':
            continue
        inits = H.event_inits(facts, ev, inits_by_fn)
        args = ev['args']
        pieces = ev['pieces']
        cond_roots = set()
        for c in ev['conds']:
            cond_roots |= H.roots_of(c, inits)
        # position of each arg in pieces
        arg_pos = {}
        for pi, p in enumerate(pieces):
            if p[0] == 'arg':
                arg_pos.setdefault(p[1], pi)
        for ai, a in enumerate(args):
            pe = H.peel(a)
            if pe.get('k') == 'path' and pe.get('def', '').startswith(key_enum + '::'):
                variant = pe['name']
                # value = next arg if the template has a placeholder right after ": "
                pi = arg_pos.get(ai)
                value_roots = set()
                const_val = None
                if pi is not None and pi + 2 < len(pieces) and pieces[pi + 1][0] == 'lit' and \
                        pieces[pi + 1][1] == ': ' and pieces[pi + 2][0] == 'arg':
                    vi = pieces[pi + 2][1]
                    if vi < len(args):
                        value_roots = H.roots_of(args[vi], inits)
                elif pi is not None and pi + 1 < len(pieces) and pieces[pi + 1][0] == 'lit' and \
                        pieces[pi + 1][1].startswith(': '):
                    const_val = pieces[pi + 1][1][2:].split('\n')[0]
                sep_ok = pi is not None and pi + 1 < len(pieces) and pieces[pi + 1][0] == 'lit' and \
                    pieces[pi + 1][1].startswith(':')
                rows.append({'variant': variant, 'roots': value_roots, 'cond_roots': cond_roots, 'ln': ev['ln'],
                             'const': const_val, 'sep_ok': sep_ok})
        # literal keys: a literal piece that starts a line and ends with ": "
        for pi, p in enumerate(pieces):
            if p[0] == 'lit':
                for seg in p[1].split('\n'):
                    if seg.endswith(': ') and len(seg) > 2 and (pi == 0 or True):
                        # only when this literal begins a line: previous piece ends with \n or is first
                        starts = pi == 0 or (pieces[pi - 1][0] == 'lit' and pieces[pi - 1][1].endswith('\n')) or \
                            p[1].split('\n')[0] != seg
                        if starts and not seg.startswith('['):
                            vi = pieces[pi + 1][1] if pi + 1 < len(pieces) and pieces[pi + 1][0] == 'arg' else None
                            roots = H.roots_of(args[vi], inits) if vi is not None and vi < len(args) else set()
                            lits.append({'key': seg[:-2], 'roots': roots, 'ln': ev['ln']})
    return rows, lits


def _default_value(facts, e, depth=0):
    """symbolic default: ('bool', b) | ('empty',) | ('num', v) | ('variant', path) | None"""
    e = H.peel(e)
    if not isinstance(e, dict) or depth > 4:
        return None
    k = e.get('k')
    if k == 'lit':
        if e.get('t') == 'bool':
            return ('bool', bool(e['v']))
        if e.get('t') in ('int', 'float'):
            return ('num', float(e['v']))
        if e.get('t') == 'str' and e['v'] == '':
            return ('empty',)
        return None
    if k == 'unary' and e.get('op') == 'Neg':
        v = _default_value(facts, e['e'], depth + 1)
        return ('num', -v[1]) if v and v[0] == 'num' else None
    if k == 'path':
        d = e.get('def', '')
        if e.get('dk', '').startswith(('Ctor', 'Variant')) or 'Ctor' in e.get('dk', ''):
            return ('variant', d)
        c = facts.consts.get(d)
        if c is not None and 'v' in c and isinstance(c['v'], (int, float)) and not isinstance(c['v'], bool):
            return ('num', float(c['v']))
        return ('variant', d) if '::' in d else None
    if k in ('call', 'mcall'):
        d = e['f'].get('def', '') if k == 'call' and e['f'].get('k') == 'path' else e.get('def', '')
        name = e['f'].get('name') if k == 'call' and e['f'].get('k') == 'path' else e.get('name')
        ty = e.get('ty', '') or ''
        if name in ('new', 'default') and ty in ('std::string::String', 'String'):
            return ('empty',)
        if name == 'default':
            # `T::default()`: the body of T's Default impl
            for pth, h in facts.hir.items():
                if pth.endswith(' as std::default::Default>::default') and pth.startswith('<' + ty + ' '):
                    body = h['body']
                    tail = body.get('expr') if body.get('k') == 'block' and not body.get('stmts') else body
                    return _default_value(facts, tail, depth + 1)
            if ty == 'bool':
                return ('bool', False)
            if ty in ('i32', 'f64', 'f32', 'u8', 'usize', 'i64'):
                return ('num', 0.0)
        return None
    return None


# C02: "Only what the legacy text format cannot carry is excluded: ... non-positive ids and countdown offset"
K12_RANGE_EXCLUSIONS = {'CountdownOffset', 'BeatmapID', 'BeatmapSetID'}


def check_omitted_is_default(facts, out, sec, dec_ty, key_enum, writer, dtab):
    """K12: a key that is left out when its field has some value X reads back as the decoder's default for that
    field, so X must be that default (`if self.f != X { write }`, `if self.flag { write 1 }`, `if !s.is_empty()`)."""
    hfn = facts.hir.get(writer)
    dflt = None
    for pth, h in facts.hir.items():
        if pth == '<%s as std::default::Default>::default' % dec_ty:
            dflt = h
    if hfn is None:
        return 0
    vh = H.inlined_fn(facts, hfn, depth=2)
    lits = {}
    if dflt is not None:
        def vs(n, anc):
            if n.get('k') == 'struct':
                for f in n.get('fields', []):
                    lits.setdefault(f['n'], f['e'])
        H.walk(H.inlined_fn(facts, dflt, depth=1)['body'], vs)
    n = 0

    def own_field(e):
        fc = H.field_chain(H.peel(e))
        return fc[1][-1] if fc and fc[0] == 'self' and fc[1] else None

    def visit(x, path):
        nonlocal n
        if x.get('k') != 'if' or 'e' in x:
            return
        # keys written in the then-branch
        keys = []

        def vk(y, anc):
            if y.get('k') == 'path' and y.get('def', '').startswith(key_enum + '::'):
                keys.append(y['name'])
        H.walk(x['t'], vk)
        pol = True
        if not keys:
            # guard form: `if COND { return Ok(()) }` and then the write -- the keys of the rest of the block, written
            # when COND does not hold
            t_ = H.peel(x['t'])
            only_ret = isinstance(t_, dict) and (t_.get('k') == 'ret' or (t_.get('k') == 'block' and len(t_.get('stmts', [])) + (1 if t_.get('expr') else 0) == 1
                                                                         and H.peel((t_.get('stmts') or [t_.get('expr')])[0]).get('k') == 'ret'))
            blk = path[-1][0] if path and path[-1][1] == 'stmts' else None
            if only_ret and isinstance(blk, dict) and blk.get('k') == 'block':
                idx = [i for i, st_ in enumerate(blk.get('stmts', [])) if st_ is x]
                if idx:
                    for rest in blk['stmts'][idx[0] + 1:] + ([blk['expr']] if blk.get('expr') else []):
                        H.walk(rest if isinstance(rest, dict) else {}, vk)
                    pol = False
        if not keys:
            return
        c = H.peel(x['c'])
        while isinstance(c, dict) and c.get('k') == 'unary' and c.get('op') == 'Not':
            c = H.peel(c['e'])
            pol = not pol
        fld, omitted = None, None
        if own_field(c) and pol:
            fld, omitted = own_field(c), ('bool', False)
        elif own_field(c):
            fld, omitted = own_field(c), ('bool', True)
        elif c.get('k') == 'mcall' and c.get('name') == 'is_empty' and own_field(c['recv']) and not pol:
            fld, omitted = own_field(c['recv']), ('empty',)
        elif c.get('k') == 'binary' and c.get('op') in ('Ne', 'Eq') and (c['op'] == 'Ne') == pol:
            for a_, b_ in ((c['a'], c['b']), (c['b'], c['a'])):
                if own_field(a_):
                    fld, omitted = own_field(a_), _default_value(facts, b_)
                    if omitted is None:
                        omitted = ('unknown',)
        if fld is None and c.get('k') == 'binary' and c.get('op') in ('Gt', 'Ge', 'Lt', 'Le') and pol:
            # `if self.f > 0 { write }`: the key is left out for a whole range of values.  The statement excludes exactly
            # "non-positive ids and countdown offset"; for any other key the range contains values that are not the default
            for a_, b_ in ((c['a'], c['b']), (c['b'], c['a'])):
                if own_field(a_):
                    for key in sorted(set(keys)):
                        if own_field(a_) in {f[-1] for f in dtab.get(key, set())}:
                            n += 1
                            okr = key in K12_RANGE_EXCLUSIONS
                            out.add('KT-K12', writer, 'omitted-range:' + key, 'src/encode.rs:%s' % x.get('ln', 0), okr,
                                    '' if okr else ('key `%s` is left out for a whole range of `%s` (`%s 0`-style test): values in that '
                                                    'range other than the decoder\'s default do not survive encode -> decode'
                                                    % (key, own_field(a_), c.get('op'))), ordinal=False)
            return
        if fld is None:
            return          # conditions on other things are K1b's business
        for key in sorted(set(keys)):
            dfields = {f[-1] for f in dtab.get(key, set())}
            if fld not in dfields:
                continue
            n += 1
            want = _default_value(facts, lits[fld]) if fld in lits else None
            ok = want is not None and omitted == want
            out.add('KT-K12', writer, 'omitted-is-default:' + key, 'src/encode.rs:%s' % x.get('ln', 0), ok,
                    '' if ok else ('key `%s` is left out when `%s` is %s, but a decoder that does not see the key keeps its '
                                   'default %s: that value does not survive encode -> decode') % (key, fld, omitted, want),
                    ordinal=False)
    H.walk_paths(vh['body'], visit)
    return n


SECTION_HEADER = {'general': 'General', 'editor': 'Editor', 'metadata': 'Metadata', 'difficulty': 'Difficulty'}


def writer_of(facts, sec, default):
    import fr
    ws = fr.section_writers(facts).get(SECTION_HEADER.get(sec, sec), [])
    return ws[0] if len(ws) == 1 else default


def run(facts, out):
    n_keys = 0
    for sec, (dec_ty, key_enum, writer) in SECTIONS.items():
        writer = writer_of(facts, sec, writer)
        adt = facts.adts.get(key_enum)
        out.anchor('KT', 'key enum ' + key_enum, adt is not None)
        if adt is None:
            continue
        variants = [v['name'] for v in adt['variants']]
        dtab, ppath = decoder_key_table(facts, dec_ty, key_enum, sec)
        out.anchor('KT', 'decoder key table of ' + sec, bool(dtab), '%d keys' % len(dtab or {}))
        wt = writer_key_table(facts, writer, key_enum)
        out.anchor('KT', 'writer ' + writer, wt is not None)
        if not dtab or wt is None:
            continue
        rows, lits = wt
        check_omitted_is_default(facts, out, sec, dec_ty, key_enum, writer, dtab)
        written = {}
        for r in rows:
            written.setdefault(r['variant'], []).append(r)
        lit_keys = {l['key']: l for l in lits}
        wbody = facts.body(writer)
        wfile = wbody.file if wbody else 'src/encode.rs'
        for v in variants:
            n_keys += 1
            dfields = {f[-1] for f in dtab.get(v, set())}
            if v not in dtab:
                out.add('KT-K1', ppath, 'key:' + v, ppath, False,
                        'key `%s` is declared but the decoder has no arm for it' % v, ordinal=False)
                continue
            rws = written.get(v, [])
            lit = lit_keys.get(v)
            if not rws and not lit:
                exc = K1_EXCLUSIONS.get((key_enum, v))
                out.add('KT-K1', writer, 'key:' + v, '%s:%d' % (wfile, wbody.line if wbody else 0), bool(exc),
                        '' if exc else ('the decoder reads `%s` into `%s` but the %s writer never writes it: the value is '
                                        'lost on decode -> encode -> decode') % (v, ','.join(sorted(dfields)), sec),
                        {'exclusion': exc} if exc else None, ordinal=False)
                continue
            out.add('KT-K1', writer, 'key:' + v, '%s:%d' % (wfile, (rws[0]['ln'] if rws else lit['ln'])), True, ordinal=False)
            # K1b: a key may be written conditionally only on its own field (the statement's exclusions:
            # non-positive ids / countdown offset, empty text) or on a listed extra condition
            for r in rws:
                extra = r['cond_roots'] - dfields - K1_COND_EXTRA.get((key_enum, v), set())
                okc = not extra
                out.add('KT-K1', writer, 'cond:' + v, '%s:%d' % (wfile, r['ln']), okc,
                        '' if okc else ('key `%s` is only written when a condition on `%s` holds; the decoder reads it '
                                        'unconditionally, so the value is lost for the other case') % (v, ','.join(sorted(extra))),
                        ordinal=False)
            # K2
            for r in rws:
                roots = r['roots'] if r['const'] is None else r['cond_roots']
                ok = bool(roots & dfields) and (r['const'] is not None or roots <= dfields | set())
                exc = K2_EXCLUSIONS.get((key_enum, v))
                why = ''
                if not ok and not exc:
                    why = ('key `%s` is decoded into `%s` but written from `%s`%s' % (
                        v, ','.join(sorted(dfields)), ','.join(sorted(roots)) or 'nothing',
                        ' (constant value guarded by another field)' if r['const'] is not None else ''))
                out.add('KT-K2', writer, 'key:' + v, '%s:%d' % (wfile, r['ln']), ok or bool(exc), why,
                        {'decoder_field': sorted(dfields), 'writer_roots': sorted(roots),
                         **({'exclusion': exc} if exc else {})}, ordinal=False)
                if not r['sep_ok']:
                    out.add('KT-K3', writer, 'sep:' + v, '%s:%d' % (wfile, r['ln']), False,
                            'key `%s` is not followed by `:` in the template' % v, ordinal=False)
            if lit:
                ok = bool(lit['roots'] & dfields)
                out.add('KT-K2', writer, 'litkey:' + v, '%s:%d' % (wfile, lit['ln']), ok,
                        '' if ok else 'literal key `%s` is written from `%s`, decoded into `%s`' % (
                            v, ','.join(sorted(lit['roots'])), ','.join(sorted(dfields))), ordinal=False)
        # K3: literal keys must be variants (section_keys! parses stringify!(variant))
        for l in lits:
            ok = l['key'] in variants
            out.add('KT-K3', writer, 'litkey-text:' + l['key'], '%s:%d' % (wfile, l['ln']), ok,
                    '' if ok else 'literal key text `%s` is not a key of %s: the decoder drops the line' % (l['key'], key_enum),
                    ordinal=False)
        # unknown enum keys written that the decoder does not read (cannot happen by typing)
    out.anchor('KT', 'keys checked', n_keys >= 35, '%d' % n_keys)
    check_key_fromstr(facts, out)
    check_colors(facts, out)
    check_events(facts, out)
    check_enum_numbers(facts, out)
    check_path_tokens(facts, out)
    check_sample_banks(facts, out)
    check_lossless(facts, out)
    check_end_time_separator(facts, out)
    check_line_termination(facts, out)
    check_whole_lists_written(facts, out)
    check_control_point_lists_whole(facts, out)
    check_timing_columns(facts, out)
    check_flags_as_numbers(facts, out)
    check_decoder_stores_as_read(facts, out)
    check_redundancy_tolerance(facts, out)


# K7: values of the key/value, event and colour sections are written as they are stored.  The
# decoder reads these values back with the same numeric type the field has, so any rounding,
# truncation, clamping or arithmetic between the field and the text changes what is read back.
LOSSY_METHODS = {'round', 'floor', 'ceil', 'trunc', 'abs', 'clamp', 'max', 'min', 'rem_euclid', 'signum', 'fract',
                 'to_lowercase', 'to_uppercase', 'to_ascii_lowercase', 'to_ascii_uppercase', 'trim', 'trim_start',
                 'trim_end', 'trim_matches', 'replace', 'saturating_sub', 'saturating_add', 'wrapping_add', 'wrapping_sub',
                 'unsigned_abs', 'div_euclid', 'powi', 'powf', 'sqrt', 'mul_add', 'to_bits', 'round_ties_even',
                 'truncate', 'chars', 'split', 'to_standardized_path', 'clean_filename'}
ARITH = {'Add', 'Sub', 'Mul', 'Div', 'Rem', 'Shl', 'Shr', 'BitAnd', 'BitOr', 'BitXor'}
INT_TYPES = {'i8', 'i16', 'i32', 'i64', 'i128', 'isize', 'u8', 'u16', 'u32', 'u64', 'u128', 'usize'}
# (writer suffix, description) -> reason, for values that are legitimately computed
K7_EXCEPTIONS = {}


def lossy_ops(e, inits, depth=0, seen=None):
    """lossy operations in the expression tree of a written value (following single `let`s)"""
    found = []
    seen = seen if seen is not None else set()

    def visit(n, anc):
        k = n.get('k')
        if k == 'cast':
            frm = n.get('from', '')
            to = n.get('ty', '')
            if frm in ('f32', 'f64') and to in INT_TYPES:
                found.append(('float-to-int cast `as %s`' % to, n.get('ln')))
            elif frm == 'f64' and to == 'f32':
                found.append(('narrowing cast `as f32`', n.get('ln')))
            elif frm in INT_TYPES and to in INT_TYPES and frm != to and _int_bits(to) < _int_bits(frm):
                found.append(('narrowing cast `%s as %s`' % (frm, to), n.get('ln')))
        elif k == 'mcall' and n.get('name') in LOSSY_METHODS:
            found.append(('`.%s()`' % n['name'], n.get('ln')))
        elif k == 'binary' and n.get('op') in ARITH:
            found.append(('arithmetic `%s`' % n['op'], n.get('ln')))
        elif k == 'local' and depth < 3 and n.get('name') not in seen:
            its = inits.get(n['name'], [])
            if len(its) == 1:
                seen.add(n['name'])
                found.extend(lossy_ops(its[0], inits, depth + 1, seen))
    H.walk(e, visit)
    return found


def _int_bits(t):
    return {'i8': 8, 'u8': 8, 'i16': 16, 'u16': 16, 'i32': 32, 'u32': 32, 'i64': 64, 'u64': 64, 'isize': 64, 'usize': 64,
            'i128': 128, 'u128': 128}.get(t, 0)


def check_lossless(facts, out):
    writers = [writer_of(facts, sec, w) for sec, (_d, _k, w) in SECTIONS.items()]
    writers.append(writer_of(facts, 'Events', 'encode::<impl beatmap::Beatmap>::encode_events'))
    writers.append(writer_of(facts, 'Colours', 'encode::<impl beatmap::Beatmap>::encode_colors'))
    nvals = 0
    for writer in writers:
        if facts.hir.get(writer) is None:
            continue
        wbody = facts.body(writer)
        wfile = wbody.file if wbody else 'src/encode.rs'
        bad = []
        for ev in H.flat_write_events(facts, writer):
            if ev['kind'] != 'fmt':
                continue
            inits = H.event_inits(facts, ev)
            for tr in ev.get('traits', []):
                if tr and tr != 'new_display':
                    # `{:?}` escapes quotes, control and combining characters; `{:e}`, `{:x}` change the number text
                    bad.append(('a `%s` format specifier instead of plain `{}`' % tr.replace('new_', ''), ev['ln']))
            for a in ev['args']:
                nvals += 1
                for what, ln in lossy_ops(a, inits):
                    if (writer.rsplit('::', 1)[-1], what) in K7_EXCEPTIONS:
                        continue
                    bad.append((what, ln or ev['ln']))
        ok = not bad
        out.add('KT-K7', writer, 'values-written-as-stored', '%s:%d' % (wfile, bad[0][1] if bad else (wbody.line if wbody else 0)),
                ok, '' if ok else ('a value is written through %s: the text no longer carries the stored value, so decoding it '
                                   'again yields a different value') % ', '.join(sorted({b[0] for b in bad})),
                {'lossy': [b[0] for b in bad]} if bad else None, ordinal=False)
    out.anchor('KT', 'written values examined for lossy conversions', nvals >= 40, '%d' % nvals)


# K8: the end time of a spinner is its own `,`-field; the end time of a hold is the first `:`-item of
# the sample field.  Which separator follows the end time is decided by the object's kind alone.
# K15: fields a second key may legitimately feed -- each line quotes the statement that says so
K15_SHARED_FIELDS = {
    # C11: "approach rate follows overall difficulty until an explicit approach rate is given"
    ('difficulty', ('difficulty', 'approach_rate')): {'OverallDifficulty', 'ApproachRate'},
}
# K15: keys whose stored value is deliberately not the parsed one (the decode-side limits of C11)
K15_CLAMPED = {('difficulty', 'slider_multiplier'), ('difficulty', 'slider_tick_rate')}


def check_decoder_stores_as_read(facts, out):
    """K15 (C03, the decode half of "encoding and decoding again shows exactly the edited value"):
    (a) every field of the four key/value sections is fed by one key only (exceptions: K15_SHARED_FIELDS) -- a second key
        writing it makes the field depend on the presence/order of another line (`Title` also filling `title_unicode`);
    (b) nothing that changes a value sits between the parsed text and the field: no clamp, `max`/`min`/`abs`, rounding,
        arithmetic, narrowing cast or text rewriting in the stored expression (locals followed through their `let`,
        helpers inlined), except for the two keys the format clamps (K15_CLAMPED).  (A comparison-chain clamp written
        out by hand is not seen by this rule.)"""
    import hp
    from hp import ANY, K, L, M, C, BIN, TRY, OR, CLAMP, CONTAINS, F
    n = 0
    for sec, (dec_ty, key_enum, writer) in SECTIONS.items():
        dtab, ppath = decoder_key_table(facts, dec_ty, key_enum, sec)
        hfn = facts.hir.get(ppath)
        if not dtab or hfn is None:
            continue
        b = facts.bodies.get(ppath)
        loc0 = '%s:%d' % (b.file, b.line) if b is not None else ppath
        # (a)
        feeders = {}
        for var, fields in dtab.items():
            for f_ in fields:
                feeders.setdefault(tuple(f_), set()).add(var)
        for f_, vs in sorted(feeders.items()):
            if f_[-1].startswith('has_'):
                continue
            allowed = K15_SHARED_FIELDS.get((sec, f_))
            ok = len(vs) == 1 or (allowed is not None and vs <= allowed)
            n += 1
            out.add('KT-K15', ppath, 'one-key-per-field:' + '.'.join(f_), loc0, ok,
                    '' if ok else ('field `%s` is written under the keys %s: what it holds after decoding depends on which of these '
                                   'lines are present and in which order, so an edit of it (or of the other key\'s field) does not '
                                   'read back as written' % ('.'.join(f_), sorted(vs))), ordinal=False)
        # (b)
        vh = H.inlined_fn(facts, hfn, depth=3)
        ctx = hp.Ctx(facts, H.binding_inits(vh), vh)
        ALTERING = {'clamp', 'max', 'min', 'abs', 'round', 'floor', 'ceil', 'trunc', 'rem_euclid', 'pow', 'powi', 'powf', 'sqrt',
                    'saturating_add', 'saturating_sub', 'saturating_mul', 'wrapping_add', 'wrapping_sub', 'wrapping_mul',
                    'checked_add', 'checked_sub', 'checked_mul', 'signum', 'to_lowercase', 'to_uppercase', 'to_ascii_lowercase',
                    'to_ascii_uppercase', 'replace', 'trim_matches', 'trim_start_matches', 'trim_end_matches', 'truncate'}
        ARITH = {'Add', 'Sub', 'Mul', 'Div', 'Rem', 'BitAnd', 'BitOr', 'BitXor', 'Shl', 'Shr'}

        def alterations(e, depth=0, seen=None):
            """operations in the value expression (locals followed through their single `let`) that change the parsed value"""
            seen = seen if seen is not None else set()
            found = []

            def v(x, anc):
                if any(a.get('k') == 'closure' for a in anc):
                    return
                if x.get('k') == 'mcall' and x.get('name') in ALTERING:
                    found.append('`.%s()`' % x['name'])
                elif x.get('k') == 'call' and x['f'].get('k') == 'path' and x['f'].get('name') in ALTERING:
                    found.append('`%s()`' % x['f']['name'])
                elif x.get('k') == 'binary' and x.get('op') in ARITH:
                    found.append('`%s`' % x['op'])
                elif x.get('k') == 'unary' and x.get('op') == 'Neg':
                    found.append('negation')
                elif x.get('k') == 'cast' and x.get('ty') in ('i8', 'i16', 'i32', 'u8', 'u16', 'u32', 'f32', 'usize', 'isize'):
                    found.append('`as %s`' % x['ty'])
                elif x.get('k') == 'local' and depth < 3 and x.get('name') not in seen and x.get('name') not in ('state', 'value', 'line', 'key'):
                    seen.add(x['name'])
                    its = hp.unique_inits(ctx, x['name'])
                    if len(its) == 1:
                        found.extend(alterations(its[0], depth + 1, seen))
            if isinstance(e, dict):
                H.walk(e, v)
            return found

        def visit(nd, anc):
            nonlocal n
            if nd.get('k') != 'assign':
                return
            fc = H.field_chain(nd['l'])
            if not (fc and fc[0] == 'state' and fc[1]):
                return
            fld = tuple(fc[1])
            if (sec, fld[-1]) in K15_CLAMPED:
                return                                          # decided by the clamp rows of C11
            alt = alterations(nd['r'])
            ok = not alt
            n += 1
            out.add('KT-K15', ppath, 'stored-as-read:' + '.'.join(fld), '%s:%s' % (b.file if b is not None else '', nd.get('ln')), ok,
                    '' if ok else ('`%s` is not stored as it was parsed (%s sits between the text and the field): a value the format '
                                   'can represent does not read back as written' % ('.'.join(fld), ', '.join(sorted(set(alt))))),
                    ordinal=False)
        H.walk(vh['body'], visit)
    out.anchor('KT', 'decoder assignments checked (K15)', n >= 30, '%d' % n)


def check_flags_as_numbers(facts, out):
    """K14: a boolean is never written with `{}`.  The decoders read every flag as a number (`i32::parse(v)? == 1`,
    first character `1`); `true`/`false` is rejected by those parsers, so a flag formatted through Display makes the
    encoder write a line its own decoder refuses.  Decided on the monomorphised call graph, so a generic
    `write_value::<W, T: Display>` helper instantiated with T = bool is seen exactly like a direct `write!`.
    (Guard of the rule: no decoder parses a `bool` with FromStr; if one ever does, the rule says so instead of firing.)"""
    inst = facts.instances
    enc = [i for i in inst if i['def'].startswith('encode::')]
    out.anchor('KT', 'monomorphised encoder functions', len(enc) >= 20, '%d' % len(enc))
    parses_bool = [i['full'] for i in inst if i['def'].endswith('std::str::FromStr>::from_str') and i['full'].startswith('<bool as')]
    by_def = {}
    for i in enc:
        fm = [c for c in i['calls'] if 'fmt::rt::Argument' in c['path'] and '::new_' in c['path']]
        if not fm:
            continue
        by_def.setdefault(i['def'], []).extend((i['full'], c) for c in fm)
    for d, cs in sorted(by_def.items()):
        bad = [(full, c) for full, c in cs if c['rfull'].endswith(('::<bool>', '::<&bool>', '::<&&bool>'))]
        b = facts.bodies.get(d)
        loc = '%s:%d' % (b.file, b.line) if b is not None else 'src/encode.rs'
        ok = not bad or bool(parses_bool)
        out.add('KT-K14', d, 'flags-written-as-numbers', loc, ok,
                '' if ok else ('`%s` formats a bool with `{}`: it writes `true`/`false`, which the decoder (flags are parsed as '
                               'integers and compared with 1) rejects' % bad[0][0]),
                {'formatted_argument_types': sorted({c['rfull'].split('::new_')[-1] for _f, c in cs}),
                 'note': 'a decoder parses bool via FromStr: rule not applicable' if parses_bool else None}, ordinal=False)


def check_timing_columns(facts, out):
    """K13: the columns of a written timing line come from the control point kind the decoder fills them into:
    the velocity column from the difficulty point's slider velocity, the signature from the timing point, the kiai /
    omit-first-bar flags from effect / timing point; the per-line properties are built in one place (the struct literal)
    and not patched afterwards."""
    from hp import Ctx, M, L, F, P, ANY, OR, CONTAINS, C, K as KC
    adt = 'encode::ControlPointProperties'
    ctor = None
    for pth, h in facts.hir.items():
        if pth.startswith('encode::'):
            lits = []
            H.walk(h['body'], lambda n, a: lits.append(n) if n.get('k') == 'struct' and n.get('adt') == adt and not n.get('base') else None)
            if lits:
                ctor = (pth, h, lits)
    out.anchor('KT', 'ControlPointProperties literal in the encoder', ctor is not None)
    if ctor is None:
        return
    pth, h, lits = ctor
    ctx = Ctx(facts, H.binding_inits(h), h)
    lit = lits[-1]
    fields = {f['n']: f['e'] for f in lit['fields']}
    KINDS = ('TimingPoint', 'DifficultyPoint', 'EffectPoint', 'SamplePoint')

    def reads(e, depth=0, seen=None):
        """(control point kind, field) pairs an expression reads, following the locals it is built from"""
        seen = seen if seen is not None else set()
        res = set()

        def v(n, anc):
            if n.get('k') == 'field':
                bty = (H.peel(n['e']).get('ty') or '').replace('&mut ', '').replace('&', '')
                for kd in KINDS:
                    if bty.endswith('::' + kd):
                        res.add((kd, n['n']))
            if n.get('k') == 'local' and n.get('name') not in seen and depth < 5:
                seen.add(n['name'])
                for i in ctx.inits.get(n['name'], []):
                    if isinstance(i, dict):
                        res.update(reads(i, depth + 1, seen))
        H.walk(e, v)
        return res
    checks = [
        ('slider_velocity', 'DifficultyPoint', 'slider_velocity', 'the velocity column is not the difficulty point\'s slider velocity'),
        ('timing_signature', 'TimingPoint', 'time_signature', 'the signature column is not the timing point\'s time signature'),
    ]
    for fname, kind, field, why in checks:
        e = fields.get(fname)
        rd = reads(e) if e is not None else set()
        other = sorted(x for x in rd if x[0] != kind or (fname == 'slider_velocity' and x[1] != field))
        ok = (kind, field) in rd and not other
        out.add('KT-K13', pth, 'column-source:' + fname, 'src/encode.rs:%s' % (lit.get('ln') or 0), ok,
                '' if ok else why + ' (it reads %s; a value of another control point kind would be read back into the wrong field)'
                % (other or sorted(rd)), ordinal=False)
    # no field of the per-line properties is patched after construction
    patched = []
    for p2, h2 in facts.hir.items():
        if not p2.startswith('encode::'):
            continue

        def v(n, anc):
            if n.get('k') in ('assign', 'assignop'):
                l = n['l']
                if isinstance(l, dict) and l.get('k') == 'field':
                    bty = (H.peel(l['e']).get('ty') or '')
                    if bty.replace('&mut ', '').replace('&', '') == adt:
                        patched.append((p2, l.get('n'), n.get('ln')))
        H.walk(h2['body'], v)
    ok = not patched
    out.add('KT-K13', pth, 'properties-built-once', 'src/encode.rs', ok,
            '' if ok else 'the per-line property `%s` is overwritten after it was derived from the control points (%s line %s)'
            % (patched[0][1], patched[0][0], patched[0][2]), ordinal=False)


END_SEP = {'Spinner': ',', 'Hold': ':'}


def check_end_time_separator(facts, out):
    writer = writer_of(facts, 'HitObjects', 'encode::<impl beatmap::Beatmap>::encode_hit_objects')
    hfn = facts.hir.get(writer)
    out.anchor('KT', 'hit-object writer', hfn is not None)
    if hfn is None:
        return
    arms = {}

    def visit(n, anc):
        if n.get('k') == 'match' and not n.get('src', '').startswith('TryDesugar'):
            for a in n['arms']:
                vs = []
                _pat_variants(a['pat'], 'section::hit_objects::HitObjectKind', vs)
                if vs and any(v in END_SEP for v in vs):
                    evs = H.flat_write_events(facts, writer)   # ensure helpers resolvable
                    arms.setdefault(tuple(sorted(vs)), []).append(a['body'])
    H.walk(hfn['body'], visit)
    if not arms:
        # the per-object part may live in a helper (`encode_hit_object`) called from a closure
        H.walk(H.inlined_fn(facts, hfn, depth=2, keep=('add_path_data', 'get_sample_bank'))['body'], visit)
    found = 0
    for vs, bodies in arms.items():
        for body in bodies:
            evs = _arm_write_events(facts, body)
            if not evs:
                continue        # the first match (position) writes nothing
            found += 1
            kinds = [v for v in vs if v in END_SEP]
            seps = set()
            dynamic = False
            for ev in evs:
                if ev['kind'] != 'fmt':
                    continue
                if not ev['pieces'] or ev['pieces'][-1][0] != 'lit':
                    dynamic = True
                else:
                    seps.add(ev['pieces'][-1][1][-1:])
            want = {END_SEP[k] for k in kinds}
            ok = not dynamic and seps == want and len(want) == 1
            out.add('KT-K8', writer, 'end-time-separator:' + '+'.join(kinds), 'src/encode.rs:%d' % (evs[0]['ln'] or 0), ok,
                    '' if ok else ('the end time of %s is followed by %s; the decoder reads a spinner\'s end time as a `,` field and '
                                   'a hold\'s as the first `:` item of the sample field, whatever the game mode') % (
                        '/'.join(kinds), 'a separator chosen at run time' if dynamic else sorted(seps)), ordinal=False)
    out.anchor('KT', 'spinner / hold arms of the hit-object writer', found >= 1, str(found))
    # decoder side: the hold arm splits its field on ':'
    dec = facts.hir.get('<section::hit_objects::decode::HitObjects as decode::DecodeBeatmap>::parse_hit_objects')
    if dec is not None:
        import hp
        ctx = hp.Ctx(facts, H.binding_inits(dec), dec)
        hits = hp.find(ctx, dec['body'], hp.M('split', hp.ANY(), hp.K(':')))
        out.add('KT-K8', dec['path'], 'hold-field-split-on-colon', 'src/section/hit_objects/decode.rs', bool(hits),
                '' if hits else 'the hold arm of the decoder no longer splits its field on `:`', ordinal=False)


def _arm_write_events(facts, body):
    """write events of a match-arm body with the local helpers it calls spliced in"""
    pseudo = {'path': '<arm>', 'params': [], 'body': body}
    out = []
    for e in H.write_events(pseudo):
        if e['kind'] == 'call' and e.get('def') in facts.hir:
            sub = H.flat_write_events(facts, e['def'])
            mapping = H.param_mapping(facts.hir[e['def']], e.get('callargs', []))
            for s_ in sub:
                if 'args' in s_ and mapping:
                    s_['args'] = [H.subst(a, mapping) for a in s_['args']]
            out.extend(sub)
        else:
            out.append(e)
    return [e for e in out if e['kind'] in ('fmt', 'bytes')]


# K10: every record of the key/value, event and colour sections is a line of its own: once a writer
# has begun a line, a line feed is written -- unconditionally with respect to the event that began the
# line -- before the next record begins or the writer returns.
def _ckey(c):
    return (c.get('k'), c.get('ln'))


def check_line_termination(facts, out):
    writers = [writer_of(facts, sec, w) for sec, (_d, _k, w) in SECTIONS.items()]
    writers.append(writer_of(facts, 'Events', 'encode::<impl beatmap::Beatmap>::encode_events'))
    writers.append(writer_of(facts, 'Colours', 'encode::<impl beatmap::Beatmap>::encode_colors'))
    n = 0
    for writer in writers:
        if facts.hir.get(writer) is None:
            continue
        wbody = facts.body(writer)
        wfile = wbody.file if wbody else 'src/encode.rs'
        evs = [e for e in H.flat_write_events(facts, writer) if e['kind'] in ('fmt', 'bytes')]
        open_ev = None
        bad = None
        for e in evs:
            t = H.event_text(e)
            n += 1
            if t is None:
                # bytes not known statically
                if open_ev is not None:
                    bad = bad or (e, 'the line begun at line %d is continued/terminated by bytes chosen at run time' % open_ev['ln'])
                continue
            if e.get('opaque'):
                continue
            starts_record = bool(t) and (t[0] == '\x00' or t[0].isalpha() or t[0] == '[')
            if open_ev is not None:
                if '\n' in t:
                    oc = {_ckey(c) for c in open_ev['conds']}
                    # a terminator under its own `if` may well be equivalent (`if !list.is_empty()`); one that sits
                    # in a loop the line start is not in is written per item, not per line
                    extra = [c for c in e['conds'] if _ckey(c) not in oc and c.get('k') in ('loop-marker', 'closure-marker')]
                    if extra:
                        bad = bad or (e, ('the line feed that ends the line begun at line %d is only written under a further '
                                          'condition / inside a loop (line %s)') % (open_ev['ln'], extra[0].get('ln')))
                    open_ev = None if t.endswith('\n') else e
                elif starts_record and not (t[0] == '\x00' and len(e['conds']) > len(open_ev['conds'])):
                    bad = bad or (e, 'a new record begins at line %d while the line begun at line %d has not been ended'
                                  % (e['ln'], open_ev['ln']))
                    open_ev = e
            else:
                if not t.endswith('\n'):
                    open_ev = e
        if open_ev is not None and bad is None:
            bad = (open_ev, 'the line begun at line %d is never ended' % open_ev['ln'])
        ok = bad is None
        out.add('KT-K10', writer, 'records-are-lines', '%s:%d' % (wfile, bad[0]['ln'] if bad else (wbody.line if wbody else 0)), ok,
                '' if ok else bad[1] + ': the next record would be glued to this line and misread or dropped by the decoder',
                ordinal=False)
    out.anchor('KT', 'write events examined for line termination', n >= 20, '%d' % n)


# K11: list-valued fields of the key/value, event and colour sections (bookmarks, breaks, combo and custom
# colours) are written element by element: the iteration over such a field is not filtered, cut,
# offset, reordered or de-duplicated.
LIST_SELECTING = {'filter', 'filter_map', 'skip', 'skip_while', 'take', 'take_while', 'step_by', 'rev', 'dedup', 'dedup_by',
                  'dedup_by_key', 'map_while', 'scan', 'last', 'nth', 'find', 'position', 'max', 'min', 'max_by', 'min_by',
                  'max_by_key', 'min_by_key', 'chunks', 'windows', 'rsplit', 'split_last'}


def check_whole_lists_written(facts, out):
    writers = [writer_of(facts, sec, w) for sec, (_d, _k, w) in SECTIONS.items()]
    writers.append(writer_of(facts, 'Events', 'encode::<impl beatmap::Beatmap>::encode_events'))
    writers.append(writer_of(facts, 'Colours', 'encode::<impl beatmap::Beatmap>::encode_colors'))
    n = 0
    for writer in writers:
        hfn = facts.hir.get(writer)
        if hfn is None:
            continue
        wbody = facts.body(writer)
        wfile = wbody.file if wbody else 'src/encode.rs'
        bad = []

        def visit(x, anc):
            nonlocal n
            if x.get('k') != 'mcall':
                return
            # receiver chain down to its root
            names = []
            cur = x
            while isinstance(cur, dict) and cur.get('k') == 'mcall':
                names.append(cur.get('name'))
                cur = H.peel(cur['recv'])
            fc = H.field_chain(cur) if isinstance(cur, dict) else None
            if not fc or fc[0] != 'self' or not fc[1]:
                return
            ty = cur.get('ty', '')
            if 'Vec<' not in ty and not ty.startswith('['):
                return
            if any(isinstance(a, dict) and a.get('k') == 'mcall' and a.get('recv') is not None and
                   H.peel(a['recv']) is x for a in anc[-1:]):
                return      # not the outermost call of the chain
            n += 1
            sel = [nm for nm in names if nm in LIST_SELECTING]
            if sel:
                bad.append((fc[1][-1], sel, x.get('ln')))
        H.walk(hfn['body'], visit)
        for h2 in [facts.hir[d] for d in _local_encode_callees(facts, hfn)]:
            H.walk(h2['body'], visit)
        ok = not bad
        out.add('KT-K11', writer, 'lists-written-whole', '%s:%d' % (wfile, bad[0][2] if bad and bad[0][2] else (wbody.line if wbody else 0)),
                ok, '' if ok else ('the list `%s` is written through `%s`: elements the decoder stored are not written back'
                                   % (bad[0][0], ', '.join(bad[0][1]))), ordinal=False)
    out.anchor('KT', 'iterations over list fields in the writers', n >= 3, '%d' % n)


CP_LISTS = ('timing_points', 'difficulty_points', 'effect_points', 'sample_points')
POINT_SELECTING = LIST_SELECTING | {'peekable', 'next_if', 'next_if_eq', 'peek', 'pop', 'truncate', 'drain', 'split_off', 'retain',
                                    'retain_mut', 'remove', 'swap_remove', 'clear'}


def check_control_point_lists_whole(facts, out):
    """K11b: the four control-point lists reach the written timing lines whole.  In the timing-point writer every
    iterator chain that starts at one of the lists -- or at a local collected from one, as long as its elements are still
    the points (a projection to `.time` ends the tracking: sorting and de-duplicating *times* is how groups are formed)
    -- must not select, cut, skip or conditionally consume (`filter`, `take`, `skip`, `peekable().next_if(..)`, ..)."""
    w = 'encode::<impl beatmap::Beatmap>::encode_timing_points'
    hfn = facts.hir.get(w)
    out.anchor('KT', 'timing-point writer', hfn is not None)
    if hfn is None:
        return
    hfn = H.inlined_fn(facts, hfn, depth=3)
    inits = H.binding_inits(hfn)
    wbody = facts.body(w)

    def chain(x):
        names = []
        cur = x
        while isinstance(cur, dict) and cur.get('k') == 'mcall':
            names.append(cur.get('name'))
            cur = H.peel(cur['recv'])
        return names, cur

    def projects_time(x):
        # `.map(|p| p.time)` somewhere in the chain: from here on the elements are times
        cur = x
        while isinstance(cur, dict) and cur.get('k') == 'mcall':
            if cur.get('name') == 'map' and cur.get('args'):
                cl = H.peel(cur['args'][0])
                if isinstance(cl, dict) and cl.get('k') == 'closure':
                    b = H.peel(cl['body'])
                    if isinstance(b, dict) and b.get('k') == 'field' and b.get('n') == 'time':
                        return True
            cur = H.peel(cur['recv'])
        return False
    point_locals = {}
    changed = True
    rounds = 0
    while changed and rounds < 6:
        changed = False
        rounds += 1
        for nm, its in inits.items():
            if nm in point_locals:
                continue
            for i in its:
                i0 = H.peel(i)
                names, root = chain(i0)
                fc = H.field_chain(root) if isinstance(root, dict) else None
                src = None
                if fc and fc[1] and fc[1][-1] in CP_LISTS:
                    src = fc[1][-1]
                elif isinstance(root, dict) and root.get('k') == 'local' and root.get('name') in point_locals and root['name'] != nm:
                    src = point_locals[root['name']]
                if src and not projects_time(i0) and ('collect' in names or not names or names[-1:] == ['iter'] or 'into_iter' in names
                                                      or 'peekable' in names or 'clone' in names or 'to_vec' in names):
                    point_locals[nm] = src
                    changed = True
    bad = []
    n = [0]

    def visit(x, anc):
        if x.get('k') != 'mcall':
            return
        if any(isinstance(a, dict) and a.get('k') == 'mcall' and a.get('recv') is not None and H.peel(a['recv']) is x for a in anc[-1:]):
            return
        names, root = chain(x)
        fc = H.field_chain(root) if isinstance(root, dict) else None
        src = None
        if fc and fc[1] and fc[1][-1] in CP_LISTS:
            src = fc[1][-1]
        elif isinstance(root, dict) and root.get('k') == 'local' and root.get('name') in point_locals:
            src = point_locals[root['name']]
        elif isinstance(root, dict) and root.get('k') == 'local' and root.get('name') in CP_LISTS and 'Vec<' in (root.get('ty') or ''):
            src = root['name']
        if not src:
            return
        n[0] += 1
        # names are outermost-first; everything applied before a projection to times concerns the points
        sel = []
        cur = x
        seen_proj = projects_time(x)
        cur_names = []
        c2 = x
        after_proj = True
        while isinstance(c2, dict) and c2.get('k') == 'mcall':
            is_proj = False
            if c2.get('name') == 'map' and c2.get('args'):
                cl = H.peel(c2['args'][0])
                b = H.peel(cl['body']) if isinstance(cl, dict) and cl.get('k') == 'closure' else None
                is_proj = isinstance(b, dict) and b.get('k') == 'field' and b.get('n') == 'time'
            if is_proj:
                after_proj = False
            elif not (seen_proj and after_proj) and c2.get('name') in POINT_SELECTING:
                sel.append(c2['name'])
            c2 = H.peel(c2['recv'])
        if sel:
            bad.append((src, sel, x.get('ln')))
    H.walk(hfn['body'], visit)
    ok = not bad
    out.add('KT-K11', w, 'control-point-lists-written-whole', '%s:%s' % (wbody.file if wbody else 'src/encode.rs', bad[0][2] if bad else (wbody.line if wbody else 0)),
            ok, '' if ok else ('the points of `%s` reach the written lines through `%s`: a point the decoder stored can be left out'
                               % (bad[0][0], ', '.join(bad[0][1]))),
            {'chains_examined': n[0], 'note': None if n[0] else 'no iteration over the lists is visible in the writer or its helpers: not decided'},
            ordinal=False)


def _local_encode_callees(facts, hfn):
    res = []

    def v(n, anc):
        d = None
        if n.get('k') == 'call' and n['f'].get('k') == 'path':
            d = n['f'].get('def')
        elif n.get('k') == 'mcall':
            d = n.get('def')
        if d and dict.__contains__(facts.hir, d) and d != hfn['path'] and d.startswith('encode::') and d not in res:
            res.append(d)
    H.walk(hfn['body'], v)
    return res


# K9: the encoder drops an inherited line whose properties equal the previous ones; the decoder drops a
# point that repeats the active one.  Both use a tolerance on floating-point fields: if the encoder's
# is coarser than the decoder's, points the decoder kept are not written and are gone after a round trip.
def check_redundancy_tolerance(facts, out):
    import hp
    fns = [p for p in facts.hir if p.endswith('::is_redundant')]
    out.anchor('KT', 'redundancy predicates (decoder points + encoder properties)', len(fns) >= 4, str(sorted(fns)))
    tol = {}
    for p in fns:
        h = H.inlined_fn(facts, facts.hir[p], depth=2)         # the comparison may live in a shared `nearly_equal` helper
        ctx = hp.Ctx(facts, H.binding_inits(h), h)

        pat = hp.OR(hp.BIN('Lt', hp.M('abs', hp.ANY()), hp.ANY()), hp.BIN('Le', hp.M('abs', hp.ANY()), hp.ANY()))
        for n, _anc in hp.find(ctx, h['body'], pat):
            tol.setdefault(p, []).append(ctx.const_value(hp.strip(n)['b']))
        # the two-sided spelling `-eps < d && d < eps`
        two = hp.BIN('And', hp.OR(hp.BIN('Lt', hp.UN('Neg', hp.ANY()), hp.ANY()), hp.BIN('Gt', hp.ANY(), hp.UN('Neg', hp.ANY()))),
                     hp.OR(hp.BIN('Lt', hp.ANY(), hp.ANY()), hp.BIN('Gt', hp.ANY(), hp.ANY())), commutative=True)
        for n, _anc in hp.find(ctx, h['body'], two):
            n0 = hp.strip(n)
            for side in (hp.strip(n0['a']), hp.strip(n0['b'])):
                for x in (side.get('a'), side.get('b')):
                    x0 = hp.strip(x) if isinstance(x, dict) else None
                    if isinstance(x0, dict) and not (x0.get('k') == 'unary' and x0.get('op') == 'Neg'):
                        v_ = ctx.const_value(x0)
                        if isinstance(v_, float):
                            tol.setdefault(p, []).append(v_)
    vals = {v for vs in tol.values() for v in vs}
    enc = [p for p in fns if p.startswith('encode::')]
    for p in enc:
        dec_vals = {v for q, vs in tol.items() if q not in enc for v in vs}
        mine = set(tol.get(p, []))
        ok = bool(mine) and None not in mine and bool(dec_vals) and max(mine) <= min(x for x in dec_vals if x is not None)
        out.add('KT-K9', p, 'redundancy-tolerance', 'src/encode.rs', ok,
                '' if ok else ('the encoder treats control-point properties as unchanged within %s, the decoder keeps points that '
                               'differ by more than %s: such points are not written and are lost on a round trip')
                % (sorted(mine, key=str), sorted(dec_vals, key=str)), ordinal=False)
    out.anchor('KT', 'encoder redundancy predicate', bool(enc), str(enc))


def check_key_fromstr(facts, out):
    """section_keys! : FromStr accepts exactly stringify!(variant), Display writes as_str()"""
    for sec, (dec_ty, key_enum, writer) in SECTIONS.items():
        adt = facts.adts.get(key_enum)
        if not adt:
            continue
        fs = facts.hir.get('<%s as std::str::FromStr>::from_str' % key_enum)
        asr = facts.hir.get('%s::as_str' % key_enum)
        out.anchor('KT', 'FromStr/as_str of ' + key_enum, fs is not None and asr is not None)
        if fs is None or asr is None:
            continue
        m_from = _match_table(fs)      # literal -> variant
        m_as = _match_table_rev(asr)   # variant -> literal
        for v in adt['variants']:
            name = v['name']
            ok = m_from.get(name) == name and m_as.get(name) == name
            out.add('KT-K3', '<%s as std::str::FromStr>::from_str' % key_enum, 'roundtrip:' + name,
                    loc_of(adt['sp']), ok,
                    '' if ok else 'key `%s`: Display writes `%s`, FromStr maps `%s` to `%s`' % (
                        name, m_as.get(name), name, m_from.get(name)), ordinal=False)


def _match_table(hfn):
    """{str literal: variant} from `match s { "lit" => Ok(Enum::V), .. }`"""
    res = {}

    def visit(e, anc):
        if e.get('k') == 'match' and not e.get('src', '').startswith('TryDesugar'):
            for a in e['arms']:
                lits = []
                _pat_lits(a['pat'], lits)
                var = _ctor_in(a['body'])
                for l in lits:
                    res[l] = var
    H.walk(hfn['body'], visit)
    return res


def _tuple_elems_used(cl):
    """indices of the tuple parameter a one-parameter closure reads (through a tuple pattern or `.0`/`.1`)"""
    used = set()
    ps = cl.get('params', [])
    if len(ps) != 1:
        return None
    p = ps[0]
    while isinstance(p, dict) and p.get('k') in ('pref', 'pderef') and 'p' in p:
        p = p['p']
    names = {}
    if p.get('k') == 'ptuple':
        for i, q in enumerate(p.get('pats', [])):
            for n in H.pat_bindings(q):
                names[n] = i
    elif p.get('k') == 'bind':
        whole = p['name']

        def v(n, anc):
            if n.get('k') == 'field' and str(n.get('n', '')).isdigit():
                e = H.peel(n['e'])
                while isinstance(e, dict) and e.get('k') == 'unary' and e.get('op') == 'Deref':
                    e = H.peel(e['e'])
                if isinstance(e, dict) and e.get('k') == 'local' and e.get('name') == whole:
                    used.add(int(n['n']))
        H.walk(cl['body'], v)
        return used
    else:
        return None

    def v2(n, anc):
        if n.get('k') == 'local' and n.get('name') in names:
            used.add(names[n['name']])
    H.walk(cl['body'], v2)
    return used


def _lookup_table(facts, hfn):
    """{str literal: variant} from a constant table of tuples searched by its literal column(s):
    `TABLE.iter().find(|(k, _)| *k == name).map(|(_, v)| *v)`, also with several literal columns
    (`find(|(_, number, name)| s == *number || s == *name)`); the closure of `find` must read literal columns only, the
    closure of `map` the variant column"""
    res = {}

    def table_of(e):
        e = H.peel(e)
        while isinstance(e, dict) and e.get('k') == 'mcall' and e.get('name') in ('iter', 'into_iter', 'as_slice', 'copied', 'cloned'):
            e = H.peel(e['recv'])
        while isinstance(e, dict) and e.get('k') in ('addr',):
            e = H.peel(e['e'])
        if isinstance(e, dict) and e.get('k') == 'path' and dict.__contains__(facts.hir, e.get('def', '')):
            b = H.peel(facts.hir[e['def']]['body'])
            if isinstance(b, dict) and b.get('k') == 'addr':
                b = H.peel(b['e'])
            if isinstance(b, dict) and b.get('k') == 'array':
                rows = [H.peel(x) for x in b.get('es', [])]
                if rows and all(isinstance(r, dict) and r.get('k') == 'tup' and len(r.get('es', [])) >= 2 for r in rows) and \
                        len({len(r['es']) for r in rows}) == 1:
                    return rows
        return None

    def visit(e, anc):
        if e.get('k') != 'mcall' or e.get('name') != 'map' or len(e.get('args', [])) != 1:
            return
        f = H.peel(e['recv'])
        if not (isinstance(f, dict) and f.get('k') == 'mcall' and f.get('name') == 'find' and len(f.get('args', [])) == 1):
            return
        rows = table_of(f['recv'])
        c_find, c_map = H.peel(f['args'][0]), H.peel(e['args'][0])
        if rows is None or c_find.get('k') != 'closure' or c_map.get('k') != 'closure':
            return
        arity = len(rows[0]['es'])
        lit_cols = {i for i in range(arity) if all(H.peel(r['es'][i]).get('k') == 'lit' and H.peel(r['es'][i]).get('t') == 'str' for r in rows)}
        var_cols = {i for i in range(arity) if all(_ctor_in(r['es'][i]) is not None and H.peel(r['es'][i]).get('k') != 'lit' for r in rows)}
        if not lit_cols or len(var_cols) != 1:
            return
        vi = next(iter(var_cols))

        def cols_used(cl):
            ps = cl.get('params', [])
            p = ps[0] if len(ps) == 1 else None
            while isinstance(p, dict) and p.get('k') in ('pref', 'pderef') and 'p' in p:
                p = p['p']
            if isinstance(p, dict) and p.get('k') == 'ptuple' and len(p.get('pats', [])) != arity:
                # a `..` in the pattern: the columns are told by the types of what is bound
                used = set()
                for q in p.get('pats', []):
                    for nm in H.pat_bindings(q):
                        tys = []
                        H.walk(cl['body'], lambda x, a: tys.append(x.get('ty') or '') if x.get('k') == 'local' and x.get('name') == nm else None)
                        if tys and all('str' in t_ for t_ in tys):
                            used |= lit_cols
                        elif tys:
                            used.add(vi)
                return used
            return _tuple_elems_used(cl)
        body = H.peel(c_find['body'])

        def eqs_only(x):
            x = H.peel(x)
            if isinstance(x, dict) and x.get('k') == 'binary' and x.get('op') == 'Or':
                return eqs_only(x['a']) and eqs_only(x['b'])
            return isinstance(x, dict) and x.get('k') == 'binary' and x.get('op') == 'Eq'
        if not eqs_only(body):
            return
        fu, mu = cols_used(c_find), cols_used(c_map)
        if not fu or not fu <= lit_cols or mu != {vi}:
            return
        for r in rows:
            var = _ctor_in(r['es'][vi])
            for ki in sorted(fu):
                lit = H.peel(r['es'][ki])['v']
                if lit in res and res[lit] != var:
                    continue            # `find` takes the first row
                res[lit] = var
    H.walk(hfn['body'], visit)
    return res


def _match_table_rev(hfn):
    res = {}

    def visit(e, anc):
        if e.get('k') == 'match' and not e.get('src', '').startswith('TryDesugar'):
            for a in e['arms']:
                vs = []
                _pat_paths(a['pat'], vs)
                b = H.peel(a['body'])
                if b.get('k') == 'lit' and b.get('t') == 'str':
                    for v in vs:
                        res[v] = b['v']
    H.walk(hfn['body'], visit)
    return res


def _pat_lits(p, out):
    if isinstance(p, dict):
        if p.get('k') == 'lit':
            if p.get('neg'):
                out.append(-p['v'] if isinstance(p.get('v'), (int, float)) else p.get('v'))
            else:
                out.append(p.get('v'))
        for k, v in p.items():
            _pat_lits(v, out)
    elif isinstance(p, list):
        for x in p:
            _pat_lits(x, out)


def _pat_paths(p, out):
    if isinstance(p, dict):
        if p.get('k') == 'path' and 'name' in p:
            out.append(p['name'])
        for v in p.values():
            _pat_paths(v, out)
    elif isinstance(p, list):
        for x in p:
            _pat_paths(x, out)


def _ctor_in(e):
    """first enum-variant constructor path mentioned in an expression (skipping Ok/Some/Err)"""
    found = []

    def visit(n, anc):
        if n.get('k') == 'path' and n.get('dk', '').startswith('Ctor') and n.get('name') not in ('Ok', 'Some', 'Err'):
            found.append(n['name'])
    H.walk(e, visit)
    return found[0] if found else None


def check_enum_numbers(facts, out):
    """K4: enums cast `as i32` in the encoder are read back to the same variant"""
    casted = {}
    for path, hfn in facts.hir.items():
        if not path.startswith('encode::'):
            continue

        def visit(e, anc):
            if e.get('k') == 'cast' and e.get('ty') == 'i32' and e.get('from', '') in facts.adts \
                    and facts.adts[e['from']]['kind'] == 'Enum':
                casted.setdefault(e['from'], []).append((path, e['ln']))
        H.walk(hfn['body'], visit)
    out.anchor('KT', 'enums written as i32', len(casted) >= 4, str(sorted(casted)))
    for en, sites in sorted(casted.items()):
        adt = facts.adts[en]
        discr = {}
        for i, v in enumerate(adt['variants']):
            discr[v['name']] = v.get('discr', i)
        fs = facts.hir.get('<%s as std::str::FromStr>::from_str' % en)
        tf = facts.hir.get('<%s as std::convert::TryFrom<i32>>::try_from' % en)
        if fs is None and tf is None:
            out.add('KT-K4', en, 'reader', loc_of(adt['sp']), False,
                    'enum `%s` is written as a number but has neither FromStr nor TryFrom<i32>' % en, ordinal=False)
            continue
        if fs is not None:
            tab = _match_table(fs)
            if not tab:
                tab = _lookup_table(facts, H.inlined_fn(facts, fs, depth=1))      # a constant table of spellings searched by text
            for name, d in discr.items():
                ok = tab.get(str(d)) == name
                out.add('KT-K4', '<%s as std::str::FromStr>::from_str' % en, 'number:%s=%d' % (name, d),
                        loc_of(adt['sp']), ok,
                        '' if ok else 'variant `%s` is written as %d but FromStr maps "%d" to `%s`' % (
                            name, d, d, tab.get(str(d))), ordinal=False)
        if tf is not None:
            tab = _match_table(tf)
            for name, d in discr.items():
                ok = tab.get(d) == name
                out.add('KT-K4', '<%s as std::convert::TryFrom<i32>>::try_from' % en, 'number:%s=%d' % (name, d),
                        loc_of(adt['sp']), ok,
                        '' if ok else 'variant `%s` is written as %d but TryFrom<i32> maps %d to `%s`' % (
                            name, d, d, tab.get(d)), ordinal=False)


def check_colors(facts, out):
    writer = writer_of(facts, 'Colours', 'encode::<impl beatmap::Beatmap>::encode_colors')
    hfn = facts.hir.get(writer)
    fs = facts.body('<section::colors::decode::ColorsKey as std::str::FromStr>::from_str')
    out.anchor('KT', 'colour writer and ColorsKey::from_str', hfn is not None and fs is not None)
    if hfn is None or fs is None:
        return
    # prefix accepted by the decoder
    prefixes = []
    for bb, t in fs.calls():
        c = callee_of(t)
        if c and c['name'] == 'starts_with':
            for a in t['args']:
                if a['k'] == 'const' and 'str' in a:
                    prefixes.append(a['str'])
    n = 0
    for ev in H.flat_write_events(facts, writer):
        if ev['kind'] != 'fmt':
            continue
        inits = H.event_inits(facts, ev)
        p0 = ev['pieces'][0] if ev['pieces'] else None
        if p0 and p0[0] == 'lit':
            n += 1
            ok = any(p0[1].startswith(pre) for pre in prefixes)
            roots = set()
            for a in ev['args']:
                roots |= H.roots_of(a, inits)
            ok2 = 'custom_combo_colors' in roots
            out.add('KT-K3', writer, 'litkey-text:' + p0[1], 'src/encode.rs:%d' % ev['ln'], ok and ok2,
                    '' if ok and ok2 else 'combo colour lines start with `%s`; the decoder recognises %s (roots %s)' % (
                        p0[1], prefixes, sorted(roots)), ordinal=False)
        elif p0 and p0[0] == 'arg':
            n += 1
            a0 = ev['args'][0] if ev['args'] else None
            fc = H.field_chain(H.peel(a0)) if a0 else None
            ok = bool(fc and fc[1] and fc[1][-1] == 'name')
            out.add('KT-K2', writer, 'custom-colour-name', 'src/encode.rs:%d' % ev['ln'], ok,
                    '' if ok else 'custom colour line does not start with the colour name', ordinal=False)
        # R,G,B order
        comps = []
        for a in ev['args']:
            pe = H.peel(a)
            if pe.get('k') == 'mcall' and pe.get('name') in ('red', 'green', 'blue', 'alpha'):
                comps.append(pe['name'])
        if comps:
            ok = comps[:3] == ['red', 'green', 'blue']
            out.add('KT-K2', writer, 'rgb-order', 'src/encode.rs:%d' % ev['ln'], ok,
                    '' if ok else 'colour components are written in the order %s; the decoder reads R,G,B' % comps)
    out.anchor('KT', 'colour write events', n >= 2, '%d' % n)


def check_events(facts, out):
    writer = writer_of(facts, 'Events', 'encode::<impl beatmap::Beatmap>::encode_events')
    hfn = facts.hir.get(writer)
    dtab, ppath = decoder_event_table(facts)
    out.anchor('KT', 'event writer / decoder event arms', hfn is not None and bool(dtab), str(sorted(dtab or {})))
    if hfn is None or not dtab:
        return
    n = 0
    for ev in H.flat_write_events(facts, writer):
        if ev['kind'] != 'fmt' or not ev['args']:
            continue
        inits = H.event_inits(facts, ev)
        a0 = H.peel(ev['args'][0])
        if a0.get('k') == 'local' and len(inits.get(a0['name'], [])) == 1:
            a0 = H.peel(inits[a0['name']][0])
        var = None
        if a0.get('k') == 'cast':
            inner = H.peel(a0['e'])
            if inner.get('k') == 'path' and inner.get('def', '').startswith('section::events::EventType::'):
                var = inner['name']
        if var is None:
            continue
        n += 1
        roots = set()
        for a in ev['args'][1:]:
            roots |= H.roots_of(a, inits)
        dfields = {f[0] for f in dtab.get(var, set())}
        ok = bool(dfields) and roots <= dfields and bool(roots)
        out.add('KT-K2', writer, 'event:' + var, 'src/encode.rs:%d' % ev['ln'], ok,
                '' if ok else 'event `%s` is decoded into `%s` but written from `%s`' % (
                    var, ','.join(sorted(dfields)), ','.join(sorted(roots))), ordinal=False)
        # first field position: type first
        p0 = ev['pieces'][0] if ev['pieces'] else None
        ok0 = p0 == ('arg', 0)
        out.add('KT-K3', writer, 'event-type-first:' + var, 'src/encode.rs:%d' % ev['ln'], ok0,
                '' if ok0 else 'event line does not start with the event type', ordinal=False)
    out.anchor('KT', 'event write events', n >= 2, '%d' % n)


def decoder_event_table(facts):
    path = '<section::events::decode::Events as decode::DecodeBeatmap>::parse_events'
    hfn = facts.hir.get(path)
    if hfn is None:
        return None, path
    hfn = H.inlined_fn(facts, hfn, depth=2)
    table = {}

    def visit(e, anc):
        if e.get('k') != 'match' or e.get('src', '').startswith('TryDesugar'):
            return
        for a in e['arms']:
            vs = []
            _pat_variants(a['pat'], 'section::events::EventType', vs)
            if not vs:
                continue
            fields = set()

            def v2(n, anc2):
                if n.get('k') == 'assign':
                    fc = H.field_chain(n['l'])
                    if fc and fc[0] == 'state' and fc[1]:
                        fields.add(tuple(fc[1]))
                if n.get('k') == 'mcall' and n.get('name') in ('push', 'extend', 'insert'):
                    fc = H.field_chain(H.peel(n['recv']))
                    if fc and fc[0] == 'state' and fc[1]:
                        fields.add(tuple(fc[1]))
            H.walk(a['body'], v2)
            # expression-oriented form: `let x = match kind { A => Some(v), .. }; if let Some(v) = x { state.f = v }` --
            # the fields written from x belong to the arms that yield a value other than `None`
            par = anc[-1] if anc else None
            if isinstance(par, dict) and par.get('k') == 'slet' and par.get('init') is e and par['pat'].get('k') == 'bind':
                import symeval as SE
                vt = SE.SymEval(None, budget=3000).value(a['body'], {})
                lv = [l for _c, l in SE.leaves(vt)]
                yields = any(not (isinstance(l, dict) and H.peel(l).get('k') == 'path' and H.peel(l).get('name') == 'None')
                             and not (isinstance(l, dict) and l.get('k') in ('returned', 'unit')) for l in lv)
                if yields:
                    fields |= flows.setdefault(par['pat']['name'], _fields_fed_by(hfn, par['pat']['name']))
            for v in vs:
                table.setdefault(v, set()).update(fields)
    flows = {}
    H.walk(hfn['body'], visit)
    return table, path


def _fields_fed_by(hfn, name):
    """state fields assigned / pushed to from local `name` (directly, or under an `if let .. = name`)"""
    fields = set()

    def mentions(x):
        hit = []
        H.walk(x if isinstance(x, dict) else {}, lambda n, a: hit.append(n) if n.get('k') == 'local' and n.get('name') == name else None)
        return bool(hit)

    def v(n, anc):
        tgt = None
        if n.get('k') == 'assign':
            fc = H.field_chain(n['l'])
            if fc and fc[0] == 'state' and fc[1]:
                tgt = tuple(fc[1])
                src = n['r']
        elif n.get('k') == 'mcall' and n.get('name') in ('push', 'extend', 'insert'):
            fc = H.field_chain(H.peel(n['recv']))
            if fc and fc[0] == 'state' and fc[1]:
                tgt = tuple(fc[1])
                src = n['args']
        if tgt is None:
            return
        guarded = any(a.get('k') == 'if' and mentions(a['c']) for a in anc) or \
            any(a.get('k') == 'match' and mentions(a['scrut']) for a in anc)
        if guarded or mentions(src if isinstance(src, dict) else {'k': 'x', 'v': src}):
            fields.add(tgt)
    H.walk(hfn['body'], v)
    return fields


# ------------------------------------------------------------------------------ KV

KV_PARSERS = {
    'general': '<section::general::decode::General as decode::DecodeBeatmap>::parse_general',
    'editor': '<section::editor::Editor as decode::DecodeBeatmap>::parse_editor',
    'metadata': '<section::metadata::Metadata as decode::DecodeBeatmap>::parse_metadata',
    'difficulty': '<section::difficulty::Difficulty as decode::DecodeBeatmap>::parse_difficulty',
    'colors': '<section::colors::decode::Colors as decode::DecodeBeatmap>::parse_colors',
}
KV_PARSE = "util::key_value::KeyValue::<'a, K>::parse"
BOUNDED_SPLITS = {'split_once', 'splitn', 'find', 'split_at', 'rsplit_once'}
UNBOUNDED_SPLITS = {'split', 'rsplit', 'split_terminator', 'split_inclusive'}


def run_kv(facts, out):
    body = facts.body(KV_PARSE)
    out.anchor('KV', 'KeyValue::parse', body is not None)
    if body is None:
        return
    splits = []
    todo, seen_b = [(body, 0)], {body.path}
    while todo:
        b_, dpt = todo.pop(0)
        for bb, t in b_.calls():
            c = callee_of(t)
            if not c:
                continue
            if c['path'].startswith('core::str::<impl str>::') and (c['name'] in BOUNDED_SPLITS or c['name'] in UNBOUNDED_SPLITS):
                splits.append((c['name'], t))
            elif dpt < 2 and c['path'] not in seen_b and dict.__contains__(facts.bodies, c['path']):
                # a private helper that does the splitting for KeyValue::parse
                seen_b.add(c['path'])
                todo.append((facts.bodies[c['path']], dpt + 1))
    out.anchor('KV', 'split call in KeyValue::parse', bool(splits), str([s[0] for s in splits]))
    for name, t in splits:
        ok = name in BOUNDED_SPLITS
        if name == 'splitn':
            # the bound must be the constant 2
            a0 = t['args'][1] if len(t['args']) > 1 else None
            ok = bool(a0 and a0['k'] == 'const' and a0.get('v') == 2)
        out.add('KV', KV_PARSE, 'split:' + name, loc_of(t['sp']), ok,
                '' if ok else ('KeyValue::parse splits with unbounded `str::%s`: the value is cut at the second '
                               'separator ("Title:Re:Zero" decodes as "Re") instead of being the remainder after '
                               'the first colon') % name)
    # the key/value parsers go through KeyValue::parse and do not split on ':' themselves
    for sec, p in KV_PARSERS.items():
        b = facts.body(p)
        out.anchor('KV', 'parser ' + p, b is not None)
        if b is None:
            continue
        uses = False
        own_split = None
        trims = False
        for bb, t in b.calls():
            c = callee_of(t)
            if not c:
                continue
            if c['path'] == KV_PARSE:
                uses = True
            if c['path'].startswith('core::str::<impl str>::') and c['name'] in (BOUNDED_SPLITS | UNBOUNDED_SPLITS):
                for a in t['args'][1:]:
                    if a['k'] == 'const' and a.get('v') == ':':
                        own_split = t
            if c['name'] == 'trim_comment':
                trims = True
        out.add('KV', p, 'uses-KeyValue::parse', '%s:%d' % (b.file, b.line), uses,
                '' if uses else 'section parser does not split its line through KeyValue::parse', ordinal=False)
        out.add('KV', p, 'no-own-colon-split', loc_of(own_split['sp']) if own_split else '%s:%d' % (b.file, b.line),
                own_split is None, '' if own_split is None else 'section parser splits on `:` itself', ordinal=False)
        if sec == 'metadata':
            out.add('KV', p, 'no-trim_comment', '%s:%d' % (b.file, b.line), not trims,
                    '' if not trims else ('the metadata parser strips `//` comments: a title such as "a // b" is '
                                          'truncated (metadata lines are not comment-stripped by the format)'),
                    ordinal=False)
        else:
            out.add('KV', p, 'trim_comment', '%s:%d' % (b.file, b.line), trims,
                    '' if trims else 'section parser no longer strips trailing comments', ordinal=False)
    # callers' delegations must not strip either: covered by DG-D3 (line forwarded unmodified)


# ------------------------------------------------------------------------------ path tokens / banks

PT_MOD = 'section::hit_objects::slider::path_type::'


def letter_table_by_prefix_tests(facts, dec):
    """{letter: set of PathType constant names} when the decoder tests the first letter with `starts_with('X')` /
    `strip_prefix('X')` instead of a `match` on the first char: the symbolic value of the function under "the text starts
    with X" for each letter that is tested, '_' for none of them"""
    import symeval as SE
    vh = H.inlined_fn(facts, dec, depth=1)
    ev = SE.SymEval(None, budget=6000)
    body = vh['body']
    try:
        tree = ev.seq(list(body.get('stmts', [])), body.get('expr'), {},
                      lambda env, tail: ev.value(tail, env) if tail is not None else ('v', {'k': 'unit'}),
                      kret=lambda vt, env=None: vt)
    except SE.Stop:
        return {}
    letters = set()

    def test_letter(c):
        e = c[1] if c[0] == 'e' else c[2]
        e = H.peel(e)
        pol = True
        while isinstance(e, dict) and e.get('k') == 'unary' and e.get('op') == 'Not':
            e = H.peel(e['e'])
            pol = not pol
        if isinstance(e, dict) and e.get('k') == 'mcall' and e.get('name') in ('starts_with', 'strip_prefix') and e.get('args'):
            a = H.peel(e['args'][0])
            if isinstance(a, dict) and a.get('k') == 'lit' and isinstance(a.get('v'), str) and len(a['v']) == 1:
                if c[0] == 'pat' and 'None' in repr(c[1])[:200] and 'Some' not in repr(c[1])[:200]:
                    pol = not pol
                return a['v'], pol
        return None

    def collect(t):
        if t[0] == 'ite':
            tl = test_letter(t[1])
            if tl:
                letters.add(tl[0])
            collect(t[2])
            collect(t[3])
    collect(tree)
    if not letters:
        return {}

    def names_under(t, letter):
        if t[0] == 'v':
            out_ = set()
            H.walk(t[1] if isinstance(t[1], dict) else {}, lambda x, a: out_.add(x['def']) if x.get('k') == 'path' and
                   x.get('def', '').startswith(PT_MOD + 'PathType::') and x.get('dk', '').startswith('AssocConst') else None)
            return out_
        tl = test_letter(t[1])
        if tl is None:
            return names_under(t[2], letter) | names_under(t[3], letter)
        holds = (tl[0] == letter) == tl[1]
        return names_under(t[2] if holds else t[3], letter)
    res = {l: names_under(tree, l) for l in letters}
    res['_'] = names_under(tree, None)
    return res


def check_path_tokens(facts, out):
    """K5: the slider path type token.  The decoder reads a letter (+ optional degree) into
    PathType { kind, degree }; the encoder must (a) write the same letter for each kind, (b) write
    the degree, and (c) decide "new explicit segment" on the whole PathType, not on a part of it."""
    dec = facts.hir.get(PT_MOD + 'PathType::new_from_str')
    enc = facts.hir.get('encode::add_path_data')
    out.anchor('KT', 'PathType::new_from_str / add_path_data', dec is not None and enc is not None)
    if dec is None or enc is None:
        return
    # decoder: letter -> const name -> kind
    letter_const = {}

    def visit(n, anc):
        if n.get('k') == 'match' and not n.get('src', '').startswith('TryDesugar'):
            for a in n['arms']:
                lits = []
                _pat_lits(a['pat'], lits)
                names = []

                def v2(x, anc2):
                    if x.get('k') == 'path' and x.get('def', '').startswith(PT_MOD + 'PathType::') and x.get('dk', '').startswith('AssocConst'):
                        names.append(x['def'])
                H.walk(a['body'], v2)
                for l in lits:
                    if isinstance(l, str) and len(l) == 1 and names:
                        letter_const[l] = names[-1]
                if a['pat'].get('k') == 'wild' and names:
                    letter_const['_'] = names[-1]
    H.walk(dec['body'], visit)
    if not letter_const:
        for l, ds in letter_table_by_prefix_tests(facts, dec).items():
            ds = sorted(ds)
            if ds:
                # the constant that is particular to this letter (the fall-through constant may appear under every letter
                # when the degree parse is an undecided test)
                own = [d for d in ds if l != '_'] or ds
                letter_const[l] = own[-1] if len(own) == 1 else sorted(own, key=lambda d: ('BEZIER' not in d and l == 'B', d))[0]
    letter_kind = {}
    for l, cpath in letter_const.items():
        ch = facts.hir.get(cpath)
        kinds = []
        if ch:
            def v3(x, anc):
                if x.get('k') == 'path' and x.get('def', '').startswith(PT_MOD + 'SplineType::'):
                    kinds.append(x['name'])
            H.walk(ch['body'], v3)
        letter_kind[l] = kinds[-1] if kinds else None
    # encoder: kind -> letter
    kind_letter = {}

    def visit_e(n, anc):
        if n.get('k') == 'match' and not n.get('src', '').startswith('TryDesugar'):
            for a in n['arms']:
                vs = []
                _pat_variants(a['pat'], PT_MOD + 'SplineType', vs)
                if not vs:
                    continue
                letters = set()

                def v4(x, anc2):
                    if x.get('k') == 'lit' and x.get('t') == 'bytes' and len(x['v']) == 1:
                        letters.add(chr(x['v'][0]))
                    if x.get('k') == 'mcall' and x.get('def') == 'std::io::Write::write_fmt':
                        pf = H.parse_format_block(x['args'][0])
                        if pf and pf[0] and pf[0][0][0] == 'lit':
                            letters.add(pf[0][0][1][:1])
                H.walk(a['body'], v4)
                for v in vs:
                    kind_letter[v] = letters
    for path, h2 in facts.hir.items():
        if path.startswith('encode::'):
            H.walk(h2['body'], visit_e)
    out.anchor('KT', 'encoder spline-kind letters', len(kind_letter) >= 4, str(kind_letter))
    for kind, letters in sorted(kind_letter.items()):
        ok = len(letters) == 1 and letter_kind.get(next(iter(letters))) == kind
        if not ok and len(letters) == 1:
            # the decoder's default arm (`_`) covers letters it does not list (Catmull = 'C')
            l = next(iter(letters))
            ok = l not in letter_kind and letter_kind.get('_') == kind
        out.add('KT-K5', 'encode::add_path_data', 'type-letter:' + kind, 'src/encode.rs', ok,
                '' if ok else 'spline kind `%s` is written as %s but the decoder reads that letter as `%s`' % (
                    kind, sorted(letters), [letter_kind.get(x, letter_kind.get('_')) for x in letters]), ordinal=False)
    # (b) degree written for BSpline
    ctx_inits = H.binding_inits(enc)
    wrote_degree = False
    for path, h2 in facts.hir.items():
        if not path.startswith('encode::'):
            continue
        for ev in H.write_events(h2):
            if ev['kind'] == 'fmt' and ev['pieces'][:1] == [('lit', 'B')] and ev['args']:
                if 'degree' in repr(ev['args'][0]):
                    wrote_degree = True
    out.add('KT-K5', 'encode::add_path_data', 'degree-written', 'src/encode.rs', wrote_degree,
            '' if wrote_degree else 'the B-spline degree the decoder reads is never written', ordinal=False)
    # (c) explicit-segment decision compares whole path types.  The decision is the condition of the
    # `if` under which the type letter is written (helpers of add_path_data are looked at in place).
    encv = H.inlined_fn(facts, enc, depth=2)
    v_inits = H.binding_inits(encv)
    conds = []

    def v_if(x, anc):
        if x.get('k') != 'if':
            return
        has_letters = []

        def v_m(y, anc2):
            if y.get('k') == 'match' and not y.get('src', '').startswith('TryDesugar'):
                vs = []
                for a in y['arms']:
                    _pat_variants(a['pat'], PT_MOD + 'SplineType', vs)
                if vs:
                    has_letters.append(y)
        H.walk(x['t'], v_m)
        if has_letters:
            conds.append(x['c'])
    H.walk(encv['body'], v_if)
    inits = []
    for c in conds:
        c0 = H.peel(c)
        if c0.get('k') == 'local':
            inits.extend(v_inits.get(c0['name'], []))
        else:
            inits.append(c0)
    okc = False
    why = 'no condition under which the path type letter is written was found'
    for init in inits:
        cmps = []

        def v5(x, anc):
            if x.get('k') == 'binary' and x.get('op') in ('Ne', 'Eq'):
                cmps.append(x)
        H.walk(init, v5)
        tys = [H.peel(c['a']).get('ty', '') for c in cmps if c.get('op') == 'Ne']
        if any(t.endswith('PathType>') or t.endswith('::PathType') for t in tys):
            okc = True
        else:
            why = ('the "start a new explicit segment" test compares %s: two consecutive segments that differ only in a '
                   'part the comparison ignores (e.g. the B-spline degree) are merged when written' % (tys or 'nothing'))
    out.add('KT-K5', 'encode::add_path_data', 'segment-decision-on-whole-type', 'src/encode.rs', okc, '' if okc else why,
            ordinal=False)
    # (d) what follows a type letter: the separator that depends on the position of the control point (`,` after the
    # last one, `|` otherwise) -- a letter on the last (or only) control point ends the path field
    from hp import Ctx as _Ctx, IF as _IF, BIN as _BIN, K as _K, ANY as _ANY, CONTAINS as _CONTAINS
    ctx2 = _Ctx(facts, v_inits, encv)
    from hp import OR as _OR2
    _last = _OR2(_BIN('Eq', _ANY(), _BIN('Sub', _ANY(), _K(1)), commutative=True),           # i == len - 1
                 _BIN('Eq', _BIN('Add', _ANY(), _K(1), commutative=True), _ANY(), commutative=True),   # i + 1 == len
                 _BIN('Ge', _BIN('Add', _ANY(), _K(1), commutative=True), _ANY()))            # i + 1 >= len
    _notlast = _OR2(_BIN('Ne', _ANY(), _BIN('Sub', _ANY(), _K(1)), commutative=True),
                    _BIN('Ne', _BIN('Add', _ANY(), _K(1), commutative=True), _ANY(), commutative=True),
                    _BIN('Lt', _BIN('Add', _ANY(), _K(1), commutative=True), _ANY()),
                    _BIN('Lt', _ANY(), _BIN('Sub', _ANY(), _K(1))))
    # last control point ? b',' : b'|'  (in either polarity)
    sep_pat = _OR2(_IF(_last, _K(44), _K(124)), _IF(_notlast, _K(124), _K(44)))

    def is_sep_value(e, depth=0):
        """expression whose value is the position-dependent separator"""
        if depth > 4 or not isinstance(e, dict):
            return False
        hit = []

        def v6(x, anc):
            if hit:
                return
            if x.get('k') == 'if' and sep_pat.m(ctx2, x):
                hit.append(x)
            elif x.get('k') == 'call':
                f = x['f']
                body = None
                if f.get('k') == 'local':
                    for i in v_inits.get(f['name'], []):
                        i2 = H.peel(i)
                        if isinstance(i2, dict) and i2.get('k') == 'closure':
                            body = i2['body']
                elif f.get('k') == 'path' and dict.__contains__(facts.hir, f.get('def')):
                    body = facts.hir[f['def']]['body']
                if body is not None and _CONTAINS(sep_pat).m(ctx2, body):
                    hit.append(x)
            elif x.get('k') == 'local' and depth < 3:
                for i in v_inits.get(x['name'], []):
                    if is_sep_value(i, depth + 1):
                        hit.append(x)
        H.walk(e, v6)
        return bool(hit)
    letter_matches = []

    def v_lm(x, path):
        if x.get('k') == 'match' and not x.get('src', '').startswith('TryDesugar'):
            vs = []
            for a in x['arms']:
                _pat_variants(a['pat'], PT_MOD + 'SplineType', vs)
            if vs:
                letter_matches.append((x, path))
    H.walk_paths(encv['body'], v_lm)
    okd = bool(letter_matches)
    whyd = 'no type letter writes found'
    for x, path in letter_matches:
        # the statement that follows the letter (climbing out of `?` wrappers / inlined helper bodies)
        nxt = None
        chain = [a for a, k in path] + [x]
        for idx in range(len(path) - 1, -1, -1):
            a, k = path[idx]
            child = chain[idx + 1]
            if a.get('k') == 'block' and k == 'stmts':
                sts = a['stmts']
                pos = [j for j, s_ in enumerate(sts) if s_ is child]
                if pos:
                    if pos[0] + 1 < len(sts):
                        nxt = sts[pos[0] + 1]
                    elif 'expr' in a:
                        nxt = a['expr']
                    if nxt is not None:
                        break
            if a.get('k') in ('if', 'loop', 'closure') or (a.get('k') == 'match' and not a.get('src', '').startswith('TryDesugar')):
                break
        good = False
        if nxt is not None:
            evs = []
            H.walk(nxt, lambda y, anc: evs.append(y) if y.get('k') == 'mcall' and y.get('name') in ('write_all', 'write_fmt') else None)
            good = bool(evs) and is_sep_value(evs[0])
        if not good:
            okd = False
            whyd = ('the type letter written at line %s is not followed by the position-dependent separator (`,` after the last '
                    'control point, `|` otherwise): a letter on the last or only control point would not end the path field'
                    % x.get('ln'))
    out.add('KT-K5', 'encode::add_path_data', 'letter-then-separator', 'src/encode.rs', okd, '' if okd else whyd, ordinal=False)
    # (e) the length column: the declared (expected) distance when the path has one -- the fitted curve's length is not
    # always that value (osu!stable's "no extension" rule keeps the shorter computed length), so writing the curve length
    # changes what the decoder reads back as the expected distance
    from hp import M as _M, OR as _OR
    uses_expected, uses_curve_only = [], []
    for ev in H.flat_write_events(facts, 'encode::add_path_data'):
        if ev['kind'] != 'fmt':
            continue
        einits = H.event_inits(facts, ev)
        for a in ev['args']:
            exprs = [a]
            pe = H.peel(a)
            if pe.get('k') == 'local':
                exprs += einits.get(pe['name'], [])
            has_exp = any(_CONTAINS(_M('expected_dist', _ANY())).m(ctx2, x) for x in exprs if isinstance(x, dict))
            has_cur = any(_CONTAINS(_M('dist', _ANY())).m(ctx2, x) for x in exprs if isinstance(x, dict))
            if has_exp:
                uses_expected.append(ev)
            elif has_cur:
                uses_curve_only.append(ev)
    oke = bool(uses_expected) and not uses_curve_only
    out.add('KT-K5', 'encode::add_path_data', 'length-is-the-declared-distance', 'src/encode.rs:%s' % (
        (uses_curve_only or uses_expected or [{'ln': 0}])[0]['ln']), oke,
        '' if oke else ('the slider length column is written from the computed curve length instead of the path\'s expected '
                        'distance (falling back to the curve only when none is declared): the declared length does not '
                        'survive encode -> decode for paths the curve fit leaves shorter'), ordinal=False)


def _name_predicate_vectors(facts, enc):
    """truth vectors over (hitnormal, hitwhistle, hitfinish, hitclap, a file sample) of every boolean predicate in the
    (inlined) encoder function that looks at a sample's `name` -- constant folding, nothing is run"""
    import symeval as SE
    from hp import strip as _strip
    HS = 'section::hit_objects::hit_samples::'

    def const_body(path_node):
        d = path_node.get('def')
        h = facts.hir.get(d) if d and dict.__contains__(facts.hir, d) else None
        if h is None:
            return None
        b = h['body']
        return H.peel(b.get('expr') if b.get('k') == 'block' and not b.get('stmts') else b)

    def norm(e, depth=0):
        """canonical form of a constant constructor value: ('Default', ('Whistle',)) / ('File', '?') / None"""
        e = _strip(H.peel(e))
        if not isinstance(e, dict) or depth > 4:
            return None
        if e.get('k') == 'path' and e.get('dk', '').startswith(('AssocConst', 'Const')):
            cb = const_body(e)
            return norm(cb, depth + 1) if cb is not None else None
        if e.get('k') == 'path' and 'Ctor' in e.get('dk', ''):
            return (e.get('name'),)
        if e.get('k') == 'call' and e['f'].get('k') == 'path' and 'Ctor' in e['f'].get('dk', ''):
            args = tuple(norm(a, depth + 1) or '?' for a in e['args'])
            return (e['f'].get('name'),) + args
        if e.get('k') == 'abstract':
            return e['v']
        return None
    abstract = [('Default', ('Normal',)), ('Default', ('Whistle',)), ('Default', ('Finish',)), ('Default', ('Clap',)), ('File', '?')]

    def as_ctor_expr(v):
        if v[0] == 'File':
            return {'k': 'call', 'f': {'k': 'path', 'name': 'File', 'dk': 'Ctor(Variant, Fn)', 'def': HS + 'HitSampleInfoName::File'},
                    'args': [{'k': 'unknown'}]}
        return {'k': 'call', 'f': {'k': 'path', 'name': 'Default', 'dk': 'Ctor(Variant, Fn)', 'def': HS + 'HitSampleInfoName::Default'},
                'args': [{'k': 'path', 'name': v[1][0], 'dk': 'Ctor(Variant, Const)', 'def': HS + 'HitSampleDefaultName::' + v[1][0]}]}

    def pat_holds(pat, scrut):
        """does the abstract name `scrut` match the pattern: alternatives, constants naming a sample (`HIT_NORMAL`),
        constructor patterns; None when it cannot be told"""
        sv = norm(scrut)
        if sv is None or not isinstance(pat, dict):
            return None
        k_ = pat.get('k')
        if k_ == 'wild' or (k_ == 'bind' and 'sub' not in pat):
            return True
        if k_ in ('pref', 'pderef') and 'p' in pat:
            return pat_holds(pat['p'], scrut)
        if k_ == 'por':
            rs = [pat_holds(q, scrut) for q in pat.get('pats', [])]
            if any(r is True for r in rs):
                return True
            return False if all(r is False for r in rs) else None
        if k_ == 'pexpr':
            pv = norm(pat.get('e'))
            if pv is None:
                return None
            if pv[0] != sv[0]:
                return False
            if '?' in repr(pv) + repr(sv):
                return None
            return pv == sv
        if k_ in ('ptstruct', 'pstruct') and isinstance(pat.get('path'), dict):
            if pat['path'].get('name') != sv[0]:
                return False
            subs = pat.get('pats', [])
            if all(q.get('k') in ('wild', 'bind') for q in subs):
                return True
            return None
        return None

    def fold(e, name_val, depth=0):
        e = _strip(H.peel(e))
        if not isinstance(e, dict) or depth > 12:
            return None
        k = e.get('k')
        if k == 'lit' and e.get('t') == 'bool':
            return bool(e['v'])
        if k == 'unary' and e.get('op') == 'Not':
            v = fold(e['e'], name_val, depth + 1)
            return None if v is None else (not v)
        if k == 'binary' and e.get('op') in ('And', 'Or'):
            a, b = fold(e['a'], name_val, depth + 1), fold(e['b'], name_val, depth + 1)
            if e['op'] == 'And':
                if a is False or b is False:
                    return False
                return True if (a is True and b is True) else None
            if a is True or b is True:
                return True
            return False if (a is False and b is False) else None
        if k == 'binary' and e.get('op') in ('Eq', 'Ne'):
            a, b = norm(e['a']), norm(e['b'])
            if a is None or b is None:
                return None
            if a[0] != b[0]:
                return e['op'] == 'Ne'          # different variants are different whatever they carry
            if '?' in repr(a) + repr(b):
                return None
            return (a == b) if e['op'] == 'Eq' else (a != b)
        if k in ('match', 'if', 'block'):
            t = SE.SymEval(None, budget=500).value(e, {})
            while t[0] == 'ite':
                c = t[1]
                if c[0] == 'pat':
                    st_ = pat_holds(c[1], c[2])
                    if st_ is None:
                        st_, _b = SE.SymEval.static_pat(c[1], c[2])
                    if st_ is None:
                        return None
                    t = t[2] if st_ else t[3]
                else:
                    v = fold(c[1], name_val, depth + 1)
                    if v is None:
                        return None
                    t = t[2] if v else t[3]
            return fold(t[1], name_val, depth + 1) if isinstance(t[1], dict) else None
        return None

    def subst_name(e, param, val_expr):
        """`<param>.name`, `*<param>` (when the parameter is the name itself) -> the abstract name"""
        if isinstance(e, dict):
            if e.get('k') == 'field' and e.get('n') == 'name':
                base = H.peel(e['e'])
                if isinstance(base, dict) and base.get('k') == 'local':
                    return val_expr
            if e.get('k') == 'local' and e.get('name') == param and 'HitSampleInfoName' in (e.get('ty') or ''):
                return val_expr
            return {k2: (v2 if k2 in H.CHILD_SKIP else subst_name(v2, param, val_expr)) for k2, v2 in e.items()}
        if isinstance(e, list):
            return [subst_name(x, param, val_expr) for x in e]
        return e
    preds = []

    def v(n, anc):
        if n.get('k') == 'closure' and len(n.get('params', [])) == 1 and n['params'][0].get('k') == 'bind':
            body = n['body']
            if "'n': 'name'" in repr(body)[:6000] or 'HitSampleInfoName' in repr(n['params'][0])[:200] or 'HitSampleInfoName' in repr(body)[:3000]:
                preds.append((n['params'][0]['name'], body))
        if n.get('k') == 'if' and "'n': 'name'" in repr(n['c'])[:6000]:
            preds.append((None, n['c']))
    H.walk(enc['body'], v)
    vecs = set()
    for param, body in preds:
        vec = []
        for a in abstract:
            vec.append(fold(subst_name(body, param, as_ctor_expr(a)), a))
        if None not in vec:
            vecs.add(tuple(vec))
    return vecs


def check_sample_banks(facts, out):
    """K6: which samples carry the addition bank.  Decoder: convert_sound_type builds the samples
    that get `bank_for_addition`; encoder: get_sample_bank's addition-bank lookup must select exactly
    those names (not the normal sample, not file samples)."""
    dec = facts.hir.get('section::hit_objects::hit_samples::SampleBankInfo::convert_sound_type')
    enc = facts.hir.get('encode::get_sample_bank')
    out.anchor('KT', 'convert_sound_type / get_sample_bank', dec is not None and enc is not None)
    if dec is None or enc is None:
        return
    # helper methods / tables the two functions delegate to are looked at in place
    dec = H.inlined_fn(facts, dec, depth=2, keep=('HitSampleInfo::new',))
    enc = H.inlined_fn(facts, enc, depth=2)
    add_names, normal_names = set(), set()
    dinits = H.binding_inits(dec)

    def names_of(e, depth=0, seen=None):
        """sample-name constants an expression may denote (through local bindings / tables)"""
        seen = seen or set()
        res = set()

        def v(n, anc):
            if n.get('k') == 'path' and n.get('name', '').startswith('HIT_'):
                res.add(n['name'])
            if n.get('k') == 'path' and 'HitSampleDefaultName::' in n.get('def', '') and n.get('name') in (
                    'Normal', 'Whistle', 'Finish', 'Clap'):
                res.add('HIT_' + n['name'].upper())          # the variant the HIT_* constants wrap
            if n.get('k') == 'path' and n.get('name') == 'File':
                res.add('File')
            if n.get('k') == 'path' and n.get('dk', '').startswith(('Const', 'AssocConst')) and dict.__contains__(facts.hir, n.get('def')) \
                    and n['def'] not in seen and depth < 4:
                seen.add(n['def'])          # a local `const TABLE: [(flag, name); N]`
                res.update(names_of(facts.hir[n['def']]['body'], depth + 1, seen))
            if n.get('k') == 'local' and n['name'] not in seen and depth < 4:
                seen.add(n['name'])
                for init in dinits.get(n['name'], []):
                    res.update(names_of(init, depth + 1, seen))
        H.walk(e, v)
        return res

    def visit(n, anc):
        if n.get('k') == 'call' and n['f'].get('k') == 'path' and n['f'].get('def', '').endswith('HitSampleInfo::new') \
                and len(n['args']) == 4:
            bank = H.peel(n['args'][1])
            names = names_of(n['args'][0])
            fc = H.field_chain(bank)
            which = fc[1][-1] if fc and fc[1] else (bank.get('name') if bank.get('k') == 'local' else None)
            if which == 'bank_for_addition':
                add_names.update(names)
            elif which == 'bank_for_normal':
                normal_names.update(names)
    H.walk(dec['body'], visit)
    out.anchor('KT', 'decoder addition-bank sample names', len(add_names) >= 3, str(sorted(add_names)))
    inits = H.binding_inits(enc)

    def all_filters():
        """(negated, names) of every `.find(|s| [!]matches!(s.name, A | B))` / `s.name ==/!= A` filter in the encoder fn"""
        res = []

        def v(n, anc):
            if n.get('k') == 'mcall' and n.get('name') == 'find' and n['args']:
                cl = H.peel(n['args'][0])
                if cl.get('k') == 'closure':
                    body = H.peel(cl['body'])
                    neg = False
                    if body.get('k') == 'unary' and body.get('op') == 'Not':
                        neg = True
                        body = H.peel(body['e'])
                    names = []
                    if body.get('k') == 'match':
                        _pat_paths(body['arms'][0]['pat'], names)
                    elif body.get('k') == 'binary' and body.get('op') in ('Eq', 'Ne'):
                        if body.get('op') == 'Ne':
                            neg = not neg
                        for side in (body['a'], body['b']):
                            sp = H.peel(side)
                            if sp.get('k') == 'path':
                                names.append(sp.get('name'))
                    if names:
                        res.append((neg, set(names)))
        H.walk(enc['body'], v)
        return res
    filters = all_filters()
    negs = [f for f in filters if f[0]]
    poss = [f for f in filters if not f[0]]
    fa = negs[0] if len(negs) == 1 else (negs[0] if negs and all(x == negs[0] for x in negs) else None)
    fn = (False, {'HIT_NORMAL'}) if (False, {'HIT_NORMAL'}) in poss else (poss[0] if poss else None)
    expected_excl = (normal_names | {'File'}) if normal_names else {'HIT_NORMAL', 'File'}
    ok = bool(fa) and fa[0] is True and fa[1] == expected_excl and not (add_names & expected_excl)
    out.add('KT-K6', 'encode::get_sample_bank', 'addition-bank-source', 'src/encode.rs', ok,
            '' if ok else ('the addition bank is taken from the first sample that is %s %s; the decoder gives the '
                           'addition bank to %s only (a file sample always carries the normal bank)') % (
                'not' if fa and fa[0] else '', sorted(fa[1]) if fa else '?', sorted(add_names)), ordinal=False)
    okn = bool(fn) and fn[0] is False and fn[1] == {'HIT_NORMAL'}
    if not ok or not okn:
        # any spelling of the two selectors: fold each predicate over a sample's name on the five kinds of names
        vecs = _name_predicate_vectors(facts, enc)
        if (True, False, False, False, False) in vecs and not okn:
            okn = True
        if (False, True, True, True, False) in vecs and not ok and not (add_names & expected_excl):
            ok = True
            out.insts = [i for i in out.insts if not i.key.endswith('/addition-bank-source')]
            out.add('KT-K6', 'encode::get_sample_bank', 'addition-bank-source', 'src/encode.rs', True, '',
                    {'via': 'predicate folded over the sample names'}, ordinal=False)
    out.add('KT-K6', 'encode::get_sample_bank', 'normal-bank-source', 'src/encode.rs', okn,
            '' if okn else 'the normal bank is not taken from the HIT_NORMAL sample', ordinal=False)
