"""Fact base produced by the mirlint driver: bodies (MIR), HIR trees, items, mono graph.

Everything here is a view over the resolved program; nothing of /repo is executed.
"""
import json
from collections import defaultdict


# ----------------------------------------------------------------------------- places

def place_key(p):
    """hashable canonical form of a MIR place: (local, (elem, ...))"""
    elems = []
    for e in p['p']:
        k = e['k']
        if k == 'deref':
            elems.append('*')
        elif k == 'field':
            elems.append('.' + e['n'])
        elif k == 'downcast':
            elems.append('@' + e['v'])
        elif k in ('index', 'cindex', 'subslice'):
            elems.append('[]')
        else:
            elems.append('?')
    return (p['l'], tuple(elems))


def place_str(p):
    s = '_%d' % p['l']
    for e in p['p']:
        k = e['k']
        if k == 'deref':
            s = '(*%s)' % s
        elif k == 'field':
            s = '%s.%s' % (s, e['n'])
        elif k == 'downcast':
            s = '(%s as %s)' % (s, e['v'])
        elif k == 'index':
            s = '%s[_%d]' % (s, e['local'])
        else:
            s = '%s[..]' % s
    return s


def field_path(p):
    """names of the struct fields traversed by a place (derefs/indexing/downcasts dropped)"""
    return tuple(e['n'] for e in p['p'] if e['k'] == 'field')


def op_place(o):
    if o['k'] in ('copy', 'move'):
        return o['pl']
    return None


def op_local(o):
    """local if the operand is a bare local, else None"""
    pl = op_place(o)
    if pl is not None and not pl['p']:
        return pl['l']
    return None


def op_const(o):
    if o['k'] == 'const':
        return o
    return None


def op_str(o):
    if o['k'] in ('copy', 'move'):
        return o['k'] + ' ' + place_str(o['pl'])
    if o['k'] == 'const':
        if 'fn' in o:
            return 'fn ' + o['fn']['full']
        for k in ('v', 'str', 'def'):
            if k in o:
                return 'const %r' % (o[k],)
        return 'const ' + o['s']
    return str(o)


def rv_str(r):
    k = r['k']
    if k == 'use':
        return op_str(r['op'])
    if k == 'ref':
        return '&%s %s' % (r['m'], place_str(r['pl']))
    if k == 'rawptr':
        return '&raw %s' % place_str(r['pl'])
    if k == 'binop':
        return '%s(%s, %s)' % (r['op'], op_str(r['a']), op_str(r['b']))
    if k == 'unop':
        return '%s(%s)' % (r['op'], op_str(r['a']))
    if k == 'cast':
        return '%s as %s [%s]' % (op_str(r['op']), r['ty']['s'], r['ck'])
    if k == 'discr':
        return 'discr(%s)' % place_str(r['pl'])
    if k == 'aggr':
        head = r['ak']
        if r['ak'] == 'adt':
            head = r['adt'] + '::' + r['variant']
        elif r['ak'] == 'closure':
            head = 'closure ' + r['closure']
        return '%s{%s}' % (head, ', '.join(op_str(x) for x in r['ops']))
    return r.get('s', str(r))


# ----------------------------------------------------------------------------- bodies

class Body:
    def __init__(self, j, facts):
        self.j = j
        self.facts = facts
        self.path = j['path']
        self.blocks = j['blocks']
        self.locals = j['locals']
        self.argc = j['argc']
        self.file = j['sp']['file']
        self.line = j['sp']['line']
        self._dom = None
        self._preds = None
        self._defs = None

    def loc(self, sp):
        return '%s:%d' % (sp['file'], sp['line'])

    def term(self, bb):
        return self.blocks[bb]['term']

    def succ(self, bb, unwind=False):
        t = self.blocks[bb]['term']
        k = t['k']
        out = []
        if k == 'goto':
            out = [t['t']]
        elif k == 'switch':
            out = [a[1] for a in t['arms']] + [t['otherwise']]
        elif k in ('call', 'drop', 'assert'):
            if 't' in t:
                out = [t['t']]
        elif k == 'other':
            out = []
        if unwind and 'unwind' in t:
            out = out + [t['unwind']]
        # dedupe, keep order
        seen = []
        for x in out:
            if x not in seen:
                seen.append(x)
        return seen

    def edges(self, bb):
        """labelled normal successors: list of (label, target); label is the switch value,
        'otherwise', or None"""
        t = self.blocks[bb]['term']
        k = t['k']
        if k == 'switch':
            return [(a[0], a[1]) for a in t['arms']] + [('otherwise', t['otherwise'])]
        return [(None, s) for s in self.succ(bb)]

    def is_cleanup(self, bb):
        return bool(self.blocks[bb].get('cleanup'))

    @property
    def preds(self):
        if self._preds is None:
            p = defaultdict(list)
            for b in range(len(self.blocks)):
                for s in self.succ(b):
                    p[s].append(b)
            self._preds = p
        return self._preds

    def reachable(self, start=0, unwind=False):
        seen = {start}
        st = [start]
        while st:
            b = st.pop()
            for s in self.succ(b, unwind):
                if s not in seen:
                    seen.add(s)
                    st.append(s)
        return seen

    @property
    def dom(self):
        """dominator sets over the normal (non-unwind) CFG"""
        if self._dom is None:
            n = len(self.blocks)
            reach = self.reachable(0)
            allb = set(reach)
            dom = {b: set(allb) for b in reach}
            dom[0] = {0}
            changed = True
            order = sorted(reach)
            while changed:
                changed = False
                for b in order:
                    if b == 0:
                        continue
                    ps = [p for p in self.preds[b] if p in reach]
                    if not ps:
                        continue
                    new = set.intersection(*[dom[p] for p in ps]) | {b}
                    if new != dom[b]:
                        dom[b] = new
                        changed = True
            self._dom = dom
        return self._dom

    def dominates(self, a, b):
        return b in self.dom and a in self.dom[b]

    def returns(self):
        return [i for i, b in enumerate(self.blocks) if b['term']['k'] == 'return' and not b.get('cleanup')]

    def calls(self):
        """(bb, terminator) for each call"""
        for i, b in enumerate(self.blocks):
            if b['term']['k'] == 'call':
                yield i, b['term']

    def local_ty(self, l):
        return self.locals[l]

    def local_name(self, l):
        return self.locals[l].get('name')

    @property
    def defs(self):
        """local -> list of (bb, idx|'term', kind, payload) definitions of the bare local"""
        if self._defs is None:
            d = defaultdict(list)
            for bi, b in enumerate(self.blocks):
                for si, s in enumerate(b['st']):
                    if s['k'] == 'assign' and not s['pl']['p']:
                        d[s['pl']['l']].append((bi, si, 'assign', s))
                t = b['term']
                if t['k'] == 'call' and not t['dest']['p']:
                    d[t['dest']['l']].append((bi, 'term', 'call', t))
            self._defs = d
        return self._defs

    def pretty(self):
        out = ['== %s  (%s:%d) argc=%d' % (self.path, self.file, self.line, self.argc)]
        for i, l in enumerate(self.locals):
            if 'name' in l or i <= self.argc:
                out.append('  _%d: %s %s' % (i, l['s'], l.get('name', '')))
        for i, bl in enumerate(self.blocks):
            out.append(' bb%d%s:' % (i, ' (cleanup)' if bl.get('cleanup') else ''))
            for s in bl['st']:
                if s['k'] == 'assign':
                    out.append('    %s = %s   // %d' % (place_str(s['pl']), rv_str(s['rv']), s['sp']['line']))
                else:
                    out.append('    %s %s' % (s['k'], s.get('s', '')))
            t = bl['term']
            k = t['k']
            if k == 'call':
                out.append('    %s = %s(%s) -> bb%s unwind %s // %d' % (
                    place_str(t['dest']), op_str(t['func']), ', '.join(op_str(a) for a in t['args']),
                    t.get('t'), t.get('unwind'), t['sp']['line']))
            elif k == 'switch':
                out.append('    switch %s %s otherwise bb%d' % (op_str(t['discr']), t['arms'], t['otherwise']))
            elif k == 'drop':
                out.append('    drop(%s) -> bb%d' % (place_str(t['pl']), t['t']))
            elif k == 'assert':
                out.append('    assert(%s == %s, %s) -> bb%d' % (op_str(t['cond']), t['expected'], t['msg'], t['t']))
            else:
                out.append('    %s %s' % (k, t.get('t', '')))
        return '\n'.join(out)


def callee_of(t):
    """fn descriptor of a call terminator when the callee is a fn item"""
    f = t['func']
    if f['k'] == 'const' and 'fn' in f:
        return f['fn']
    return None


def callee_path(t):
    c = callee_of(t)
    return c['path'] if c else None


# ----------------------------------------------------------------------------- facts

class ResolvingDict(dict):
    """dict keyed by function path; a missing key is looked up again under the name a renamed /
    moved function with the same recorded signature has in the analysed tree"""

    def __init__(self, facts, *a, **kw):
        super().__init__(*a, **kw)
        self._facts = facts

    def get(self, key, default=None):
        if dict.__contains__(self, key):
            return dict.__getitem__(self, key)
        alt = self._facts.resolve(key) if isinstance(key, str) else None
        if alt is not None and dict.__contains__(self, alt):
            return dict.__getitem__(self, alt)
        return default

    def __missing__(self, key):
        alt = self._facts.resolve(key) if isinstance(key, str) else None
        if alt is not None and dict.__contains__(self, alt):
            return dict.__getitem__(self, alt)
        raise KeyError(key)


_ANCHORS = None


def reference_signatures():
    global _ANCHORS
    if _ANCHORS is None:
        import os
        p = os.path.join(os.path.dirname(os.path.abspath(__file__)), 'anchors.json')
        try:
            with open(p) as fh:
                _ANCHORS = json.load(fh)
        except OSError:
            _ANCHORS = {}
    return _ANCHORS


class Facts:
    def __init__(self, path):
        with open(path) as fh:
            j = json.load(fh)
        self.j = j
        self.crate = j['crate']
        self.features = j['features']
        self.aliases = {}
        self.bodies = ResolvingDict(self)
        for b in j['bodies']:
            self.bodies[b['path']] = Body(b, self)
        self.hir = ResolvingDict(self, {h['path']: h for h in j['hir']})
        self.items = j['items']
        self.adts = {a['path']: a for a in self.items['adts']}
        self.fns = {f['path']: f for f in self.items['fns']}
        self.consts = {c['path']: c for c in self.items['consts']}
        self.instances = j['mono']['instances']
        self.inst = {i['id']: i for i in self.instances}
        self.roots = j['mono']['roots']
        # instance call resolution: (inst id, bb) -> call record
        self.inst_calls = {}
        for i in self.instances:
            m = {}
            for c in i['calls']:
                m[c['bb']] = c
            self.inst_calls[i['id']] = m
        self.insts_of = ResolvingDict(self)
        for i in self.instances:
            self.insts_of.setdefault(i['def'], []).append(i)

    def resolve(self, path):
        """current name of the function the reference tree called `path`, or None"""
        if path in self.aliases:
            return self.aliases[path]
        self.aliases[path] = None
        if '::{closure' in path:
            head, tail = path.split('::{closure', 1)
            alt = self.resolve(head) if head not in self.fns else head
            res = (alt + '::{closure' + tail) if alt else None
            self.aliases[path] = res
            return res
        ref = reference_signatures()
        sig = ref.get(path)
        if sig is None or path in self.fns:
            return None
        import re as _re

        def norm(t):
            # lifetimes by any name are the same type for this purpose
            return _re.sub(r"'[A-Za-z_][A-Za-z0-9_]*", "'_", t)
        cands = []
        for p, fn in self.fns.items():
            if p in ref:
                continue        # an existing function keeps its own identity
            if [norm(t['s']) for t in fn['inputs']] == [norm(x) for x in sig['inputs']] and \
                    norm(fn['output']['s']) == norm(sig['output']):
                cands.append(p)
        same = [p for p in cands if p.rsplit('::', 1)[0] == path.rsplit('::', 1)[0]]
        named = [p for p in cands if p.rsplit('::', 1)[-1] == path.rsplit('::', 1)[-1]]
        pick = same[0] if len(same) == 1 else (named[0] if len(named) == 1 else (cands[0] if len(cands) == 1 else None))
        if pick is None and not cands:
            # moved (free function <-> method, other module) and re-typed slightly: a unique new function of the same name
            byname = [p for p in self.fns if p not in ref and p.rsplit('::', 1)[-1] == path.rsplit('::', 1)[-1]]
            if len(byname) == 1:
                pick = byname[0]
        self.aliases[path] = pick
        return pick

    def body(self, path):
        return self.bodies.get(path)

    def used_aliases(self):
        return {k: v for k, v in self.aliases.items() if v}

    @property
    def rev_alias(self):
        """current path -> reference path, for every reference function that is missing under its
        recorded name but has a unique same-signature successor"""
        if getattr(self, '_rev', None) is None:
            rev = {}
            for r in reference_signatures():
                if r not in self.fns:
                    a = self.resolve(r)
                    if a:
                        rev[a] = r
            self._rev = rev
        return self._rev

    def ref_path(self, path):
        """the name the reference tree used for the function now called `path`"""
        if path is None:
            return None
        if '::{closure' in path:
            head, tail = path.split('::{closure', 1)
            return self.rev_alias.get(head, head) + '::{closure' + tail
        return self.rev_alias.get(path, path)

    def ref_name(self, callee):
        """reference (last path segment) name of a callee descriptor"""
        if not callee:
            return None
        return self.ref_path(callee['path']).rsplit('::', 1)[-1] if callee.get('local') else callee['name']

    def find_bodies(self, pred):
        return [b for p, b in sorted(self.bodies.items()) if pred(p)]

    def impls_of_trait(self, trait_suffix):
        return [i for i in self.items['impls'] if i.get('trait', '').endswith(trait_suffix)]

    def reachable_instances(self, root_ids):
        seen = set()
        st = list(root_ids)
        while st:
            i = st.pop()
            if i in seen:
                continue
            seen.add(i)
            inst = self.inst[i]
            for c in inst['calls']:
                if 'callee' in c:
                    st.append(c['callee'])
                for v in c.get('via', []):
                    st.append(v)
            for r in inst['reify']:
                if 'callee' in r:
                    st.append(r['callee'])
        return seen

    def instances_matching(self, pred):
        return [i for i in self.instances if pred(i)]


def adt_field_names(adt):
    return [f['name'] for f in adt['variants'][0]['fields']]


def resolve_ref(body, local, limit=12, stop_at_multi=False):
    """follow single-definition chains `_a = &[mut] (*_b)` / `_a = move _b` back to the place
    whose address was originally taken; returns that place (json) or None.
    stop_at_multi: a local assigned more than once (a `let mut` variable) ends the chain and is returned"""
    cur = local
    for _ in range(limit):
        defs = body.defs.get(cur, [])
        if len(defs) != 1:
            if stop_at_multi and len(defs) > 1 and cur != local:
                return {'l': cur, 'p': []}
            return None
        bi, si, kind, s = defs[0]
        if kind != 'assign':
            return None
        rv = s['rv']
        if rv['k'] in ('ref', 'rawptr'):
            pl = rv['pl']
            if pl['p'] and all(e['k'] == 'deref' for e in pl['p']) and pl['l'] > body.argc:
                cur = pl['l']
                continue
            return pl
        if rv['k'] in ('use', 'cast'):
            pl = op_place(rv['op'])
            if pl is not None and not pl['p']:
                if pl['l'] <= body.argc:
                    return pl
                cur = pl['l']
                continue
            return pl
        return None
    return None


def value_def(body, local, limit=12):
    """follow moves/copies of a local back to its defining statement/terminator:
    returns (kind, json) with kind in assign|call, or None"""
    cur = local
    for _ in range(limit):
        defs = body.defs.get(cur, [])
        if len(defs) != 1:
            return None
        bi, si, kind, s = defs[0]
        if kind == 'assign' and s['rv']['k'] == 'use':
            pl = op_place(s['rv']['op'])
            if pl is not None and not pl['p'] and pl['l'] > body.argc:
                cur = pl['l']
                continue
        return (kind, s, bi, si)
    return None
