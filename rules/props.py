"""Property -> rule instances.  Each runner takes a Ctx (facts of one crate configuration,
shared analyses) and an Out; the property keeps the instances whose rule id is selected."""
from common import Out
from effects import Effects
import ed
import dg
import ea
import kbu_rules
import kt
import fr
import ic
import ug
import sc
import ss


class Ctx:
    """per-configuration context with memoised shared analyses"""

    def __init__(self, facts, cfg):
        self.facts = facts
        self.cfg = cfg
        self._eff = None
        self._dg = None
        self._memo = {}

    @property
    def eff(self):
        if self._eff is None:
            self._eff = Effects(self.facts)
        return self._eff

    def run_once(self, name, fn):
        """run a rule family once per configuration; returns its Out"""
        if name not in self._memo:
            o = Out(self.cfg)
            extra = fn(self, o)
            self._memo[name] = (o, extra)
        return self._memo[name]


def fam_ed(ctx, o):
    ed.run(ctx.facts, o)


def fam_dg(ctx, o):
    return dg.run(ctx.facts, o)


def fam_ea(ctx, o):
    _o, extra = ctx.run_once('dg', fam_dg)
    cls, primaries, by_ty = extra
    return ea.run(ctx.facts, o, ctx.eff, cls, primaries, by_ty)


def fam_kbu_bufs(ctx, o):
    kbu_rules.run_buffers(ctx.facts, o, ctx.eff)


def fam_kbu_ticks(ctx, o):
    kbu_rules.run_ticks(ctx.facts, o, ctx.eff)


def fam_lb(ctx, o):
    kbu_rules.run_line_buffers(ctx.facts, o, ctx.eff)


def fam_bz(ctx, o):
    kbu_rules.run_bezier(ctx.facts, o)
    kbu_rules.run_bezier_sized(ctx.facts, o)


def fam_ci(ctx, o):
    kbu_rules.run_cache(ctx.facts, o)


def fam_kt(ctx, o):
    kt.run(ctx.facts, o)


def fam_kv(ctx, o):
    kt.run_kv(ctx.facts, o)


def fam_fr(ctx, o):
    return fr.run(ctx.facts, o)


def fam_fr_enc(ctx, o):
    _o, tab = ctx.run_once('fr', fam_fr)
    fr.run_encode_framing(ctx.facts, o, tab)


def fam_ic(ctx, o):
    ic.run(ctx.facts, o)


def fam_ug(ctx, o):
    ug.run_ug(ctx.facts, o)


def fam_ab(ctx, o):
    ug.run_ab(ctx.facts, o)


def fam_u8(ctx, o):
    ug.run_u8(ctx.facts, o)


def fam_px(ctx, o):
    ug.run_px(ctx.facts, o)


def fam_sc(ctx, o):
    sc.run(ctx.facts, o)


def fam_nf(ctx, o):
    sc.run_nf(ctx.facts, o)


def fam_ss13(ctx, o):
    ss.run_c13(ctx.facts, o)


def fam_ss12(ctx, o):
    ss.run_c12(ctx.facts, o)


def fam_ss14(ctx, o):
    ss.run_c14(ctx.facts, o)


def fam_ss15(ctx, o):
    ss.run_c15(ctx.facts, o)


def fam_sscurve(ctx, o):
    ss.run_curve_siblings(ctx.facts, o)


def fam_ss20(ctx, o):
    ss.run_c20(ctx.facts, o)


FAMILIES = {
    'sc': fam_sc, 'nf': fam_nf, 'ss13': fam_ss13, 'ss12': fam_ss12, 'ss14': fam_ss14, 'ss15': fam_ss15,
    'sscurve': fam_sscurve, 'ss20': fam_ss20,
    'ug': fam_ug, 'ab': fam_ab, 'u8': fam_u8, 'px': fam_px,
    'kt': fam_kt, 'kv': fam_kv, 'fr': fam_fr, 'fr_enc': fam_fr_enc, 'ic': fam_ic,
    'ed': fam_ed, 'dg': fam_dg, 'ea': fam_ea, 'kbu_bufs': fam_kbu_bufs, 'kbu_ticks': fam_kbu_ticks,
    'ci': fam_ci, 'lb': fam_lb, 'bz': fam_bz,
}

# property -> list of (family, [rule ids]) ; rule id prefix match on Inst.rule
PROPS = {
    'C01': {
        'families': [('ed', ['ED', 'AL', 'EP', 'FL', 'WR', 'WB']), ('fr', ['SW', 'FR-F4']), ('ug', ['UG']), ('ab', ['AB']),
                     ('u8', ['U8']), ('px', ['PX']), ('sc', ['SC-C01']), ('bz', ['BZ-S'])],
        'floors': {'ED': 30, 'AL': 1, 'EP': 1, 'SW': 2, 'SC-C01': 1, 'BZ-S': 2},
        'title': 'Decoding and re-encoding never panic, hang or fail on arbitrary bytes',
    },
    'C02': {
        'families': [('kt', ['KT']), ('fr_enc', ['FR-F5']), ('fr', ['FR-F2']), ('dg', ['DG-D6'])],
        'floors': {'KT-K1': 33, 'KT-K2': 30, 'KT-K3': 30, 'KT-K4': 20, 'KT-K7': 6, 'KT-K12': 6, 'KT-K13': 3, 'FR-F5': 10},
        'title': 'Decode -> encode -> decode returns the same map',
    },
    'C03': {
        'families': [('kv', ['KV']), ('kt', ['KT-K1', 'KT-K2', 'KT-K3', 'KT-K7', 'KT-K11', 'KT-K12', 'KT-K15']), ('dg', ['DG-D1', 'DG-D2', 'DG-D3', 'DG-D6']),
                     ('sc', ['SC-C11']), ('nf', ['NF'])],
        'floors': {'KT-K15': 50, 'KV': 15, 'KT-K1': 33, 'KT-K2': 30, 'KT-K7': 6, 'KT-K12': 6, 'SC-C11': 33, 'NF': 15},
        'title': 'Edits to a decoded map survive encode -> decode',
    },
    'C04': {
        'families': [('fr_enc', ['FR-F5']), ('fr', ['FR-F2']), ('kt', ['KT-K3', 'KT-K4', 'KT-K5', 'KT-K7', 'KT-K8', 'KT-K10', 'KT-K13', 'KT-K14']),
                     ('sc', ['SC-C04'])],
        'floors': {'FR-F5': 10, 'FR-F2': 13, 'KT-K3': 30, 'KT-K4': 20, 'KT-K7': 6, 'KT-K8': 2, 'KT-K10': 6, 'KT-K13': 3, 'KT-K14': 10,
                   'SC-C04': 1},
        'title': 'The encoder only emits text that its own decoder accepts (framing clause)',
    },
    'C05': {
        'families': [('fr', ['FR-F1', 'FR-F2', 'FR-F3', 'FR-F4', 'SW']), ('dg', ['DG-D4']), ('sc', ['SC-C05']), ('lb', ['LB'])],
        'floors': {'FR-F1': 11, 'FR-F2': 13, 'FR-F3': 13, 'FR-F4': 10, 'SW': 2, 'DG-D4': 18, 'SC-C05': 10, 'LB': 2},
        'title': 'File framing: which lines reach which section parser',
    },
    'C08': {
        'families': [('ic', ['IC']), ('dg', ['DG-D4']), ('ed', ['ED', 'AL'])],
        'floors': {'IC': 3, 'DG-D4': 18, 'ED': 30},
        'title': 'The result depends on the bytes only, not on how they are delivered',
    },
    'C06': {
        'families': [('ea', ['EA']), ('dg', ['DG-D3', 'DG-D1'])],
        'floors': {'EA': 8, 'DG-D3': 13},
        'title': 'A rejected line has no effect on the result',
    },
    'C07': {
        'families': [('dg', ['DG-D1', 'DG-D2', 'DG-D3', 'DG-D4', 'DG-D5', 'DG-D6', 'DG-D7'])],
        'floors': {'DG-D2': 99, 'DG-D3': 13, 'DG-D6': 200, 'DG-D4': 18, 'DG-D5': 9, 'DG-D1': 8},
        'title': 'Specialised decoders agree with the full decoder',
    },
    'C09': {
        'families': [('ed', ['ED', 'AL', 'EP', 'FL', 'WR', 'WB'])],
        'floors': {'ED': 30, 'WR': 10, 'FL': 2, 'AL': 1, 'EP': 1},
        'title': 'I/O faults are surfaced, never swallowed or turned into partial results',
    },
    'C11': {
        'families': [('sc', ['SC-C11']), ('nf', ['NF']), ('kv', ['KV']), ('ea', ['EA'])],
        'floors': {'SC-C11': 33, 'NF': 15, 'KV': 15, 'EA': 8},
        'title': 'Key/value, event and colour records decode per the format rules',
    },
    'C12': {
        'families': [('sc', ['SC-C12']), ('ss12', ['SS-C12']), ('ss13', ['SS-C13'])],
        'floors': {'SC-C12': 12, 'SS-C12': 8, 'SS-C13': 13},
        'title': 'Timing-point lines resolve by the legacy precedence rules',
    },
    'C13': {
        'families': [('ss13', ['SS-C13'])],
        'floors': {'SS-C13': 13},
        'title': 'Control-point collections stay ordered and lookups return the active point',
    },
    'C14': {
        'families': [('sc', ['SC-C14']), ('ss14', ['SS-C14']), ('ab', ['AB'])],
        'floors': {'SC-C14': 38, 'SS-C14': 8},
        'title': 'Hit-object lines decode per the legacy grammar',
    },
    'C15': {
        'families': [('sc', ['SC-C15']), ('ss15', ['SS-C15'])],
        'floors': {'SC-C15': 16, 'SS-C15': 4},
        'title': 'Map-level processing of hit objects: order, combos, velocity, sample defaults',
    },
    'C19': {
        'families': [('sc', ['SC-C19']), ('sscurve', ['SS-C19'])],
        'floors': {'SC-C19': 23, 'SS-C19': 10},
        'title': 'Position along a curve is a faithful arc-length parametrisation',
    },
    'C20': {
        'families': [('kbu_ticks', ['KBU']), ('sc', ['SC-C20']), ('ss20', ['SS-C20'])],
        'floors': {'KBU': 1, 'SC-C20': 26, 'SS-C20': 12},
        'title': 'Slider event stream has the legacy structure and timing',
    },
    'C18': {
        'families': [('kbu_bufs', ['KBU']), ('ci', ['CI']), ('sscurve', ['SS-C18']), ('bz', ['BZ'])],
        'floors': {'KBU': 9, 'CI': 4, 'SS-C18': 2, 'BZ-S': 2},
        'title': 'Curve computation is pure: buffers, caches and API choice do not matter',
    },
}
