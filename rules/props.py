"""Property -> rule instances.  Each runner takes a Ctx (facts of one crate configuration,
shared analyses) and an Out; the property keeps the instances whose rule id is selected."""
from common import Out
from effects import Effects
import ed
import dg
import ea
import kbu_rules


class Ctx:
    """per-configuration context with memoised shared analyses"""

    def __init__(self, facts, cfg):
        self.facts = facts
        self.cfg = cfg
        self._eff = None
        self._dg = None
        self._memo = {}

    @property
    def eff(self):
        if self._eff is None:
            self._eff = Effects(self.facts)
        return self._eff

    def run_once(self, name, fn):
        """run a rule family once per configuration; returns its Out"""
        if name not in self._memo:
            o = Out(self.cfg)
            extra = fn(self, o)
            self._memo[name] = (o, extra)
        return self._memo[name]


def fam_ed(ctx, o):
    ed.run(ctx.facts, o)


def fam_dg(ctx, o):
    return dg.run(ctx.facts, o)


def fam_ea(ctx, o):
    _o, extra = ctx.run_once('dg', fam_dg)
    cls, primaries, by_ty = extra
    return ea.run(ctx.facts, o, ctx.eff, cls, primaries, by_ty)


def fam_kbu_bufs(ctx, o):
    kbu_rules.run_buffers(ctx.facts, o, ctx.eff)


def fam_kbu_ticks(ctx, o):
    kbu_rules.run_ticks(ctx.facts, o, ctx.eff)


def fam_ci(ctx, o):
    kbu_rules.run_cache(ctx.facts, o)


FAMILIES = {
    'ed': fam_ed, 'dg': fam_dg, 'ea': fam_ea, 'kbu_bufs': fam_kbu_bufs, 'kbu_ticks': fam_kbu_ticks,
    'ci': fam_ci,
}

# property -> list of (family, [rule ids]) ; rule id prefix match on Inst.rule
PROPS = {
    'C06': {
        'families': [('ea', ['EA']), ('dg', ['DG-D3', 'DG-D1'])],
        'floors': {'EA': 8, 'DG-D3': 13},
        'title': 'A rejected line has no effect on the result',
    },
    'C07': {
        'families': [('dg', ['DG-D1', 'DG-D2', 'DG-D3', 'DG-D4', 'DG-D5', 'DG-D6', 'DG-D7'])],
        'floors': {'DG-D2': 99, 'DG-D3': 13, 'DG-D6': 200, 'DG-D4': 18, 'DG-D5': 9, 'DG-D1': 8},
        'title': 'Specialised decoders agree with the full decoder',
    },
    'C09': {
        'families': [('ed', ['ED', 'AL', 'EP', 'FL', 'WR'])],
        'floors': {'ED': 60, 'WR': 40, 'FL': 2, 'AL': 3, 'EP': 3},
        'title': 'I/O faults are surfaced, never swallowed or turned into partial results',
    },
    'C18': {
        'families': [('kbu_bufs', ['KBU']), ('ci', ['CI'])],
        'floors': {'KBU': 18, 'CI': 6},
        'title': 'Curve computation is pure: buffers, caches and API choice do not matter',
    },
}
