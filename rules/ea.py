"""EA: error atomicity of the section parsers (C06) + scratch-buffer discipline.

For every primary parser P(state, line): at every exit on which P may return Err, nothing
reachable from `state` may have been written, except *scratch* locations:
  - kill-before-use: on every path from P's entry the first access is a kill, and the final
    state->value conversion never reads it, or
  - clean-on-exit: every function that writes it kills it again before each normal return.
"""
from effects import Effects, KBU, clean_on_exit, covers
from common import loc_of
import dg


def fmt_loc(l):
    root, path = l
    base = 'state' if root == ('p', 1) else ('param%d' % root[1] if root[0] == 'p' else '_%d' % root[1])
    return base + ''.join('.' + p for p in path)


def writers_of(facts, eff, state_adt, field):
    """instances that may write `field` of a value of type state_adt through a &mut param"""
    res = []
    for inst in facts.instances:
        b = facts.bodies.get(inst['def'])
        if b is None:
            continue
        for pi in range(1, b.argc + 1):
            ty = b.locals[pi]
            if ty.get('to_adt') == state_adt and ty.get('ref') == 'mut':
                # direct (non-transitive through callees is fine: callees are instances too)
                a = eff.ia(inst['id'])
                if a is None:
                    continue
                direct = set()
                for bb in range(len(b.blocks)):
                    if b.is_cleanup(bb):
                        continue
                    for ev in a.block_events(bb):
                        if ev['kind'] == 'write':
                            direct |= ev['locs']
                        elif ev['kind'] == 'call':
                            ce = a.call_effects(bb, ev['t'])
                            if ce['callee'] is None:
                                direct |= ce['writes'] | ce['takes']
                if any(covers(l, (('p', pi), (field,))) and len(l[1]) >= 1 for l in direct):
                    res.append((inst['id'], pi))
    return res


def run(facts, out, eff=None, cls=None, primaries=None, by_ty=None):
    eff = eff or Effects(facts)
    if cls is None:
        o2 = type(out)()
        cls, primaries, by_ty = dg.run(facts, o2)
    kbu = KBU(eff)
    n_exits = 0
    scratch_report = {}
    for sec, ty in sorted(primaries.items()):
        d = by_ty[ty]
        mpath = d.methods['parse_' + sec]
        insts = facts.insts_of.get(mpath, [])
        if not insts:
            out.anchor('EA', 'instance of ' + mpath, False)
            continue
        iid = insts[0]['id']
        body = facts.bodies[mpath]
        errw, may_err = eff.errW(iid)
        state_dirty = {l: o for l, o in errw.items() if l[0] == ('p', 1)}
        # group by first field
        offenders = {}
        for l, o in state_dirty.items():
            offenders.setdefault(l, o)
        reported = set()
        for l, org in sorted(offenders.items(), key=lambda x: x[0][1]):
            if not l[1]:
                out.add('EA', mpath, 'write:state', '%s:%d' % (body.file, body.line), False,
                        'the whole state may be written before an Err return (%s)' % (org or {}).get('desc', ''))
                continue
            field = (('p', 1), l[1][:1])
            if field in reported:
                continue
            reported.add(field)
            # scratch?
            sc, why_not = is_scratch(facts, eff, kbu, iid, d, field)
            scratch_report[(mpath, fmt_loc(field))] = sc or why_not
            org = org or {}
            if sc:
                out.add('EA', mpath, 'scratch:' + fmt_loc(field), org.get('loc', '?'), True, '',
                        {'scratch': sc, 'written': org.get('desc', '')}, ordinal=False)
            else:
                chain = [org.get('desc', '')] + [c.get('desc', '') + ' @' + c.get('loc', '') for c in org.get('chain', []) if c]
                out.add('EA', mpath, 'write:' + fmt_loc(field), org.get('loc', '?'), False,
                        ('`%s` may already be written when the parser returns Err, and it is not a scratch '
                         'buffer (%s): a rejected line leaks into later lines. %s')
                        % (fmt_loc(field), why_not, ' <- '.join(c for c in chain if c)),
                        {'origin': org}, ordinal=False)
        # obligations: one per Err exit (count) -- measured from the flow
        nret = len(body.returns())
        n_exits += 1
        out.add('EA', mpath, 'err-exits', '%s:%d' % (body.file, body.line), True, '',
                {'may_err': may_err, 'dirty_at_err': sorted(fmt_loc(l) for l in state_dirty),
                 'writes_total': sorted(fmt_loc(l) for l in eff.W(iid) if l[0] == ('p', 1))}, ordinal=False)
    out.anchor('EA', 'primary parsers analysed', n_exits >= 8, '%d' % n_exits)
    return eff, scratch_report


def is_scratch(facts, eff, kbu, parser_iid, dec, field):
    """returns (reason string | None, why_not)"""
    # 1. kill-before-use from the parser entry + not read by the final conversion
    viols, _exit = kbu.flow(parser_iid, field)
    conv_reads = conversion_reads(facts, eff, dec, field)
    if not viols and not conv_reads:
        return 'kill-before-use (first access on every path of the parser is a kill; never read by the final conversion)', ''
    # 2. clean-on-exit for every writer
    ws = writers_of(facts, eff, dec.state, field[1][0])
    if ws:
        bad = []
        for wid, pi in ws:
            b = clean_on_exit(eff, wid, (('p', pi), field[1]))
            if b:
                bad.append((facts.inst[wid]['def'], b))
        if not bad:
            names = sorted({facts.inst[w]['def'] for w, _ in ws})
            return 'clean-on-exit (every writer %s kills it before each normal return)' % names, ''
    why = []
    if viols:
        v = viols[0]
        why.append('first access on some path is a use: %s in %s at %s' % (v['what'], v['fn'], v['loc']))
    if conv_reads:
        why.append('read by the final conversion at %s' % conv_reads[0])
    return None, '; '.join(why)


def conversion_reads(facts, eff, dec, field):
    """does `From<State> for T` read the field?"""
    res = []
    for inst in facts.instances:
        d = inst['def']
        if 'as std::convert::From<' in d and d.endswith('>::from') and dec.state in d and d.startswith('<' + dec.ty + ' as'):
            b = facts.bodies.get(d)
            if b is None:
                continue
            # state is param 1 *by value*: reads are uses of local 1's field
            for bi, blk in enumerate(b.blocks):
                if blk.get('cleanup'):
                    continue
                for s in blk['st']:
                    if s['k'] != 'assign':
                        continue
                    txt = []
                    _collect_places(s['rv'], txt)
                    for pl in txt:
                        if pl['l'] == 1 and pl['p'] and pl['p'][0].get('n') == field[1][0]:
                            res.append(loc_of(s['sp']))
                t = blk['term']
                if t['k'] == 'call':
                    for a in t['args']:
                        if a['k'] in ('copy', 'move'):
                            pl = a['pl']
                            if pl['l'] == 1 and pl['p'] and pl['p'][0].get('n') == field[1][0]:
                                res.append(loc_of(t['sp']))
    return res


def _collect_places(rv, out):
    if isinstance(rv, dict):
        if 'pl' in rv and isinstance(rv['pl'], dict) and 'l' in rv['pl']:
            out.append(rv['pl'])
        for v in rv.values():
            _collect_places(v, out)
    elif isinstance(rv, list):
        for x in rv:
            _collect_places(x, out)
