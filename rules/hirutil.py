"""Helpers over the typed HIR expression trees dumped by mirlint."""

CHILD_SKIP = ('pat', 'params')


def walk(e, fn, anc=None):
    """pre-order walk; fn(node, ancestors)"""
    if anc is None:
        anc = []
    if isinstance(e, dict):
        if 'k' in e:
            fn(e, anc)
            anc = anc + [e]
        for k, v in e.items():
            if k in CHILD_SKIP:
                continue
            walk(v, fn, anc)
    elif isinstance(e, list):
        for x in e:
            walk(x, fn, anc)


def is_try(e):
    return isinstance(e, dict) and e.get('k') == 'match' and e.get('src', '').startswith('TryDesugar')


def try_inner(e):
    """`expr?` -> expr"""
    if is_try(e):
        sc = e['scrut']
        if sc.get('k') == 'call' and sc['args']:
            return sc['args'][0]
    return None


def peel(e):
    """strip `?`, references, blocks with only a tail expression, casts are kept"""
    while isinstance(e, dict):
        t = try_inner(e)
        if t is not None:
            e = t
            continue
        if e.get('k') == 'addr':
            e = e['e']
            continue
        if e.get('k') == 'block' and not e['stmts'] and 'expr' in e:
            e = e['expr']
            continue
        if e.get('k') == 'unary' and e.get('op') == 'Deref':
            e = e['e']
            continue
        break
    return e


def field_chain(e):
    """`a.b.c` -> ('a', ['b','c']); None otherwise"""
    names = []
    cur = e
    while isinstance(cur, dict) and cur.get('k') == 'field':
        names.append(cur['n'])
        cur = cur['e']
    if isinstance(cur, dict) and cur.get('k') == 'local':
        return cur['name'], list(reversed(names))
    return None


def pat_bindings(p, out=None):
    if out is None:
        out = []
    if isinstance(p, dict):
        if p.get('k') == 'bind':
            out.append(p['name'])
        for v in p.values():
            pat_bindings(v, out)
    elif isinstance(p, list):
        for x in p:
            pat_bindings(x, out)
    return out


def binding_inits(hfn):
    """name -> list of init expressions (let / if-let / match scrutinee that binds the name)"""
    res = {}

    def visit(e, anc):
        k = e.get('k')
        if k in ('slet', 'let') and 'init' in e:
            pat = e['pat']
            done = set()
            while isinstance(pat, dict) and pat.get('k') == 'pref' and 'p' in pat:
                pat = pat['p']              # `let &S { a, .. } = v;`
            if isinstance(pat, dict) and pat.get('k') == 'pstruct':
                # `let S { a, b: c, .. } = v;` binds a to `v.a`, c to `v.b`
                for f in pat.get('fields', []):
                    sp = f.get('p')
                    while isinstance(sp, dict) and sp.get('k') == 'pref':
                        sp = sp['p']
                    if isinstance(sp, dict) and sp.get('k') == 'bind' and 'sub' not in sp:
                        res.setdefault(sp['name'], []).append({'k': 'field', 'e': e['init'], 'n': f['n'], 'ln': e.get('ln')})
                        done.add(sp['name'])
            for n in pat_bindings(e['pat']):
                if n not in done:
                    res.setdefault(n, []).append(e['init'])
        elif k == 'match':
            for a in e['arms']:
                for n in pat_bindings(a['pat']):
                    res.setdefault(n, []).append(e['scrut'])
        elif k in ('mcall', 'call'):
            # closure passed to an adapter (`iter.try_for_each(|x| ..)`, `opt.map(|x| ..)`): its
            # parameters take their values from the receiver / the other arguments
            args = ([e['recv']] if k == 'mcall' else []) + list(e['args'])
            for a in args:
                a2 = a
                while isinstance(a2, dict) and a2.get('k') == 'addr':
                    a2 = a2['e']
                if isinstance(a2, dict) and a2.get('k') == 'closure':
                    for p in a2.get('params', []):
                        for n in pat_bindings(p):
                            for other in args:
                                if other is not a:
                                    res.setdefault(n, []).append(other)
    walk(hfn['body'], visit)
    return res


def roots_of(e, inits, base='self', depth=0, seen=None):
    """set of first-level field names of `base` that the value of `e` may derive from"""
    out = set()
    seen = seen if seen is not None else set()
    if depth > 8:
        return out

    def visit(n, anc):
        if n.get('k') == 'field':
            fc = field_chain(n)
            if fc and fc[0] == base and fc[1]:
                out.add(fc[1][0])
        elif n.get('k') == 'local' and n['name'] != base:
            nm = n['name']
            if nm in seen:
                return
            seen.add(nm)
            for init in inits.get(nm, []):
                out.update(roots_of(init, inits, base, depth + 1, seen))
    walk(e, visit)
    return out


def full_roots_of(e, inits, base='self', depth=0, seen=None):
    """like roots_of but returns complete field chains (tuples)"""
    out = set()
    seen = seen if seen is not None else set()
    if depth > 8:
        return out
    covered = set()

    def visit(n, anc):
        if id(n) in covered:
            return
        if n.get('k') == 'field':
            fc = field_chain(n)
            if fc and fc[0] == base and fc[1]:
                out.add(tuple(fc[1]))
                # do not also report the prefixes
                cur = n
                while isinstance(cur, dict) and cur.get('k') == 'field':
                    covered.add(id(cur))
                    cur = cur['e']
        elif n.get('k') == 'local' and n['name'] != base:
            nm = n['name']
            if nm in seen:
                return
            seen.add(nm)
            for init in inits.get(nm, []):
                out.update(full_roots_of(init, inits, base, depth + 1, seen))
    walk(e, visit)
    return out


# ---------------------------------------------------------------- format_args

def decode_template(b):
    """fmt::Arguments template bytes -> list of ('lit', str) | ('arg', index|None)"""
    out = []
    i = 0
    nxt = 0
    n = len(b)
    while i < n:
        x = b[i]
        i += 1
        if x == 0:
            break
        if x & 0xC0 == 0xC0:
            flags = x
            if flags & 0x01:
                i += 4
            if flags & 0x02:
                i += 2
            if flags & 0x04:
                i += 2
            idx = None
            if flags & 0x08:
                idx = b[i] | (b[i + 1] << 8)
                i += 2
            if idx is None:
                idx = nxt
            nxt = idx + 1
            out.append(('arg', idx))
        elif x == 0x80:
            ln = b[i] | (b[i + 1] << 8)
            i += 2
            out.append(('lit', bytes(b[i:i + ln]).decode('utf-8', 'replace')))
            i += ln
        else:
            out.append(('lit', bytes(b[i:i + x]).decode('utf-8', 'replace')))
            i += x
    return out


def parse_format_block(blk):
    """the block expression passed to write_fmt / format!: returns (pieces, arg_exprs) or None"""
    if not isinstance(blk, dict):
        return None
    args_tuple = None
    template = None
    fmt_args = []   # in the order of the `args` array: index into tuple

    def visit(e, anc):
        nonlocal args_tuple, template
        if e.get('k') == 'slet' and e['pat'].get('k') == 'bind' and e['pat']['name'] == 'args':
            init = e.get('init', {})
            if init.get('k') == 'tup' and args_tuple is None:
                args_tuple = init['es']
            elif init.get('k') == 'array':
                for el in init['es']:
                    # Argument::new_display(args.N)
                    if el.get('k') == 'call' and el['args']:
                        a0 = el['args'][0]
                        fc = field_chain(a0)
                        if fc and fc[0] == 'args' and fc[1]:
                            fmt_args.append((int(fc[1][0]), el['f'].get('name')))
        if e.get('k') == 'call' and e['f'].get('k') == 'path' and \
                e['f'].get('def', '').startswith('std::fmt::Arguments') and e['args']:
            a0 = e['args'][0]
            if a0.get('k') == 'lit' and a0.get('t') == 'bytes':
                template = a0['v']
            elif a0.get('k') == 'lit' and a0.get('t') == 'str':
                template = ('str', a0['v'])
    walk(blk, visit)
    if template is None:
        return None
    if isinstance(template, tuple):
        return [('lit', template[1])], [], []
    pieces = decode_template(template)
    exprs = []
    traits = []
    if args_tuple is not None:
        if fmt_args:
            exprs = [args_tuple[i] for (i, _n) in fmt_args if i < len(args_tuple)]
            traits = [n for (i, n) in fmt_args if i < len(args_tuple)]
        else:
            exprs = list(args_tuple)
    return pieces, exprs, traits


def write_events(hfn):
    """ordered list of writer events in a function:
    {'kind': 'fmt', 'pieces': [...], 'args': [expr...], 'ln', 'conds': [cond exprs of enclosing ifs]}
    {'kind': 'bytes', 'e': expr, 'ln', 'conds'}
    {'kind': 'call', 'name': callee name, 'def': path, 'ln'}   (calls to other local fns with the writer)"""
    evs = []

    def conds_of(anc):
        cs = list(early)
        for i, a in enumerate(anc):
            if a.get('k') == 'if':
                cs.append(a['c'])
            elif a.get('k') == 'match' and not a.get('src', '').startswith('TryDesugar'):
                cs.append(a['scrut'])
            elif a.get('k') == 'loop':
                cs.append({'k': 'loop-marker', 'ln': a.get('ln')})
            elif a.get('k') == 'closure':
                cs.append({'k': 'closure-marker', 'ln': a.get('ln')})
        return cs

    early = []      # explicit `return`s seen so far (not the ones `?` desugars to)

    def visit(e, anc):
        if e.get('k') == 'ret' and not any(is_try(a) for a in anc) and not any(a.get('k') == 'closure' for a in anc):
            # the final statement of the function is not an *early* return; detect by checking that
            # something follows it is done lazily: later events get the marker
            early.append({'k': 'early-return-marker', 'ln': e.get('ln')})
            return
        if e.get('k') in ('mcall', 'call') and early:
            pass
        if e.get('k') == 'mcall' and e.get('def') == 'std::io::Write::write_fmt':
            pf = parse_format_block(e['args'][0]) if e['args'] else None
            if pf:
                evs.append({'kind': 'fmt', 'pieces': pf[0], 'args': pf[1], 'traits': pf[2], 'ln': e['ln'],
                            'conds': conds_of(anc)})
            else:
                evs.append({'kind': 'fmt', 'pieces': [], 'args': [], 'ln': e['ln'], 'conds': conds_of(anc),
                            'opaque': True})
        elif e.get('k') == 'mcall' and e.get('def') == 'std::io::Write::write_all':
            evs.append({'kind': 'bytes', 'e': e['args'][0] if e['args'] else None, 'ln': e['ln'],
                        'conds': conds_of(anc)})
        elif e.get('k') == 'mcall' and e.get('def') == 'std::io::Write::flush':
            evs.append({'kind': 'flush', 'ln': e['ln'], 'conds': conds_of(anc)})
        elif e.get('k') in ('mcall', 'call'):
            d = e.get('def') if e.get('k') == 'mcall' else (e['f'].get('def') if e['f'].get('k') == 'path' else None)
            if d and (d.startswith('encode::') or '::encode' in d):
                cargs = ([e['recv']] if e.get('k') == 'mcall' else []) + list(e['args'])
                evs.append({'kind': 'call', 'def': d, 'name': d.split('::')[-1], 'ln': e['ln'],
                            'conds': conds_of(anc), 'callargs': cargs})
    walk(hfn['body'], visit)
    return evs


def lit_bytes(e):
    e = peel(e)
    if isinstance(e, dict) and e.get('k') == 'lit':
        if e.get('t') == 'bytes':
            return bytes(e['v'])
        if e.get('t') == 'byte':
            return bytes([e['v']])
        if e.get('t') == 'str':
            return e['v'].encode()
    return None


def flat_write_events(facts, fn, conds=(), seen=None, depth=0):
    """write events of `fn` with the events of the local `encode::*` helpers it calls spliced in
    (depth-first, in source order); each event carries the accumulated conditions/loops and the
    function it textually belongs to"""
    seen = seen or set()
    out = []
    hfn = facts.hir.get(fn)
    if hfn is None or fn in seen or depth > 6:
        return out
    seen = seen | {fn}
    for e in write_events(hfn):
        e2 = dict(e)
        e2['conds'] = list(conds) + list(e['conds'])
        e2['fn'] = fn
        if e['kind'] == 'call' and e.get('def') in facts.hir:
            sub = flat_write_events(facts, e['def'], e2['conds'], seen, depth + 1)
            if sub:
                # the helper's parameters stand for the caller's argument expressions
                mapping = param_mapping(facts.hir[e['def']], e.get('callargs', []))
                for s_ in sub:
                    if mapping:
                        if 'args' in s_:
                            s_['args'] = [subst(a, mapping) for a in s_['args']]
                        if s_.get('e') is not None:
                            s_['e'] = subst(s_['e'], mapping)
                        s_['conds'] = list(e2['conds']) + [subst(c, mapping) for c in s_['conds'][len(e2['conds']):]]
                    s_.setdefault('outer_fns', []).append(fn)
                    if mapping:
                        pm = s_.setdefault('param_map', {})
                        for k_, v_ in mapping.items():
                            pm.setdefault(k_, v_)
                out.extend(sub)
                continue
        out.append(e2)
    return out


def param_mapping(hfn, callargs):
    """parameter name -> argument expression, for simple `name: T` parameters"""
    mapping = {}
    params = hfn.get('params', [])
    if len(params) != len(callargs):
        return mapping
    for p, a in zip(params, callargs):
        if isinstance(p, dict) and p.get('k') == 'bind':
            # a parameter that is re-bound inside the helper keeps its own meaning
            mapping[p['name']] = a
    rebound = binding_inits(hfn)
    return {k: v for k, v in mapping.items() if k not in rebound}


def subst(e, mapping):
    """copy of expression e with the locals named in mapping replaced by their expressions"""
    if isinstance(e, dict):
        if e.get('k') == 'local' and e.get('name') in mapping:
            return mapping[e['name']]
        return {k: (v if k in CHILD_SKIP else subst(v, mapping)) for k, v in e.items()}
    if isinstance(e, list):
        return [subst(x, mapping) for x in e]
    return e


def event_inits(facts, ev, cache=None):
    """let-initialisers visible to the expressions of a (possibly spliced) write event: those of the
    function it textually belongs to, then those of the callers it was spliced into"""
    res = {}
    for f in [ev['fn']] + list(ev.get('outer_fns', [])):
        if cache is not None and f in cache:
            bi = cache[f]
        else:
            bi = binding_inits(facts.hir[f])
            if cache is not None:
                cache[f] = bi
        for k, v in bi.items():
            res.setdefault(k, v)
    # locals derived from a helper's parameter (`let Some((first, rest)) = list.split_first()`) lead back to the argument
    for k, v in (ev.get('param_map') or {}).items():
        res.setdefault(k, [v])
    return res


def event_text(e):
    if e['kind'] == 'fmt':
        return ''.join(p[1] if p[0] == 'lit' else '\x00' for p in e['pieces'])
    if e['kind'] == 'bytes':
        b = lit_bytes(e['e'])
        return b.decode('utf-8', 'replace') if b is not None else None
    return None


def _strip_wrappers(e):
    while isinstance(e, dict) and (e.get('k') == 'addr' or (e.get('k') == 'unary' and e.get('op') == 'Deref') or
                                   (e.get('k') == 'block' and not e.get('stmts') and 'expr' in e)):
        e = e['expr'] if e.get('k') == 'block' else e['e']
    return e


def _count_nodes(e):
    n = 0
    stack = [e]
    while stack:
        x = stack.pop()
        if isinstance(x, dict):
            n += 1
            stack.extend(x.values())
        elif isinstance(x, list):
            stack.extend(x)
    return n


def inline_calls(facts, hfn, depth=3, budget=6000, skip=()):
    """the function body with calls of crate-local functions replaced by the callee's body in which the
    parameters are replaced by the (already inlined) argument expressions; closures passed as
    arguments are applied where the callee calls them; recursive up to `depth`, bounded in size"""
    def beta(n):
        if isinstance(n, dict):
            if n.get('k') == 'call' and isinstance(n.get('f'), dict) and _strip_wrappers(n['f']).get('k') == 'closure':
                cl = _strip_wrappers(n['f'])
                ps = cl.get('params', [])
                if len(ps) == len(n['args']) and all(p.get('k') == 'bind' for p in ps):
                    return beta(subst(cl['body'], {p['name']: a for p, a in zip(ps, n['args'])}))
            return {k: (v if k in CHILD_SKIP else beta(v)) for k, v in n.items()}
        if isinstance(n, list):
            return [beta(x) for x in n]
        return n

    def deref_addr(n):
        """`*(&mut place)` left behind by substituting an out-parameter is the place itself"""
        if isinstance(n, dict):
            n = {k: (v if k in CHILD_SKIP else deref_addr(v)) for k, v in n.items()}
            if n.get('k') == 'unary' and n.get('op') == 'Deref':
                inner = n['e']
                while isinstance(inner, dict) and inner.get('k') == 'block' and not inner.get('stmts') and 'expr' in inner:
                    inner = inner['expr']
                if isinstance(inner, dict) and inner.get('k') == 'addr':
                    return inner['e']
            return n
        if isinstance(n, list):
            return [deref_addr(x) for x in n]
        return n

    def inline(n, d, stack):
        if isinstance(n, dict):
            n2 = {k: (v if k in CHILD_SKIP else inline(v, d, stack)) for k, v in n.items()}
            dd, cargs = None, None
            if n2.get('k') == 'call' and isinstance(n2.get('f'), dict) and n2['f'].get('k') == 'path':
                dd, cargs = n2['f'].get('def'), list(n2['args'])
            elif n2.get('k') == 'mcall':
                dd, cargs = n2.get('def'), [n2['recv']] + list(n2['args'])
            if dd and d > 0 and dd not in stack and dd not in skip and dict.__contains__(facts.hir, dd):
                h2 = facts.hir[dd]
                mapping = param_mapping(h2, cargs)
                if (mapping or not h2.get('params')) and _count_nodes(h2['body']) < budget:
                    cbody = h2['body']
                    # capture avoidance: a local the callee binds under the name of a variable that occurs in the
                    # arguments is renamed before the arguments are substituted in
                    free = set()
                    for a_ in cargs:
                        walk(a_ if isinstance(a_, dict) else {}, lambda x, anc: free.add(x['name']) if x.get('k') == 'local' else None)
                    pnames = set()
                    for p_ in h2.get('params', []):
                        pnames.update(pat_bindings(p_))
                    clash = (_bound_names(cbody) & free) - pnames
                    if clash:
                        cbody = _rename_locals(cbody, {n_: n_ + "'" for n_ in clash})
                    body = deref_addr(beta(subst(cbody, mapping)))
                    res = inline(body, d - 1, stack | {dd})
                    if isinstance(res, dict) and res.get('k') == 'block':
                        res = dict(res)
                        res['inl'] = dd          # marks the body of an inlined call (a `return` inside leaves only it)
                    return res
            return n2
        if isinstance(n, list):
            return [inline(x, d, stack) for x in n]
        return n
    return inline(hfn['body'], depth, frozenset([hfn['path']]))


def _bound_names(e):
    names = set()

    def rec(x):
        if isinstance(x, dict):
            if x.get('k') == 'bind' and 'name' in x:
                names.add(x['name'])
            for v in x.values():
                rec(v)
        elif isinstance(x, list):
            for y in x:
                rec(y)
    rec(e)
    return names


def _rename_locals(e, ren):
    if isinstance(e, dict):
        out = {k: _rename_locals(v, ren) for k, v in e.items()}
        if e.get('k') in ('bind', 'local') and e.get('name') in ren:
            out['name'] = ren[e['name']]
        return out
    if isinstance(e, list):
        return [_rename_locals(x, ren) for x in e]
    return e


def inlined_fn(facts, hfn, depth=3, keep=()):
    """keep: suffixes of function paths whose calls are left in place (the calls a rule is about)"""
    skip = {d for d in facts.hir if any(d.endswith(k) for k in keep)} if keep else ()
    return {'path': hfn['path'], 'params': hfn.get('params', []), 'body': inline_calls(facts, hfn, depth, skip=skip)}


def new_combo_or_sites(facts, hfn, field='new_combo'):
    """sites where a flag is or-ed into `<obj>.new_combo`: list of (flag expr, multiplicity).
    Direct form `x.new_combo |= f` counts once; `*p |= f` where p comes from a crate-local accessor returning
    `&mut _.new_combo` counts once per `&mut _.new_combo` in that accessor (one per object kind)."""
    inits = binding_inits(hfn)
    sites = []

    def peel(e):
        while isinstance(e, dict) and ((e.get('k') == 'block' and not e.get('stmts') and 'expr' in e) or e.get('k') == 'addr'):
            e = e['expr'] if e.get('k') == 'block' else e['e']
        return e

    def accessor_count(call):
        d = call.get('def') if call.get('k') == 'mcall' else (call['f'].get('def') if call.get('k') == 'call' and call['f'].get('k') == 'path' else None)
        h2 = facts.hir.get(d) if d and dict.__contains__(facts.hir, d) else None
        if h2 is None:
            return 0
        n = [0]

        def v(x, anc):
            if x.get('k') == 'addr' and x.get('mut', True):
                t = peel(x['e'])
                if isinstance(t, dict) and t.get('k') == 'field' and t.get('n') == field:
                    n[0] += 1
        walk(h2['body'], v)
        return n[0]

    def visit(n, anc):
        if n.get('k') != 'assignop' or n.get('op') not in ('BitOr', 'BitOrAssign'):
            return
        l = n['l']
        while isinstance(l, dict) and l.get('k') == 'block' and not l.get('stmts') and 'expr' in l:
            l = l['expr']
        if isinstance(l, dict) and l.get('k') == 'field' and l.get('n') == field:
            sites.append((n['r'], 1, n))
            return
        if isinstance(l, dict) and l.get('k') == 'unary' and l.get('op') == 'Deref':
            t = peel(l['e'])
            if isinstance(t, dict) and t.get('k') == 'local':
                for i in inits.get(t['name'], []):
                    i2 = peel(i)
                    if isinstance(i2, dict) and i2.get('k') in ('mcall', 'call'):
                        c = accessor_count(i2)
                        if c:
                            sites.append((n['r'], c, n))
                            return
    walk(hfn['body'], visit)
    return sites


COND_POS = {('if', 't'), ('if', 'e'), ('match', 'arms'), ('loop', 'body'), ('closure', 'body')}


def walk_paths(root, fn):
    """pre-order walk calling fn(node, path) with path = [(ancestor, key under which the walk descended)]"""
    def rec(n, path):
        if isinstance(n, dict):
            fn(n, path)
            for k, v in n.items():
                if k in CHILD_SKIP:
                    continue
                if isinstance(v, (dict, list)):
                    rec_child(n, k, v, path)
        elif isinstance(n, list):
            for x in n:
                rec(x, path)

    def rec_child(parent, k, v, path):
        p2 = path + [(parent, k)]
        if isinstance(v, list):
            for x in v:
                rec(x, p2)
        else:
            rec(v, p2)
    rec(root, [])


def unroll_literal_loops(hfn, max_len=16):
    """`for x in [a, b, c] { body }` (array literal, directly or through a `let`) as the block `{ body[x:=a]; body[x:=b];
    body[x:=c] }` -- every element is visited once, in order, so the loop is just a way of writing the sequence.  Loops
    whose body can `break`/`continue` are left alone."""
    inits = binding_inits(hfn)

    consumed = set()

    def array_of(e):
        e = peel(e)
        if isinstance(e, dict) and e.get('k') == 'local':
            its = inits.get(e['name'], [])
            if len(its) == 1:
                if isinstance(peel(its[0]), dict) and peel(its[0]).get('k') == 'array':
                    consumed.add(e['name'])
                e = peel(its[0])
        if isinstance(e, dict) and e.get('k') == 'array' and len(e.get('es', [])) <= max_len:
            return e['es']
        return None

    def rec(n):
        if isinstance(n, dict):
            n = {k: (v if k in CHILD_SKIP else rec(v)) for k, v in n.items()}
            if n.get('k') == 'match' and n.get('src', '').startswith('ForLoop') and isinstance(n.get('scrut'), dict) \
                    and n['scrut'].get('k') == 'call' and n['scrut']['f'].get('name') == 'into_iter' and n['scrut']['args']:
                elems = array_of(n['scrut']['args'][0])
                if elems is not None and len(n['arms']) == 1:
                    lp = n['arms'][0]['body']
                    inner = None
                    if isinstance(lp, dict) and lp.get('k') == 'loop' and lp['body'].get('stmts'):
                        inner = lp['body']['stmts'][0]
                    if isinstance(inner, dict) and inner.get('k') == 'match' and len(inner.get('arms', [])) == 2:
                        some = [a for a in inner['arms'] if 'Some' in repr(a['pat'])[:300]]
                        if some:
                            names = pat_bindings(some[0]['pat'])
                            body = some[0]['body']
                            esc = []
                            walk(body, lambda x, anc: esc.append(x) if x.get('k') in ('break', 'continue') else None)
                            if len(names) == 1 and not esc:
                                stmts = [_beta(subst(body, {names[0]: el})) for el in elems]
                                return {'k': 'block', 'stmts': stmts, 'ln': n.get('ln'), 'unrolled': True}
            return n
        if isinstance(n, list):
            return [rec(x) for x in n]
        return n
    body = rec(hfn['body'])
    if consumed:
        # the table the loop ran over is gone with the loop (unless something else still mentions it)
        def still_used(name, root):
            hit = []
            walk(root, lambda x, anc: hit.append(x) if x.get('k') == 'local' and x.get('name') == name else None)
            return bool(hit)

        def drop(n):
            if isinstance(n, dict):
                n = {k: (v if k in CHILD_SKIP else drop(v)) for k, v in n.items()}
                if n.get('k') == 'block' and n.get('stmts'):
                    n['stmts'] = [st for st in n['stmts'] if not (
                        isinstance(st, dict) and st.get('k') == 'slet' and st['pat'].get('k') == 'bind' and
                        st['pat'].get('name') in consumed and not still_used(st['pat']['name'], {'k': 'x', 'v': [
                            s2 for s2 in n['stmts'] if s2 is not st] + [n.get('expr')]}))]
                return n
            if isinstance(n, list):
                return [drop(x) for x in n]
            return n
        body = drop(body)
    return {'path': hfn['path'], 'params': hfn.get('params', []), 'body': body}


def _beta(n):
    """apply closures that are called directly (`(|a, b| body)(x, y)`) after a substitution"""
    if isinstance(n, dict):
        n = {k: (v if k in CHILD_SKIP else _beta(v)) for k, v in n.items()}
        if n.get('k') == 'call' and isinstance(n.get('f'), dict) and _strip_wrappers(n['f']).get('k') == 'closure':
            cl = _strip_wrappers(n['f'])
            ps = cl.get('params', [])
            if len(ps) == len(n['args']) and all(p_.get('k') == 'bind' for p_ in ps):
                return _beta(subst(cl['body'], {p_['name']: a for p_, a in zip(ps, n['args'])}))
        return n
    if isinstance(n, list):
        return [_beta(x) for x in n]
    return n
