"""IC: input conservation on the decode path (C08).

Every byte taken from the reader is either kept (copied into / read into a decoder-owned buffer
that survives) or is a recognised BOM:
  IC1 BufRead::consume(n): n is the BOM length returned by Encoding::from_bom
  IC2 a local buffer filled from the reader (read_to_end/read_until/read/read_exact) is not dropped:
      it must flow into the returned value
  IC3 Vec::drain/truncate/split_off/clear on a reader-filled *local* buffer removes only the BOM length
Also the three entry points are thin wrappers around the one driver (D::decode on a Cursor /
BufReader<File>).
"""
from facts import callee_of, op_local, op_place, resolve_ref, value_def, place_key, field_path
from common import loc_of
import ed

FROM_BOM = 'reader::encoding::Encoding::from_bom'
FILLERS = {'read_to_end', 'read_until', 'read', 'read_exact', 'read_buf', 'read_to_string', 'read_line'}


def _from_bom_len(body, l, depth=0):
    """does local l hold `.1` of Encoding::from_bom(..)?"""
    if l is None or depth > 10:
        return False
    defs = body.defs.get(l, [])
    if len(defs) != 1:
        return False
    bi, si, kind, s = defs[0]
    if kind != 'assign':
        return False
    rv = s['rv']
    if rv['k'] == 'use':
        pl = op_place(rv['op'])
        if pl is None:
            return False
        if not pl['p']:
            return _from_bom_len(body, pl['l'], depth + 1)
        # _x.1 of a from_bom result
        if len(pl['p']) == 1 and pl['p'][0]['k'] == 'field' and pl['p'][0]['n'] == '1':
            d2 = body.defs.get(pl['l'], [])
            if len(d2) == 1 and d2[0][2] == 'call':
                c = callee_of(d2[0][3])
                return bool(c and body.facts.ref_path(c['path']) == FROM_BOM)
    return False


def run(facts, out, bodies=None):
    fixture = bodies is not None
    if bodies is None:
        o2 = type(out)()
        dec, _enc = ed.decode_encode_roots(facts, o2)
        bodies, ids = ed.path_bodies(facts, dec)
    n_consume = 0
    n_fill = 0
    for b in bodies:
        for bb, t in b.calls():
            if b.is_cleanup(bb):
                continue
            c = callee_of(t)
            if not c:
                continue
            if c.get('trait') == 'std::io::BufRead' and c['name'] == 'consume':
                n_consume += 1
                l = op_local(t['args'][1]) if len(t['args']) > 1 else None
                ok = _from_bom_len(b, l)
                out.add('IC', b.path, 'consume', loc_of(t['sp']), ok,
                        '' if ok else ('bytes are consumed from the reader without being kept and without being a '
                                       'recognised BOM (amount is not Encoding::from_bom(..).1): input delivered in '
                                       'small chunks is lost'))
            if c.get('trait') in ('std::io::Read', 'std::io::BufRead') and c['name'] in FILLERS:
                n_fill += 1
                bufarg = t['args'][-1]
                l = op_local(bufarg)
                pl = resolve_ref(b, l) if l is not None else None
                if pl is None:
                    out.add('IC', b.path, 'fill:' + c['name'], loc_of(t['sp']), False,
                            'cannot resolve the buffer the reader fills')
                    continue
                if any(e['k'] == 'deref' for e in pl['p']) and pl['l'] == 1:
                    # a field of the decoder itself: kept
                    out.add('IC', b.path, 'fill:' + c['name'], loc_of(t['sp']), True, '',
                            {'buffer': 'self.' + '.'.join(field_path(pl))})
                    continue
                if not pl['p']:
                    # local buffer: must not be dropped on a normal path, must reach _0
                    bl = pl['l']
                    ok, why = _local_kept(b, bl)
                    if not ok:
                        # `let rest = buf.split_off(bom_len);` -- what stays behind in `buf` (and is dropped) is exactly the
                        # recognised BOM, the bytes after it live on in `rest`
                        for bb2, t2 in b.calls():
                            c2 = callee_of(t2)
                            if c2 and c2['path'].startswith('std::vec::Vec::<T, A>::') and c2['name'] == 'split_off' and len(t2['args']) == 2:
                                p2 = resolve_ref(b, op_local(t2['args'][0])) if op_local(t2['args'][0]) is not None else None
                                if p2 is not None and not p2['p'] and p2['l'] == bl and _from_bom_len(b, op_local(t2['args'][1])) \
                                        and not t2['dest']['p']:
                                    ok2, why2 = _local_kept(b, t2['dest']['l'])
                                    if ok2:
                                        ok, why = True, ''
                    out.add('IC', b.path, 'fill:' + c['name'], loc_of(t['sp']), ok, why, {'buffer': '_%d' % bl})
                    continue
                if all(e['k'] == 'deref' for e in pl['p']) and 1 <= pl['l'] <= b.argc and not fixture:
                    # out-parameter: the buffer belongs to the callers; each must keep what it passes
                    ok, why, n_sites = _out_param_kept(facts, bodies, b, pl['l'])
                    out.add('IC', b.path, 'fill:' + c['name'], loc_of(t['sp']), ok, why,
                            {'buffer': 'out-parameter _%d' % pl['l'], 'call_sites': n_sites})
                    continue
                out.add('IC', b.path, 'fill:' + c['name'], loc_of(t['sp']), False,
                        'reader fills a buffer that is neither a decoder field nor a returned local')
            # IC3
            if c['path'].startswith('std::vec::Vec::<T, A>::') and c['name'] in ('drain', 'truncate', 'split_off'):
                l = op_local(t['args'][0])
                pl = resolve_ref(b, l) if l is not None else None
                if pl is not None and (not pl['p'] or (all(e['k'] == 'deref' for e in pl['p']) and pl['l'] <= b.argc)) \
                        and _is_reader_filled(b, pl):
                    ok = _drain_is_bom(b, t)
                    why_t = 'bytes read from the reader are removed from the buffer and are not the BOM length'
                    if c['name'] == 'truncate':
                        # keeps the first n bytes and throws the rest away: never a BOM removal
                        ok, why_t = False, 'the buffer read from the reader is cut after n bytes: everything behind them is lost'
                    elif c['name'] == 'split_off' and ok:
                        # the bytes behind the BOM move into the result: it must be kept
                        ok = not t['dest']['p'] and _local_kept(b, t['dest']['l'])[0]
                        why_t = 'the bytes split off behind the BOM are not kept'
                    out.add('IC', b.path, 'trim:' + c['name'], loc_of(t['sp']), ok, '' if ok else why_t)
    # IC4 BOM detection must not look at a single fill_buf() chunk: its length depends on how the
    # reader delivers the bytes (a first chunk shorter than the BOM would not be recognised)
    for b in bodies:
        fb = [t for bb, t in b.calls() if callee_of(t) and callee_of(t).get('trait') == 'std::io::BufRead'
              and callee_of(t)['name'] == 'fill_buf']
        if not fb:
            continue
        tainted = {t['dest']['l'] for t in fb}
        changed = True
        while changed:
            changed = False
            for bi, blk in enumerate(b.blocks):
                if blk.get('cleanup'):
                    continue
                for s in blk['st']:
                    if s['k'] != 'assign':
                        continue
                    rv = s['rv']
                    src = None
                    if rv['k'] in ('use', 'cast'):
                        src = op_place(rv['op'])
                    elif rv['k'] == 'ref':
                        src = rv['pl']
                    if src is not None and src['l'] in tainted and s['pl']['l'] not in tainted:
                        tainted.add(s['pl']['l'])
                        changed = True
                t2 = blk['term']
                if t2['k'] == 'call':
                    c2 = callee_of(t2)
                    if c2 and (c2.get('trait') == 'std::ops::Try' or c2['name'] in ('deref', 'as_ref', 'unwrap_or_default')):
                        l0 = op_local(t2['args'][0]) if t2['args'] else None
                        if l0 in tainted and t2['dest']['l'] not in tainted:
                            tainted.add(t2['dest']['l'])
                            changed = True
        for bb, t in b.calls():
            c = callee_of(t)
            if c and facts.ref_path(c['path']) == FROM_BOM:
                l0 = op_local(t['args'][0])
                bad = l0 in tainted
                out.add('IC', b.path, 'bom-source', loc_of(t['sp']), not bad,
                        '' if not bad else ('the BOM is detected on a single fill_buf() chunk; a reader whose first chunk is '
                                            'shorter than the BOM gets a different encoding/result for the same bytes'))
    # IC2 across one call level: a function that returns a reader-filled buffer hands the obligation
    # to its callers
    carriers = set()
    for i in out.insts:
        if i.rule == 'IC' and i.construct.startswith('fill:') and i.ok and i.detail.get('buffer', '').startswith('_'):
            carriers.add(i.fn)
    for b in bodies:
        for bb, t in b.calls():
            if b.is_cleanup(bb):
                continue
            c = callee_of(t)
            if not c or c['path'] not in carriers:
                continue
            tainted = {t['dest']['l']}
            changed = True
            while changed:
                changed = False
                for bi, blk in enumerate(b.blocks):
                    if blk.get('cleanup'):
                        continue
                    for s in blk['st']:
                        if s['k'] == 'assign' and s['rv']['k'] == 'use':
                            pl = op_place(s['rv']['op'])
                            if pl is not None and pl['l'] in tainted and s['pl']['l'] not in tainted:
                                tainted.add(s['pl']['l'])
                                changed = True
                    t2 = blk['term']
                    if t2['k'] == 'call':
                        c2 = callee_of(t2)
                        if c2 and c2.get('trait') == 'std::ops::Try' and c2['name'] == 'branch':
                            l0 = op_local(t2['args'][0])
                            if l0 in tainted and t2['dest']['l'] not in tainted:
                                tainted.add(t2['dest']['l'])
                                changed = True
            bufs = [l for l in tainted if b.locals[l]['s'] == 'std::vec::Vec<u8>']
            for bl in bufs:
                ok, why = _local_kept(b, bl)
                out.add('IC', b.path, 'kept:' + c['name'], loc_of(t['sp']), ok,
                        why.replace('filled from the reader', 'returned by `%s` (filled from the reader)' % c['name']),
                        {'buffer': '_%d' % bl})
    out.add('IC', facts.crate, 'inventory', 'crate', True, '',
            {'consume_calls': n_consume, 'reader_fill_calls': n_fill, 'trivial': True}, ordinal=False)
    if fixture:
        return
    out.anchor('IC', 'reader fill calls on the decode path', n_fill >= 1, '%d' % n_fill)
    # PV: the line reader and the driver helpers are not reachable from outside the crate, so every
    # decoder goes through DecodeBeatmap::decode
    for fnp in ('decode::parse_section', 'decode::parse_first_section', 'decode::parse_version'):
        fn = facts.fns.get(facts.resolve(fnp) or fnp)
        out.anchor('IC', 'driver helper ' + fnp, fn is not None)
        if fn is not None:
            okp = not fn.get('reachable', fn['pub'])
            out.add('IC', fn['path'], 'unreachable-from-outside', loc_of(fn['sp']), okp,
                    '' if okp else 'driver helper is reachable from outside the crate (a second driver becomes possible)',
                    ordinal=False)
            for t in fn['inputs']:
                a = facts.adts.get(t.get('to_adt') or '')
                if a is not None and a['path'].startswith('reader::'):
                    okr = not a.get('reachable', a['pub'])
                    out.add('IC', a['path'], 'reader-type-unreachable', loc_of(a['sp']), okr,
                            '' if okr else 'the line reader type is reachable from outside the crate', ordinal=False)
    # entry points are thin wrappers
    for name in ('decode::from_bytes', 'decode::from_str', 'decode::from_path'):
        b = facts.body(name)
        out.anchor('IC', 'entry point ' + name, b is not None)
        if b is None:
            continue
        names = []
        for bb, t in b.calls():
            if b.is_cleanup(bb):
                continue
            c = callee_of(t)
            names.append(c['path'].split('::<')[0] if c else 'fnptr')
        allowed = {'std::io::Cursor', 'decode::DecodeBeatmap::decode', 'std::fs::File::open',
                   'std::result::Result', 'std::io::BufReader'}
        bad = [n for n in names if not any(n.startswith(a) for a in allowed)]
        has_decode = any(n.startswith('decode::DecodeBeatmap::decode') for n in names) or \
            any('decode::DecodeBeatmap>::decode' in repr(t['args']) for bb, t in b.calls())
        ok = not bad and has_decode
        out.add('IC', name, 'thin-entry', '%s:%d' % (b.file, b.line), ok,
                '' if ok else 'entry point does more than wrap the reader and call D::decode: %s' % bad, ordinal=False)


def _is_reader_filled(body, place):
    for bb, t in body.calls():
        c = callee_of(t)
        if c and c.get('trait') in ('std::io::Read', 'std::io::BufRead') and c['name'] in FILLERS:
            al = op_local(t['args'][-1])
            pl = resolve_ref(body, al) if al is not None else None
            if pl is not None and place_key(pl) == place_key(place):
                return True
    return False


def _out_param_kept(facts, bodies, callee_body, param_local):
    """every caller on the decode path passes a buffer it keeps (decoder field or a kept local)"""
    n = 0
    for cb in bodies:
        for bb, t in cb.calls():
            if cb.is_cleanup(bb):
                continue
            c = callee_of(t)
            if not c or facts.ref_path(c['path']) != facts.ref_path(callee_body.path):
                continue
            n += 1
            if len(t['args']) < param_local:
                return False, 'cannot match the out-parameter at a call site in %s' % cb.path, n
            l = op_local(t['args'][param_local - 1])
            pl = resolve_ref(cb, l) if l is not None else None
            if pl is None:
                return False, 'cannot resolve the buffer passed by %s' % cb.path, n
            if any(e['k'] == 'deref' for e in pl['p']) and pl['l'] == 1:
                continue
            if not pl['p']:
                ok, why = _local_kept(cb, pl['l'])
                if not ok:
                    return False, 'buffer passed by %s: %s' % (cb.path, why), n
                continue
            return False, 'buffer passed by %s is neither a decoder field nor a kept local' % cb.path, n
    if n == 0:
        return False, 'no call site of the function taking the out-parameter found on the decode path', 0
    return True, '', n


def _drain_is_bom(body, t):
    # drain(..n): second arg is RangeTo { end: n } aggregate or truncate(n)
    a = t['args'][1] if len(t['args']) > 1 else None
    if a is None:
        return False
    l = op_local(a)
    if l is None:
        return False
    vd = value_def(body, l)
    if vd and vd[0] == 'assign' and vd[1]['rv']['k'] == 'aggr' and vd[1]['rv'].get('adt', '').startswith('std::ops::RangeTo'):
        l2 = op_local(vd[1]['rv']['ops'][0])
        return _from_bom_len(body, l2)
    return _from_bom_len(body, l)


def _local_kept(body, l):
    """the local (or what it is moved into) reaches the return place and is never dropped on a
    normal path"""
    holders = {l}
    changed = True
    reaches_ret = False
    while changed:
        changed = False
        for bi, blk in enumerate(body.blocks):
            if blk.get('cleanup'):
                continue
            for s in blk['st']:
                if s['k'] != 'assign':
                    continue
                rv = s['rv']
                srcs = []
                if rv['k'] == 'use':
                    pl = op_place(rv['op'])
                    if pl is not None and not pl['p'] and rv['op']['k'] == 'move':
                        srcs.append(pl['l'])
                elif rv['k'] == 'aggr':
                    for o in rv['ops']:
                        pl = op_place(o)
                        if pl is not None and not pl['p'] and o['k'] == 'move':
                            srcs.append(pl['l'])
                if any(x in holders for x in srcs):
                    d = s['pl']['l']
                    if d == 0:
                        reaches_ret = True
                    if d not in holders:
                        holders.add(d)
                        changed = True
            t = blk['term']
            if t['k'] == 'call':
                c = callee_of(t)
                moved_in = False
                for a in t['args']:
                    pl = op_place(a)
                    if pl is not None and not pl['p'] and a['k'] == 'move' and pl['l'] in holders:
                        moved_in = True
                if moved_in and c and (c['path'].startswith('std::io::Cursor::<T>::new') or c['name'] in ('chain', 'new')):
                    d = t['dest']['l']
                    if d == 0:
                        reaches_ret = True
                    if d not in holders:
                        holders.add(d)
                        changed = True
    for bi, blk in enumerate(body.blocks):
        if blk.get('cleanup'):
            continue
        t = blk['term']
        if t['k'] == 'drop' and not t['pl']['p'] and t['pl']['l'] in holders:
            # a drop on a path that returns Err is fine (the error is surfaced); find whether the
            # drop can reach a return whose value is Ok
            if _drop_on_ok_path(body, bi):
                return False, 'the buffer filled from the reader is dropped at %s instead of being kept' % loc_of(t['sp'])
    if not reaches_ret:
        return False, 'the buffer filled from the reader does not reach the returned value'
    return True, ''


def _drop_on_ok_path(body, bi):
    """can a return whose value may be Ok be reached along a path through block bi?  An Err-only
    return means the error is surfaced anyway and nothing is lost silently."""
    from ed import ret_defs_via
    for r, defs in ret_defs_via(body, bi).items():
        for d in defs:
            if d == 'entry':
                return True
            bb, si = d
            if si == 'term':
                c = callee_of(body.term(bb))
                if not (c and c.get('trait') == 'std::ops::FromResidual'):
                    return True
            else:
                s = body.blocks[bb]['st'][si]
                if not (s['rv']['k'] == 'aggr' and s['rv'].get('variant') == 'Err'):
                    return True
    return False


def _reaches(body, a, b):
    seen = {a}
    st = [a]
    while st:
        x = st.pop()
        if x == b:
            return True
        for s in body.succ(x):
            if s not in seen:
                seen.add(s)
                st.append(s)
    return False
