#!/usr/bin/env python3
"""pretty-print bodies from a fact file: mirpp.py <facts.json> <substring> ..."""
import sys
sys.path.insert(0, __file__.rsplit('/', 1)[0])
from facts import Facts
f = Facts(sys.argv[1])
for pat in sys.argv[2:]:
    for p, b in sorted(f.bodies.items()):
        if pat in p:
            print(b.pretty())
            for i, pb in enumerate(b.j.get('promoted', [])):
                pass
