"""Shape rule for the curve buffers (C19): the vertex list and the cumulative-length list leave
`calculate_length` with the same number of entries on every exit -- every vertex has its cumulative length.

The lengths of the two vectors are tracked as linear forms over symbols (the vertex count on entry, the
index where the path is cut) through the statements that change them: clear / push / pop / truncate / extend
over the consecutive-vertex pairs.  Branch conditions that talk about a length (`is_empty()`, `len() == 1`,
`k < v.len()`) refine the forms inside the branch.  Path exploration is symeval's (if/else, early return,
helpers inlined)."""
import hirutil as H
import symeval as SE
from hp import strip


class Lin:
    """c + sum(coef * sym)"""

    def __init__(self, c=0, t=None):
        self.c = c
        self.t = dict(t or {})

    def add(self, o, k=1):
        o = o if isinstance(o, Lin) else Lin(o)
        t = dict(self.t)
        for s, v in o.t.items():
            t[s] = t.get(s, 0) + k * v
            if t[s] == 0:
                del t[s]
        return Lin(self.c + k * o.c, t)

    def subst(self, sym, val):
        if sym not in self.t:
            return self
        coef = self.t[sym]
        t = dict(self.t)
        del t[sym]
        return Lin(self.c, t).add(val, coef)

    def key(self):
        return (self.c, tuple(sorted(self.t.items())))

    def __eq__(self, o):
        return isinstance(o, Lin) and self.key() == o.key()

    def __repr__(self):
        parts = ['%s%s' % ('' if v == 1 else '%d*' % v, s) for s, v in sorted(self.t.items())]
        if self.c or not parts:
            parts.append(str(self.c))
        return ' + '.join(parts)


def vec_kind(e):
    e = strip(e)
    ty = (e.get('ty') or '') if isinstance(e, dict) else ''
    if 'Vec<' in ty or ty.endswith(']'):
        if 'pos::Pos' in ty:
            return 'P'
        if 'f64' in ty:
            return 'L'
    return None


class LenEval(SE.SymEval):
    def __init__(self):
        super().__init__(None, budget=20000)
        self.track_let_blocks = True
        self.bind_struct_lets = False       # the destructured vectors keep their (typed) local identity
        self.exits = []
        self.underflows = []

    # symbolic integer value of an expression
    def lin(self, e, env):
        e = strip(e)
        if not isinstance(e, dict):
            return None
        k = e.get('k')
        if k == 'lit' and e.get('t') == 'int':
            return Lin(int(e['v']))
        if k == 'local':
            v = env.get(e['name'])
            if v is not None and v[0] == 'v' and isinstance(v[1], dict) and v[1] is not e and v[1].get('k') != 'local':
                r = self.lin(v[1], env)
                if r is not None:
                    return r
            if (e.get('ty') or '') in ('usize', 'i32', 'u32', 'isize'):
                return Lin(0, {'$' + e['name']: 1})
            return None
        if k == 'binary' and e.get('op') in ('Add', 'Sub'):
            a, b = self.lin(e['a'], env), self.lin(e['b'], env)
            if a is None or b is None:
                return None
            return a.add(b, 1 if e['op'] == 'Add' else -1)
        if k == 'mcall' and e.get('name') == 'len' and not e['args']:
            vk = vec_kind(e['recv'])
            if vk and ('#' + vk) in env:
                return env['#' + vk]
        return None

    # ------------------------------------------------------------------ index arithmetic
    def lower(self, form, env):
        """least value of a form under the tracked lower bounds of its symbols (None: unbounded below)"""
        lb = env.get('#lb', {})
        v = form.c
        for s_, coef in form.t.items():
            if coef < 0:
                return None
            v += coef * lb.get(s_, 0)
        return v

    def scan_sub(self, e, env):
        def rec(n):
            if isinstance(n, dict):
                if n.get('k') in ('closure',) or (n.get('k') == 'block' and n.get('stmts')):
                    return
                if n.get('k') == 'binary' and n.get('op') == 'Sub' and n.get('ty') == 'usize':
                    f = self.lin(n, env)
                    if f is not None:
                        lo = self.lower(f, env)
                        if lo is not None and lo < 0:
                            self.underflows.append((n.get('ln'), repr(f), lo))
                for k, v in n.items():
                    if k not in H.CHILD_SKIP:
                        rec(v)
            elif isinstance(n, list):
                for x in n:
                    rec(x)
        rec(e)

    def invalidate(self, e, env):
        """a call that is handed one of the tracked vectors (and is not one of the modelled methods) may change it"""
        hit = set()

        def rec(n, top=True):
            if isinstance(n, dict):
                if n.get('k') in ('closure',) or (n.get('k') == 'block' and n.get('stmts')) or n.get('k') in ('if', 'match', 'loop'):
                    return
                if n.get('k') == 'call' and n['f'].get('k') == 'path':
                    for a in n['args']:
                        vk = vec_kind(a)
                        if vk and ((strip(a).get('ty') or '').startswith('&mut') or strip(a).get('k') == 'addr'):
                            hit.add(vk)
                for k, v in n.items():
                    if k not in H.CHILD_SKIP:
                        rec(v, False)
            elif isinstance(n, list):
                for x in n:
                    rec(x, False)
        rec(e)
        if not hit:
            return env
        env2 = dict(env)
        for vk in hit:
            env2['#' + vk] = None
        return env2

    def _for_loop_effect(self, st, env):
        """`for x in <pairs of the vertex list> { .. v.push(..) .. }` with a straight-line body: every vector grows by
        (pushes per iteration) x (number of pairs)"""
        if not (isinstance(st, dict) and st.get('k') == 'match' and st.get('src', '').startswith('ForLoop')):
            return None
        sc = st.get('scrut')
        if not (isinstance(sc, dict) and sc.get('k') == 'call' and sc['f'].get('name') == 'into_iter' and sc['args']):
            return None
        m = self.pairs_len(sc['args'][0], env)
        if m is None or len(st.get('arms', [])) != 1:
            return None
        lp = st['arms'][0]['body']
        if not (isinstance(lp, dict) and lp.get('k') == 'loop' and lp['body'].get('stmts')):
            return None
        inner = lp['body']['stmts'][0]
        some = [a for a in inner.get('arms', []) if 'Some' in repr(a['pat'])[:300]] if isinstance(inner, dict) else []
        if not some:
            return None
        body = some[0]['body']
        esc = []
        H.walk(body, lambda x, anc: esc.append(x) if x.get('k') in ('break', 'continue', 'ret') else None)
        if esc:
            return None
        probe = dict(env)
        probe['#P'] = Lin(0)
        probe['#L'] = Lin(0)
        res = []
        sub = LenEval()
        sub.budget = 2000
        try:
            t = sub.seq(list(body.get('stmts', [])) if body.get('k') == 'block' else [], body.get('expr') if body.get('k') == 'block' else body,
                        probe, lambda e2, tl: (res.append(sub.effect(tl, e2) or e2 if isinstance(tl, dict) and tl.get('k') == 'mcall' else e2)
                                               or ('v', {'k': 'end'})),
                        kret=lambda vt, e2=None: ('v', {'k': 'ret'}))
        except SE.Stop:
            return None
        if t[0] != 'v' or len(res) != 1:
            return None         # the body branches: pushes per iteration are not constant
        e_end = res[0]
        env2 = dict(env)
        for vk in ('P', 'L'):
            d = e_end.get('#' + vk)
            cur = env.get('#' + vk)
            if d is None or d.t or cur is None:
                env2['#' + vk] = None if (d is None or d.t) and (d is None or d.key() != Lin(0).key()) else cur
                continue
            env2['#' + vk] = cur.add(Lin(m.c * d.c, {s_: v_ * d.c for s_, v_ in m.t.items()}))
        return env2

    def stmt(self, st, env, knext, kret, as_tail=None):
        fl = self._for_loop_effect(st, env)
        if fl is not None:
            return knext(fl)
        if isinstance(st, dict) and st.get('k') in ('slet', 'call', 'mcall', 'assign'):
            env = self.invalidate(st.get('init', st) if st.get('k') == 'slet' else st, env)
        elif isinstance(st, dict) and st.get('k') == 'if':
            env = self.invalidate(st['c'], env)
        elif isinstance(st, dict) and st.get('k') == 'match':
            env = self.invalidate(st['scrut'], env)
        if isinstance(st, dict) and not env.get('#dead'):
            if st.get('k') == 'slet' and 'init' in st:
                self.scan_sub(st['init'], env)
            elif st.get('k') in ('assign', 'assignop'):
                self.scan_sub(st['r'], env)
                self.scan_sub(st['l'], env)
        return super().stmt(st, env, knext, kret, as_tail)

    def not_equal(self, env, a, b):
        """a != b: raises the lower bound of a symbol that sat exactly on the excluded value"""
        d = a.add(b, -1)
        if len(d.t) != 1:
            return env
        (sym, coef), = d.t.items()
        if abs(coef) != 1:
            return env
        excluded = -d.c * coef
        lb = dict(env.get('#lb', {}))
        if lb.get(sym, 0) == excluded:
            lb[sym] = excluded + 1
            env['#lb'] = lb
        return env

    def effect(self, st, env):
        e = strip(st)
        if not isinstance(e, dict) or e.get('k') != 'mcall':
            return None
        vk = vec_kind(e['recv'])
        if vk is None or ('#' + vk) not in env:
            return None
        cur = env['#' + vk]
        name = e.get('name')
        new = None
        if name == 'clear':
            new = Lin(0)
        elif name in ('reserve', 'reserve_exact', 'shrink_to_fit', 'iter', 'iter_mut', 'as_slice', 'len', 'is_empty', 'last',
                      'first', 'get', 'last_mut', 'first_mut', 'as_mut_slice', 'sort_by', 'reverse', 'rotate_left'):
            return env
        elif name == 'push':
            new = cur.add(1) if cur is not None else None
        elif name == 'pop':
            new = cur.add(-1) if cur is not None else None
        elif name == 'truncate' and len(e['args']) == 1:
            k = self.lin(e['args'][0], env)
            # exact only where the vector is known to be at least that long (branch condition) or exactly that long
            if k is not None and cur is not None and (cur == k or self.known_ge(env, cur, k)):
                new = k
            else:
                new = None
        elif name == 'extend' and len(e['args']) == 1:
            m = self.pairs_len(e['args'][0], env)
            new = cur.add(m) if (m is not None and cur is not None) else None
        else:
            new = None
        env2 = dict(env)
        env2['#' + vk] = new
        return env2

    def known_ge(self, env, cur, k):
        """cur >= k follows from a recorded `small < big`: cur - k = (big - small) + c with c >= -1"""
        d = cur.add(k, -1)
        for small, big in env.get('#facts', ()):
            r = d.add(big.add(small, -1), -1)
            if not r.t and r.c >= -1:
                return True
        return not d.t and d.c >= 0

    def pairs_len(self, it, env, depth=0):
        """number of items of `v.iter().zip(v.iter().skip(1))[.map(..)]` (or windows(2)) over the vertex list: |v| - 1"""
        it = strip(it)
        if depth > 6 or not isinstance(it, dict):
            return None
        if it.get('k') == 'local':
            v = env.get(it['name'])
            if v is not None and v[0] == 'v' and v[1] is not it:
                return self.pairs_len(v[1], env, depth + 1)
            return None
        if it.get('k') == 'mcall':
            nm = it.get('name')
            if nm in ('map', 'inspect', 'copied', 'cloned', 'by_ref', 'into_iter', 'enumerate'):
                return self.pairs_len(it['recv'], env, depth + 1)
            if nm == 'zip' and len(it['args']) == 1:
                a, b = strip(it['recv']), strip(it['args'][0])

                def base_skip(x):
                    sk = 0
                    while isinstance(x, dict) and x.get('k') == 'mcall' and x.get('name') in ('iter', 'skip', 'copied', 'into_iter'):
                        if x['name'] == 'skip':
                            c = strip(x['args'][0])
                            if not (isinstance(c, dict) and c.get('k') == 'lit'):
                                return None
                            sk += int(c['v'])
                        x = strip(x['recv'])
                    return (vec_kind(x), sk)
                ba, bb = base_skip(a), base_skip(b)
                if ba and bb and ba[0] == 'P' and bb[0] == 'P' and sorted((ba[1], bb[1])) == [0, 1] and env.get('#P') is not None:
                    return env['#P'].add(-1)
            if nm == 'windows' and vec_kind(it['recv']) == 'P' and env.get('#P') is not None:
                c = strip(it['args'][0])
                if isinstance(c, dict) and c.get('k') == 'lit' and int(c['v']) == 2:
                    return env['#P'].add(-1)
        return None

    def assume(self, c, pol, env):
        c0 = strip(c)
        while isinstance(c0, dict) and c0.get('k') == 'unary' and c0.get('op') == 'Not':
            c0 = strip(c0['e'])
            pol = not pol
        if not isinstance(c0, dict):
            return env
        if c0.get('k') == 'binary' and c0.get('op') == 'And' and pol:
            return self.assume(c0['b'], True, self.assume(c0['a'], True, env))
        if c0.get('k') == 'binary' and c0.get('op') == 'Or' and not pol:
            return self.assume(c0['b'], False, self.assume(c0['a'], False, env))
        env2 = dict(env)
        if c0.get('k') == 'local' and c0.get('name') in env and env[c0['name']][0] == 'ite' and \
                'pslice' in repr(env[c0['name']][1])[:4000]:
            # `let ends_on_duplicate = match path.as_slice() { [.., a, b] => a == b, _ => false };`
            if pol:
                env2['#quirk'] = True
            return env2
        if c0.get('k') == 'match' or (c0.get('k') == 'block' and 'pslice' in repr(c0)[:4000]):
            # `matches!(path.as_slice(), [.., a, b] if ..)`: the osu!stable "no extension" branch
            if pol:
                env2['#quirk'] = True
            return env2
        if c0.get('k') == 'mcall' and c0.get('name') == 'is_empty' and vec_kind(c0['recv']):
            vk = vec_kind(c0['recv'])
            cur = env.get('#' + vk)
            if pol and cur is not None:
                return self.equate(env2, cur, Lin(0))
            if not pol and cur is not None:
                return self.not_equal(env2, cur, Lin(0))
            return env2
        if c0.get('k') == 'binary' and c0.get('op') in ('Eq', 'Lt', 'Gt', 'Le', 'Ge', 'Ne'):
            a, b = self.lin(c0['a'], env), self.lin(c0['b'], env)
            op = c0['op']
            if a is None or b is None:
                return env2
            if (op == 'Eq' and pol) or (op == 'Ne' and not pol):
                return self.equate(env2, a, b)
            if (op == 'Eq' and not pol) or (op == 'Ne' and pol):
                return self.not_equal(env2, a, b)
            # `k < v.len()` (true) : truncate(k) on v is exact
            lt = None
            if (op == 'Lt' and pol) or (op == 'Ge' and not pol):
                lt = (a, b)
            elif (op == 'Gt' and pol) or (op == 'Le' and not pol):
                lt = (b, a)
            if lt is not None:
                env2['#facts'] = tuple(env.get('#facts', ())) + (lt,)
            return env2
        return env2

    def equate(self, env, a, b):
        """a == b: solve for one symbol and substitute it everywhere"""
        d = a.add(b, -1)
        if not d.t:
            if d.c != 0:
                env['#dead'] = True
            return env
        sym, coef = sorted(d.t.items())[0]
        if abs(coef) != 1:
            return env
        rest = Lin(d.c, {s: v for s, v in d.t.items() if s != sym})
        val = Lin(0).add(rest, -coef)          # sym = -rest/coef
        for k in list(env):
            if k in ('#P', '#L') and env[k] is not None:
                env[k] = env[k].subst(sym, val)
        env['#facts'] = tuple((a.subst(sym, val), b.subst(sym, val)) for a, b in env.get('#facts', ()))
        return env


def check(facts, hfn, mode='in-step'):
    """returns (ok, why, n_exits)"""
    ev = LenEval()
    body = hfn['body']
    # the curve builders hand over at least one vertex (an empty control point list never gets here with an
    # expected length that needs fitting: its single 0.0 length takes the `len() == 1` exit)
    env0 = {'#P': Lin(0, {'n': 1}), '#L': Lin(0, {'m': 1}), '#lb': {'n': 1}}

    def at_exit(env, what):
        if env.get('#dead'):
            return ('v', {'k': 'end'})
        ev.exits.append((env.get('#P'), env.get('#L'), bool(env.get('#quirk')), what))
        return ('v', {'k': 'end'})
    try:
        ev.seq(list(body.get('stmts', [])), body.get('expr'), env0, lambda env, tail: at_exit(env, 'end of function'),
               kret=lambda vt, env=None: at_exit(env or {}, 'return'))
    except SE.Stop:
        return False, 'function too large for the length analysis', 0
    bad = []
    n = 0
    for p_, l_, quirk, what in ev.exits:
        if quirk:
            continue                # the osu!stable branch (ported as is from osu!lazer: one extra length)
        n += 1
        if p_ is None or l_ is None:
            bad.append('%s: the number of %s is not determined by the tracked operations' % (what, 'vertices' if p_ is None else 'lengths'))
        elif p_ != l_:
            bad.append('%s: %s vertices but %s cumulative lengths' % (what, p_, l_))
    if n == 0:
        return False, 'no exit of the function was analysed', 0
    if mode == 'underflow':
        if any(p_ is None or l_ is None for p_, l_, q_, w_ in ev.exits if not q_):
            return False, 'the number of entries is not determined by the tracked operations', n
        if ev.underflows:
            ln, f, lo = ev.underflows[0]
            return False, ('index arithmetic at line %s can go below zero (%s can be %d): a `usize` subtraction that '
                           'panics / wraps' % (ln, f, lo)), n
        return True, '', n
    if bad:
        return False, bad[0], n
    return True, '', n
