"""KBU instances for C18 (CurveBuffers) and C20 (tick buffer), and CI (cache invalidation)."""
from effects import Effects, KBU, covers, under
from facts import callee_of, op_place, op_local, place_key, field_path, resolve_ref, value_def
from common import loc_of

# BezierBuffers are grown, never cleared, and rely on index-level overwrite-before-read
# inside bezier_subdivide: an array-content invariant, out of reach (stated as assumption).
KBU_EXCLUDED_FIELDS = {'section::hit_objects::slider::curve::CurveBuffers': {'bezier'}}


def run_buffers(facts, out, eff=None):
    """C18: every pub fn with a `&mut CurveBuffers` parameter: path/lengths/vertices are
    killed before their first use on every path."""
    eff = eff or Effects(facts)
    kbu = KBU(eff)
    adt = 'section::hit_objects::slider::curve::CurveBuffers'
    a = facts.adts.get(adt)
    out.anchor('KBU', 'struct CurveBuffers', a is not None)
    if a is None:
        return eff
    fields = [f['name'] for f in a['variants'][0]['fields'] if f['name'] not in KBU_EXCLUDED_FIELDS[adt]]
    for f in a['variants'][0]['fields']:
        okp = not f.get('reachable', f['pub'])
        out.add('KBU', adt, 'field-private:' + f['name'], loc_of(a['sp']), okp,
                '' if okp else 'scratch field `%s` of CurveBuffers is reachable from outside the crate' % f['name'],
                ordinal=False)
    out.anchor('KBU', 'CurveBuffers scratch fields', len(fields) >= 3, str(fields))
    roots = []
    for inst in facts.instances:
        fn = facts.fns.get(inst['def'])
        b = facts.bodies.get(inst['def'])
        if fn is None or b is None or not fn['pub']:
            continue
        for pi in range(1, b.argc + 1):
            ty = b.locals[pi]
            if ty.get('to_adt') == adt and ty.get('ref') == 'mut':
                roots.append((inst, pi))
    out.anchor('KBU', 'pub fns taking &mut CurveBuffers', len(roots) >= 6,
               str(sorted({r[0]['def'] for r in roots})))
    for inst, pi in roots:
        b = facts.bodies[inst['def']]
        for f in fields:
            loc = (('p', pi), (f,))
            viols, exit_state = kbu.flow(inst['id'], loc)
            if viols:
                v = viols[0]
                via = ' via ' + ' -> '.join(v.get('via', [])) if v.get('via') else ''
                out.add('KBU', inst['def'], 'buffer:' + f, v['loc'], False,
                        ('scratch buffer `%s` may be used before it is cleared: %s in %s%s; the result would '
                         'depend on what an earlier computation left in the buffers') % (f, v['what'], v['fn'], via),
                        {'violations': viols[:5]}, ordinal=False)
            else:
                out.add('KBU', inst['def'], 'buffer:' + f, '%s:%d' % (b.file, b.line), True, '',
                        {'exit_state': exit_state}, ordinal=False)
    return eff


def run_ticks(facts, out, eff=None):
    """C20: SliderEventsIter::new kills the tick buffer before any use"""
    eff = eff or Effects(facts)
    kbu = KBU(eff)
    name = 'section::hit_objects::slider::event::SliderEventsIter::<\'ticks_buf>::new'
    insts = facts.insts_of.get(name, [])
    out.anchor('KBU', 'SliderEventsIter::new', bool(insts))
    for inst in insts:
        b = facts.bodies[inst['def']]
        found = False
        for pi in range(1, b.argc + 1):
            ty = b.locals[pi]
            if ty.get('ref') == 'mut' and 'Vec<' in ty['s'] and 'SliderEvent' in ty['s']:
                found = True
                loc = (('p', pi), ())
                viols, exit_state = kbu.flow(inst['id'], loc)
                ok = not viols and exit_state == 'K'
                why = ''
                if viols:
                    v = viols[0]
                    why = 'tick buffer used before being cleared: %s at %s' % (v['what'], v['loc'])
                elif exit_state != 'K':
                    why = ('the reusable tick buffer is not cleared on every path of the constructor; the '
                           'event stream would depend on what the buffer held before')
                out.add('KBU', inst['def'], 'buffer:ticks', '%s:%d' % (b.file, b.line), ok, why, ordinal=False)
        out.anchor('KBU', 'ticks parameter of SliderEventsIter::new', found)
    return eff


def run_line_buffers(facts, out, eff=None):
    """C05 (line reading): the per-line buffers of the reader are killed before they are refilled.
    * the String the line is decoded into: from every method taking `&mut Decoder`, cleared before
      anything is appended to it (otherwise a line is handed on with the previous decode in front);
    * the byte buffer: from the method that reads up to the delimiter, cleared before the read."""
    eff = eff or Effects(facts)
    kbu = KBU(eff, writes_only=True)
    adt = 'reader::decoder::Decoder'
    a = facts.adts.get(adt)
    out.anchor('LB', 'struct Decoder', a is not None)
    if a is None:
        return eff
    sfields = [f['name'] for f in a['variants'][0]['fields'] if f['ty']['s'] == 'std::string::String']
    bfields = [f['name'] for f in a['variants'][0]['fields'] if f['ty']['s'] == 'std::vec::Vec<u8>']
    out.anchor('LB', 'decode buffer (String) and read buffer (Vec<u8>) of Decoder', len(sfields) == 1 and len(bfields) == 1,
               '%s %s' % (sfields, bfields))
    n = 0
    for inst in facts.instances:
        b = facts.bodies.get(inst['def'])
        if b is None or b.argc < 1 or '{closure' in inst['def']:
            continue
        ty = b.locals[1]
        if not (ty.get('to_adt') == adt and ty.get('ref') == 'mut'):
            continue
        reads_delim = any((callee_of(t) or {}).get('name') == 'read_until' for bb, t in b.calls())
        for f, applies in [(x, True) for x in sfields] + [(x, reads_delim) for x in bfields]:
            if not applies:
                continue
            n += 1
            viols, _exit = kbu.flow(inst['id'], (('p', 1), (f,)))
            if viols:
                v = viols[0]
                via = ' via ' + ' -> '.join(v.get('via', [])) if v.get('via') else ''
                out.add('LB', inst['def'], 'buffer:' + f, v['loc'], False,
                        ('line buffer `%s` may be appended to / read before it is cleared: %s in %s%s; the line handed to '
                         'the parsers would contain what an earlier read or decode left there') % (f, v['what'], v['fn'], via),
                        {'violations': viols[:5]}, ordinal=False)
            else:
                out.add('LB', inst['def'], 'buffer:' + f, '%s:%d' % (b.file, b.line), True, '', ordinal=False)
    out.anchor('LB', 'methods taking &mut Decoder', n >= 2, str(n))
    return eff


# ----------------------------------------------------------------------------- BZ

BZ_ADT = 'section::hit_objects::slider::curve::BezierBuffers'
BZ_NEUTRAL = {'deref', 'deref_mut', 'as_mut_slice', 'as_slice', 'as_mut', 'as_ref', 'borrow_mut', 'borrow'}
BZ_GROWERS = {'section::hit_objects::slider::curve::BezierBuffers::extend_exact'}
BZ_DERIVES = ('std::clone::Clone', 'std::default::Default', 'std::fmt::Debug', 'std::cmp::PartialEq')


def run_bezier(facts, out):
    """C18: the Bezier scratch vectors only ever grow and are never cleared, so beyond the current
    segment's point count they hold what an earlier, longer segment left there.  Necessary condition
    for purity: nothing uses such a vector *as a whole* (iterating it, taking its length, copying
    it); every access is an element access or a range index (`v[..count]`, `v[1..count]`), or hands
    the vector on to a function that obeys the same rule.  (That the elements below `count` are
    written before they are read is index-level and not decided.)"""
    a = facts.adts.get(BZ_ADT)
    out.anchor('BZ', 'struct BezierBuffers', a is not None)
    if a is None:
        return
    fields = {f['name'] for f in a['variants'][0]['fields'] if f['ty']['s'].startswith('std::vec::Vec<')}
    out.anchor('BZ', 'grow-only scratch vectors of BezierBuffers', len(fields) >= 3, str(sorted(fields)))
    # scratch parameters per function, found by propagation from the fields
    scratch_params = {}
    work = []
    seeds = set()
    for p, b in facts.bodies.items():
        if any(('<%s as %s' % (BZ_ADT, d)) in p for d in BZ_DERIVES) or 'CurveBuffers as' in p:
            continue
        if _bz_seed_locals(b, fields):
            seeds.add(p)
            work.append(p)
    seen_fn = set()
    violations = {}
    checked = 0
    while work:
        p = work.pop()
        key = (p, tuple(sorted(scratch_params.get(p, ()), key=str)))
        if key in seen_fn:
            continue
        seen_fn.add(key)
        b = facts.bodies[p]
        S = set(x for x in scratch_params.get(p, ()) if isinstance(x, int)) | _bz_seed_locals(b, fields)
        caps = {x[1] for x in scratch_params.get(p, ()) if isinstance(x, tuple)}
        if caps:
            # closure body: captured scratch references are fields of the closure environment (_1)
            for blk in b.blocks:
                for st in blk['st']:
                    if st['k'] != 'assign' or st['pl']['p']:
                        continue
                    rv = st['rv']
                    pl = op_place(rv['op']) if rv['k'] in ('use', 'cast') else (rv['pl'] if rv['k'] in ('ref', 'rawptr') else None)
                    if pl is not None and pl['l'] == 1 and not _has_index(pl):
                        fl = [e for e in pl['p'] if e['k'] == 'field']
                        if fl and fl[0].get('i') in caps:
                            S.add(st['pl']['l'])
        bounded = set()
        changed = True
        # propagate through copies, reborrows and neutral calls
        while changed:
            changed = False
            for bi, blk in enumerate(b.blocks):
                if blk.get('cleanup'):
                    continue
                for st in blk['st']:
                    if st['k'] != 'assign' or st['pl']['p']:
                        continue
                    rv = st['rv']
                    src = None
                    if rv['k'] in ('use', 'cast'):
                        pl = op_place(rv['op'])
                        src = pl['l'] if pl is not None and not _has_index(pl) else None
                    elif rv['k'] in ('ref', 'rawptr'):
                        src = rv['pl']['l'] if not _has_index(rv['pl']) and not _other_field(rv['pl'], fields) else None
                    if src in S and st['pl']['l'] not in S:
                        S.add(st['pl']['l'])
                        changed = True
                t = blk['term']
                if t['k'] == 'call':
                    c = callee_of(t)
                    if c and c['name'] in BZ_NEUTRAL and t['args']:
                        l0 = op_local(t['args'][0])
                        d = t.get('dest', {}).get('l') if isinstance(t.get('dest'), dict) else None
                        if l0 in S and d is not None and d not in S:
                            S.add(d)
                            changed = True
        if p in BZ_GROWERS:
            continue
        # closures capturing a scratch reference: their bodies are checked like callees
        for bi, blk in enumerate(b.blocks):
            if blk.get('cleanup'):
                continue
            for st in blk['st']:
                if st['k'] == 'assign' and st['rv']['k'] == 'aggr' and st['rv'].get('closure'):
                    ks = {('c', k) for k, o in enumerate(st['rv']['ops']) if op_local(o) in S}
                    cp = st['rv']['closure']
                    if ks and cp in facts.bodies:
                        old = scratch_params.get(cp, set())
                        if not ks <= old:
                            scratch_params[cp] = old | ks
                        work.append(cp)
        # check every use
        bad = []
        for bi, blk in enumerate(b.blocks):
            if blk.get('cleanup'):
                continue
            t = blk['term']
            if t['k'] != 'call':
                continue
            c = callee_of(t)
            arg_locals = [op_local(x) for x in t['args']]
            if not any(l in S for l in arg_locals if l is not None):
                continue
            checked += 1
            if c is None:
                bad.append((t, 'an unresolved call'))
                continue
            if c['name'] in BZ_NEUTRAL:
                continue
            full = c.get('full', '')
            if c['path'] in ('std::ops::Index::index', 'std::ops::IndexMut::index_mut'):
                if 'Range' in full and 'RangeFull' not in full and 'RangeFrom' not in full:
                    continue        # v[..n], v[a..n], v[a..=n]: bounded above
                if 'Range' not in full:
                    continue        # v[i]
                bad.append((t, 'an index range without an upper bound (`%s`)' % full.split(' as ')[-1]))
                continue
            if c['path'] in facts.bodies and c['path'] not in BZ_GROWERS:
                # hand-over to a crate function: its parameters become scratch
                idxs = {i + 1 for i, l in enumerate(arg_locals) if l in S}
                old = scratch_params.get(c['path'], set())
                if not idxs <= old:
                    scratch_params[c['path']] = old | idxs
                work.append(c['path'])
                continue
            if c['path'] in BZ_GROWERS:
                continue
            bad.append((t, '`%s`' % (c.get('full') or c['path'])))
        for t, what in bad:
            violations.setdefault(p, []).append((t, what))
    fns = sorted({k[0] for k in seen_fn})
    out.anchor('BZ', 'functions handling the Bezier scratch vectors', len(fns) >= 3, str(fns))
    for p in fns:
        b = facts.bodies[p]
        v = violations.get(p, [])
        ok = not v
        out.add('BZ', p, 'bounded-use', loc_of(v[0][0]['sp']) if v else '%s:%d' % (b.file, b.line), ok,
                '' if ok else ('a grow-only Bezier scratch vector is used as a whole by %s: beyond the current segment it '
                               'still holds the points of an earlier, longer segment, so the curve would depend on what was '
                               'computed with these buffers before') % v[0][1],
                {'uses': [w for _t, w in v]} if v else None, ordinal=False)
    out.add('BZ', BZ_ADT, 'inventory', 'crate', True, '', {'call_sites_examined': checked, 'trivial': True}, ordinal=False)


def _bz_origin(body, local, limit=16):
    """where a reference / copied value comes from: (root local, field path) after following single-definition
    reborrows, moves and neutral calls (deref, as_slice, ..); the root is a parameter, a call result or a local with
    several definitions"""
    cur, fields = local, ()
    for _ in range(limit):
        if cur <= body.argc:
            break
        defs = body.defs.get(cur, [])
        if len(defs) != 1:
            break
        bi, si, kind, s = defs[0]
        if kind == 'call':
            c = callee_of(s)
            if c and c['name'] in BZ_NEUTRAL and s['args'] and op_local(s['args'][0]) is not None:
                cur = op_local(s['args'][0])
                continue
            break
        rv = s['rv']
        pl = rv['pl'] if rv['k'] in ('ref', 'rawptr') else (op_place(rv['op']) if rv['k'] in ('use', 'cast') else None)
        if pl is None or _has_index(pl):
            break
        fields = tuple(e['n'] for e in pl['p'] if e['k'] == 'field') + fields
        cur = pl['l']
    return (cur, fields)


def run_bezier_sized(facts, out):
    """C01/C18: the Bezier scratch vectors are indexed up to the number of control points of the segment at hand
    (`midpoints[..count]`, `l[count - 1]`), so they must have been grown to that many elements first -- otherwise the
    indexing panics, and whether it does depends on what an earlier segment left in the shared buffers.
    Rule (a must-precede rule over the call graph, instances taken from the code): every call of a function that
    takes the scratch vectors apart (borrows the Vec fields of BezierBuffers) is, in its caller, dominated by a call
    of the grower (`extend_exact`) on the same buffers with the length of the very slice of control points that is
    handed on; a caller that merely passes its own buffers and its own slice through inherits the obligation.
    (That the functions below index no further than that count is the bounded-use / index-level part, not this rule.)"""
    a = facts.adts.get(BZ_ADT)
    if a is None:
        return
    fields = {f['name'] for f in a['variants'][0]['fields'] if f['ty']['s'].startswith('std::vec::Vec<')}

    def ty(b, l):
        return b.locals[l]['s']

    def buf_and_slice_params(b):
        bp = [i for i in range(1, b.argc + 1) if ty(b, i).replace('&mut ', '').replace('&', '').strip() == BZ_ADT]
        sp = [i for i in range(1, b.argc + 1) if ty(b, i).startswith('&[') and 'Pos' in ty(b, i) and not ty(b, i).startswith('&mut')]
        return bp, sp
    users = []
    for p, b in facts.bodies.items():
        if p in BZ_GROWERS or any(('<%s as %s' % (BZ_ADT, d)) in p for d in BZ_DERIVES) or 'CurveBuffers as' in p:
            continue
        if _bz_seed_locals(b, fields):
            users.append(p)
    out.anchor('BZ-S', 'functions taking the Bezier scratch vectors apart', len(users) >= 1, str(users))
    out.anchor('BZ-S', 'grower of the Bezier scratch vectors', all(g in facts.bodies for g in BZ_GROWERS), str(sorted(BZ_GROWERS)))
    oblig = {}
    work = []

    def len_source(b, ln):
        vd = value_def(b, ln) if ln is not None else None
        if vd and vd[0] == 'call':
            c3 = callee_of(vd[1])
            if c3 and c3['name'] == 'len' and vd[1]['args']:
                l3 = op_local(vd[1]['args'][0])
                return _bz_origin(b, l3) if l3 is not None else None
        elif vd and vd[0] == 'assign' and vd[1]['rv']['k'] == 'unop' and vd[1]['rv']['op'] == 'PtrMetadata':
            l3 = op_local(vd[1]['rv']['a'])
            return _bz_origin(b, l3) if l3 is not None else None
        return None

    def grown_inside(b, bpi, spi):
        """the function grows its own buffer parameter for its own slice parameter before it takes the vectors apart"""
        seeds_at = set()
        for bi, blk in enumerate(b.blocks):
            if blk.get('cleanup'):
                continue
            for st in blk['st']:
                if st['k'] == 'assign' and not st['pl']['p'] and st['rv']['k'] in ('ref', 'rawptr'):
                    fl = [e for e in st['rv']['pl']['p'] if e['k'] == 'field']
                    if fl and fl[-1]['n'] in fields and fl[-1].get('adt', BZ_ADT) == BZ_ADT:
                        seeds_at.add(bi)
        for bb2, t2 in b.calls():
            c2 = callee_of(t2)
            if not c2 or c2['path'] not in BZ_GROWERS or len(t2['args']) < 2:
                continue
            l0 = op_local(t2['args'][0])
            if l0 is None or _bz_origin(b, l0) != (bpi, ()):
                continue
            if len_source(b, op_local(t2['args'][1])) != (spi, ()):
                continue
            if seeds_at and all(b.dominates(bb2, x) and bb2 != x for x in seeds_at):
                return t2
        return None
    for p in users:
        bp, sp = buf_and_slice_params(facts.bodies[p])
        if len(bp) == 1 and len(sp) == 1:
            g = grown_inside(facts.bodies[p], bp[0], sp[0])
            if g is not None:
                out.add('BZ-S', p, 'sized-before-use:grows-itself', loc_of(g['sp']), True, '', None, ordinal=False)
                continue
            oblig[p] = (bp[0], sp[0])
            work.append(p)
        else:
            b = facts.bodies[p]
            out.add('BZ-S', p, 'sized-before-use', '%s:%d' % (b.file, b.line), False,
                    'cannot tell which slice the Bezier scratch vectors must be sized for: the function has %d buffer and %d '
                    'control-point slice parameters' % (len(bp), len(sp)), None, ordinal=False)
    n_sites = 0
    done = set()
    while work:
        u = work.pop()
        if u in done:
            continue
        done.add(u)
        bi_, si_ = oblig[u]
        sites = 0
        for p, b in facts.bodies.items():
            for bb, t in b.calls():
                if b.is_cleanup(bb):
                    continue
                c = callee_of(t)
                if not c or c['path'] != u:
                    continue
                sites += 1
                n_sites += 1
                lb = op_local(t['args'][bi_ - 1]) if len(t['args']) >= bi_ else None
                ls = op_local(t['args'][si_ - 1]) if len(t['args']) >= si_ else None
                ob = _bz_origin(b, lb) if lb is not None else None
                os_ = _bz_origin(b, ls) if ls is not None else None
                ok = False
                why = ''
                # (A) sized here, on every path to the call
                for bb2, t2 in b.calls():
                    c2 = callee_of(t2)
                    if not c2 or c2['path'] not in BZ_GROWERS or len(t2['args']) < 2:
                        continue
                    if not (b.dominates(bb2, bb) and bb2 != bb):
                        why = 'the scratch vectors are grown only on some of the paths that reach this call'
                        continue
                    l0 = op_local(t2['args'][0])
                    if l0 is None or _bz_origin(b, l0) != ob:
                        continue
                    src = len_source(b, op_local(t2['args'][1]))
                    if src is not None and src == os_:
                        ok = True
                        break
                    why = 'the scratch vectors are grown for something other than the length of the slice handed on'
                # (B) passes its own buffers and slice through: its callers owe the sizing
                if not ok and ob is not None and os_ is not None and ob[1] == () and os_[1] == () and \
                        1 <= ob[0] <= b.argc and 1 <= os_[0] <= b.argc and p in facts.bodies and '{closure' not in p:
                    bp, sp = buf_and_slice_params(b)
                    if ob[0] in bp and os_[0] in sp:
                        prev = oblig.get(p)
                        if prev is None or prev == (ob[0], os_[0]):
                            oblig[p] = (ob[0], os_[0])
                            work.append(p)
                            out.add('BZ-S', p, 'sized-before-use:passes-on', loc_of(t['sp']), True, '',
                                    {'callee': u, 'obligation': 'inherited by the callers'}, ordinal=False)
                            continue
                out.add('BZ-S', p, 'sized-before-use', loc_of(t['sp']), ok,
                        '' if ok else ('`%s` takes the Bezier scratch vectors apart and indexes them up to the number of control '
                                       'points, but no call of the grower with the length of that slice precedes this call on every '
                                       'path%s: the indexing panics unless an earlier, longer segment happened to leave the shared '
                                       'buffers large enough' % (u.split('::')[-1], ' (%s)' % why if why else '')),
                        {'callee': u}, ordinal=False)
        if sites == 0 and u in users:
            b = facts.bodies[u]
            out.add('BZ-S', u, 'sized-before-use:unused', '%s:%d' % (b.file, b.line), True, '', {'trivial': True}, ordinal=False)
    out.add('BZ-S', BZ_ADT, 'inventory', 'crate', True, '', {'call_sites_examined': n_sites, 'trivial': True}, ordinal=False)


def _has_index(pl):
    return any(e['k'] in ('index', 'constindex', 'subslice') for e in pl['p'])


def _other_field(pl, fields):
    """the place projects into something other than (a path ending in) a scratch field"""
    fs = [e['n'] for e in pl['p'] if e['k'] == 'field']
    return bool(fs) and fs[-1] not in fields


def _bz_seed_locals(b, fields):
    """locals assigned `&mut <..>.<scratch field>` where the field belongs to BezierBuffers"""
    S = set()
    for bi, blk in enumerate(b.blocks):
        if blk.get('cleanup'):
            continue
        for st in blk['st']:
            if st['k'] != 'assign' or st['pl']['p']:
                continue
            rv = st['rv']
            if rv['k'] in ('ref', 'rawptr'):
                fl = [e for e in rv['pl']['p'] if e['k'] == 'field']
                if fl and fl[-1]['n'] in fields and fl[-1].get('adt', BZ_ADT) == BZ_ADT and not _has_index(rv['pl']):
                    S.add(st['pl']['l'])
    return S


# ----------------------------------------------------------------------------- CI

def run_cache(facts, out):
    """C18: cache invalidation typestate for the ADT that owns Option<Curve> together with the
    inputs of Curve::new."""
    curve = 'section::hit_objects::slider::curve::Curve'
    owner = None
    cache_field = None
    for p, a in facts.adts.items():
        if a['kind'] != 'Struct':
            continue
        for f in a['variants'][0]['fields']:
            if f['ty']['s'] == 'std::option::Option<%s>' % curve:
                owner, cache_field = p, f['name']
    out.anchor('CI', 'struct owning Option<Curve>', owner is not None, str(owner))
    if owner is not None:
        # the cache is not part of the value: comparing / hashing / ordering the owner must not look at it, or two equal
        # paths differ by whether (and through which API) their curve was computed
        for tr in ('std::cmp::PartialEq', 'std::hash::Hash', 'std::cmp::PartialOrd', 'std::cmp::Ord'):
            for p_, b_ in facts.bodies.items():
                if not p_.startswith('<%s as %s' % (owner, tr)):
                    continue
                reads = []
                for blk in b_.blocks:
                    if blk.get('cleanup'):
                        continue
                    for st in blk['st']:
                        if st['k'] != 'assign':
                            continue
                        rv = st['rv']
                        pls = [rv['pl']] if rv['k'] in ('ref', 'rawptr', 'discr') and 'pl' in rv else []
                        for o in ([rv.get('op')] if rv.get('op') else []) + [rv.get('a'), rv.get('b')] + list(rv.get('ops', [])):
                            if isinstance(o, dict):
                                pl = op_place(o)
                                if pl is not None:
                                    pls.append(pl)
                        for pl in pls:
                            if any(e['k'] == 'field' and e.get('n') == cache_field for e in pl['p']):
                                reads.append(st)
                ok = not reads
                out.add('CI', p_, 'cache-not-compared', loc_of(reads[0]['sp']) if reads else '%s:%d' % (b_.file, b_.line), ok,
                        '' if ok else ('`%s` reads the cached curve `%s`: two paths with the same mode, control points and requested '
                                       'length compare differently depending on whether their curve was computed' % (p_, cache_field)),
                        ordinal=False)
    if owner is None:
        return
    # PV: closed world of this rule -- no field of the cache owner is reachable from outside the
    # crate (effective visibility), so every writer and every literal is inside the crate
    for f in facts.adts[owner]['variants'][0]['fields']:
        okp = not f.get('reachable', f['pub'])
        out.add('CI', owner, 'field-private:' + f['name'], loc_of(facts.adts[owner]['sp']), okp,
                '' if okp else ('field `%s` of `%s` is reachable from outside the crate: the cache/key fields can be '
                                'changed without invalidation') % (f['name'], owner), ordinal=False)
    # key fields: fields of `owner` passed to Curve::new / BorrowedCurve::new in its methods
    key_fields = set()
    ctor_names = ('section::hit_objects::slider::curve::Curve::new',
                  "section::hit_objects::slider::curve::BorrowedCurve::<'bufs>::new")
    fills = []
    for p, b in facts.bodies.items():
        for bb, t in b.calls():
            c = callee_of(t)
            if not c or c['path'] not in ctor_names:
                continue
            args = []
            hops = []
            for a in t['args'][:3]:
                pl = op_place(a)
                src = None
                if pl is not None:
                    src = _trace_field(b, pl, owner, via=hops)
                args.append(src)
            if any(args):
                for s in args:
                    if s:
                        key_fields.add(s)
                fills.append((b, bb, t, args, [h for h in hops if h not in NEUTRAL_HOPS]))
    out.anchor('CI', 'key fields passed to Curve::new', len(key_fields) >= 3, str(sorted(key_fields)))
    # sibling agreement: every constructor call passes (mode, control_points, expected_dist) in order
    exp = None
    for b, bb, t, args, changed in fills:
        if exp is None:
            exp = args
        ok = args == exp and all(args)
        out.add('CI', b.path, 'curve-args', loc_of(t['sp']), ok,
                '' if ok else 'curve constructor is called with %s; the sibling accessors pass %s' % (args, exp),
                {'args': args})
        # the cached curve and the *_with_bufs siblings must be computed from the key fields themselves
        ok2 = not changed
        out.add('CI', b.path, 'curve-args-unmodified', loc_of(t['sp']), ok2,
                '' if ok2 else ('an argument of the curve constructor is a key field passed through `%s`: this accessor '
                                'computes a different curve than its siblings / the cache for the same path') % ', '.join(changed),
                {'hops': changed})
    # every write / &mut of a key field in any function must be dominated by a cache kill
    n = 0
    for p, b in sorted(facts.bodies.items()):
        kills = cache_kill_blocks(facts, b, owner, cache_field)
        fillsb = cache_fill_blocks(b, owner, cache_field)
        for bi, blk in enumerate(b.blocks):
            if blk.get('cleanup'):
                continue
            for si, s in enumerate(blk['st']):
                if s['k'] != 'assign':
                    continue
                # struct literal must initialise the cache to None (or be a field-wise clone)
                rv = s['rv']
                if rv['k'] == 'aggr' and rv.get('adt') == owner:
                    n += 1
                    idx = rv['fields'].index(cache_field)
                    o = rv['ops'][idx]
                    ok = _is_none_operand(b, o) or _is_clone_of_self(b, rv)
                    out.add('CI', b.path, 'literal', loc_of(s['sp']), ok,
                            '' if ok else 'a %s is built with a pre-filled curve cache' % owner)
                    continue
                tgt = None
                if rv['k'] == 'ref' and rv['m'] == 'mut':
                    tgt = _owner_field(b, rv['pl'], owner)
                    what = '&mut borrow'
                    if tgt in key_fields and not s['pl']['p'] and _only_shared_uses(b, s['pl']['l']):
                        tgt = None      # e.g. `let Self { mode, .. } = self;` followed by reads only
                wtgt = _owner_field(b, s['pl'], owner)
                if wtgt in key_fields:
                    tgt, what = wtgt, 'assignment'
                if tgt in key_fields:
                    n += 1
                    ok = dominated_by_kill(b, bi, si, kills, fillsb)
                    out.add('CI', b.path, 'key-writer:' + tgt, loc_of(s['sp']), ok,
                            '' if ok else ('%s of key field `%s` without invalidating the cached curve first: the '
                                           'next curve() would return the stale curve') % (what, tgt))
    out.anchor('CI', 'key-field writers and literals', n >= 3, '%d' % n)
    # every cache fill is the value of Curve::new(self.mode, &self.control_points, self.expected_dist)
    for p, b in sorted(facts.bodies.items()):
        for bb, t in b.calls():
            c = callee_of(t)
            if c and c['path'] in ('std::option::Option::<T>::insert', 'std::option::Option::<T>::get_or_insert_with') and t['args']:
                l0 = op_local(t['args'][0])
                pl0 = resolve_ref(b, l0) if l0 is not None else None
                src = _owner_field(b, pl0, owner) if pl0 is not None else None
                if src == cache_field:
                    if c['path'].endswith('get_or_insert_with'):
                        # the closure must return Curve::new(..) of the path's own key fields
                        cl = op_local(t['args'][1])
                        cty = b.locals[cl].get('closure') if cl is not None else None
                        cb = facts.bodies.get(cty) if cty else None
                        ok = cb is not None and _returns_curve_new(facts, cb, set())
                        if not ok and cb is not None:
                            # `|| calculate(*mode, control_points, *expected_dist)`: the fill closure calls a closure that is
                            # a parameter of this helper -- every caller must hand in a closure returning Curve::new, and the
                            # key fields must be what it is called with
                            ok = _fill_through_closure_param(facts, b, cl, cb, owner)
                        out.add('CI', b.path, 'cache-fill', loc_of(t['sp']), ok,
                                '' if ok else 'cache is filled by a closure that does not return Curve::new of the path\'s own key fields')
                        continue
                    # value operand must come from a call chain ending in Curve::new on self
                    ok = _value_from_self_curve(facts, b, t['args'][1])
                    out.add('CI', b.path, 'cache-fill', loc_of(t['sp']), ok,
                            '' if ok else 'cache is filled with a value that is not Curve::new of the path\'s own key fields')


NEUTRAL_HOPS = {'deref', 'as_slice', 'as_ref', 'borrow', 'clone', 'as_deref', 'copied', 'cloned', 'deref_mut',
                'as_mut_slice', 'as_mut', 'borrow_mut', 'to_owned', 'into', 'from'}


def _trace_field(body, pl, owner, depth=0, via=None):
    """name of the `owner` field this operand place derives from (through temporaries, reborrows,
    deref/as_slice style calls and closure captures); `via` collects the callees passed through"""
    f = _owner_field(body, pl, owner)
    if f:
        return f
    if depth > 12:
        return None
    l = pl['l']
    if 0 < l <= body.argc:
        return None
    defs = body.defs.get(l, [])
    if len(defs) != 1:
        return None
    bi, si, kind, s = defs[0]
    if kind == 'assign':
        rv = s['rv']
        if rv['k'] in ('ref', 'rawptr'):
            return _trace_field(body, rv['pl'], owner, depth + 1, via)
        if rv['k'] in ('use', 'cast'):
            p2 = op_place(rv['op'])
            if p2 is None:
                return None
            return _trace_field(body, p2, owner, depth + 1, via)
        return None
    if s['args']:
        p2 = op_place(s['args'][0])
        if p2 is not None:
            c = callee_of(s)
            # a trivial getter of the owner (`self.mode()`, `self.control_points()`): the field it returns
            fx = getattr(body, 'facts', None)
            if c and fx is not None and len(s['args']) == 1 and dict.__contains__(fx.bodies, c['path']):
                cb = fx.bodies[c['path']]
                if cb.argc == 1 and (cb.locals[1].get('to_adt') == owner or cb.locals[1].get('adt') == owner):
                    hops2 = []
                    g = _trace_field(cb, {'l': 0, 'p': []}, owner, depth + 1, hops2)
                    if g and all(h in NEUTRAL_HOPS for h in hops2):
                        root = _trace_field(body, p2, owner, depth + 1, None)
                        base_is_owner = root is None and _is_owner_value(body, p2, owner)
                        if base_is_owner:
                            return g
            if via is not None:
                via.append(c['name'] if c else '?')
            return _trace_field(body, p2, owner, depth + 1, via)
    return None


def _is_owner_value(body, pl, owner, depth=0):
    """the place is (a reborrow / copy of) the owner value itself, e.g. `&*self`"""
    l = pl['l']
    if any(e['k'] == 'field' for e in pl['p']):
        return False
    ty = body.locals[l]
    if ty.get('to_adt') == owner or ty.get('adt') == owner:
        return True
    if depth > 6 or l <= body.argc:
        return False
    defs = body.defs.get(l, [])
    if len(defs) != 1 or defs[0][2] != 'assign':
        return False
    rv = defs[0][3]['rv']
    if rv['k'] in ('ref', 'rawptr'):
        return _is_owner_value(body, rv['pl'], owner, depth + 1)
    if rv['k'] in ('use', 'cast'):
        p2 = op_place(rv['op'])
        return p2 is not None and _is_owner_value(body, p2, owner, depth + 1)
    return False


def _only_shared_uses(body, l):
    """the reference local `l` is only ever reborrowed shared or read through"""
    for bi, blk in enumerate(body.blocks):
        if blk.get('cleanup'):
            continue
        for s in blk['st']:
            if s['k'] != 'assign':
                continue
            if s['pl']['l'] == l and s['pl']['p']:
                return False            # store through it
            rv = s['rv']
            if rv['k'] in ('ref', 'rawptr') and rv['pl']['l'] == l:
                if rv['k'] == 'rawptr' or rv['m'] == 'mut':
                    return False
            if rv['k'] in ('use', 'cast'):
                pl = op_place(rv['op'])
                if pl is not None and pl['l'] == l and not pl['p']:
                    return False        # the &mut itself is moved/copied somewhere
            if rv['k'] == 'aggr':
                for o in rv['ops']:
                    pl = op_place(o)
                    if pl is not None and pl['l'] == l and not pl['p']:
                        return False
        t = blk['term']
        if t['k'] == 'call':
            for a in t['args']:
                pl = op_place(a)
                if pl is not None and pl['l'] == l and not pl['p']:
                    return False
    return True


def _owner_field(body, pl, owner):
    for e in pl['p']:
        if e['k'] == 'field' and e.get('adt') == owner:
            return e['n']
    # closure capture of a reference to an owner field: look at the construction site
    if pl['l'] == 1 and '{closure' in body.path.rsplit('::', 1)[-1]:
        proj = [e for e in pl['p'] if e['k'] != 'deref']
        if proj and proj[0]['k'] == 'field' and proj[0]['n'].isdigit():
            k = int(proj[0]['n'])
            for pb in body.facts.bodies.values():
                for blk in pb.blocks:
                    for s in blk['st']:
                        if s['k'] == 'assign' and s['rv']['k'] == 'aggr' and s['rv'].get('closure') == body.path:
                            ops = s['rv']['ops']
                            if k < len(ops):
                                l = op_local(ops[k])
                                src = resolve_ref(pb, l) if l is not None else None
                                if src is not None:
                                    for e in src['p']:
                                        if e['k'] == 'field' and e.get('adt') == owner:
                                            return e['n']
    return None


def _trace_ref_field(body, l, owner):
    defs = body.defs.get(l, [])
    if len(defs) == 1 and defs[0][2] == 'assign' and defs[0][3]['rv']['k'] == 'ref':
        return _owner_field(body, defs[0][3]['rv']['pl'], owner)
    return None


def _is_none_operand(body, o):
    pl = op_place(o)
    if pl is None or pl['p']:
        return False
    vd = value_def(body, pl['l'])
    return bool(vd and vd[0] == 'assign' and vd[1]['rv']['k'] == 'aggr' and vd[1]['rv'].get('variant') == 'None')


def _is_none_rvalue(body, rv):
    if rv['k'] == 'aggr':
        return rv.get('variant') == 'None' and rv.get('adt') == 'std::option::Option'
    if rv['k'] == 'use':
        return _is_none_operand(body, rv['op'])
    return False


def _is_clone_of_self(body, rv):
    """derive(Clone): every field i is Clone::clone(&self.i) of the same source"""
    for fname, o in zip(rv['fields'], rv['ops']):
        pl = op_place(o)
        if pl is None or pl['p']:
            return False
        defs = body.defs.get(pl['l'], [])
        if len(defs) != 1 or defs[0][2] != 'call':
            return False
        t = defs[0][3]
        c = callee_of(t)
        if not c or c['name'] != 'clone':
            return False
        l0 = op_local(t['args'][0]) if t['args'] else None
        if l0 is None:
            return False
        src = resolve_ref(body, l0)
        if src is None:
            return False
        fp = field_path(src)
        if not fp or fp[-1] != fname or src['l'] != 1:
            return False
    return True


def cache_kill_blocks(facts, body, owner, cache_field):
    """(bb, idx) points that set the cache to None: direct assignment or call to a fn whose only
    effect is that assignment on all paths (e.g. clear_curve)"""
    pts = []
    for bi, blk in enumerate(body.blocks):
        for si, s in enumerate(blk['st']):
            if s['k'] == 'assign' and _owner_field(body, s['pl'], owner) == cache_field \
                    and s['pl']['p'][-1].get('n') == cache_field:
                rv = s['rv']
                if _is_none_rvalue(body, rv):
                    pts.append((bi, si))
        t = blk['term']
        if t['k'] == 'call':
            c = callee_of(t)
            if _take_of_cache(body, t, owner, cache_field):
                pts.append((bi, 'term'))
            elif c and c['local'] and c['path'] in facts.bodies and c['path'] != body.path:
                cb = facts.bodies[c['path']]
                if _kills_on_all_paths(cb, owner, cache_field):
                    pts.append((bi, 'term'))
    return pts


def _take_of_cache(body, t, owner, cache_field):
    """`self.cache.take()` / `mem::take(&mut self.cache)`: the cache is None afterwards"""
    c = callee_of(t)
    if not c or not t['args']:
        return False
    if c['path'] not in ('std::option::Option::<T>::take', 'std::mem::take', 'core::mem::take'):
        return False
    pl = op_place(t['args'][0])
    return pl is not None and _trace_field(body, pl, owner) == cache_field


def _kills_on_all_paths(cb, owner, cache_field, depth=0):
    # every return is dominated by a block containing a None-assignment to the cache (or a `take()` of it, or a call of
    # a function that itself does so on all paths)
    kills = set()
    for bi, blk in enumerate(cb.blocks):
        for s in blk['st']:
            if s['k'] == 'assign' and _owner_field(cb, s['pl'], owner) == cache_field \
                    and _is_none_rvalue(cb, s['rv']) and s['pl']['l'] == 1:
                kills.add(bi)
        t = blk['term']
        if t['k'] == 'call' and not blk.get('cleanup'):
            if _take_of_cache(cb, t, owner, cache_field):
                kills.add(bi)
            elif depth < 2:
                c = callee_of(t)
                fx = getattr(cb, 'facts', None)
                if c and c.get('local') and fx is not None and dict.__contains__(fx.bodies, c['path']) and c['path'] != cb.path:
                    if _kills_on_all_paths(fx.bodies[c['path']], owner, cache_field, depth + 1):
                        kills.add(bi)
    if not kills:
        return False
    for r in cb.returns():
        if not any(cb.dominates(k, r) for k in kills):
            return False
    return True


def cache_fill_blocks(body, owner, cache_field):
    pts = []
    for bi, blk in enumerate(body.blocks):
        for si, s in enumerate(blk['st']):
            if s['k'] == 'assign' and _owner_field(body, s['pl'], owner) == cache_field:
                rv = s['rv']
                if not _is_none_rvalue(body, rv):
                    pts.append((bi, si))
        t = blk['term']
        if t['k'] == 'call':
            c = callee_of(t)
            if c and c['path'] in ('std::option::Option::<T>::insert', 'std::option::Option::<T>::get_or_insert_with',
                                   'std::option::Option::<T>::get_or_insert', 'std::option::Option::<T>::replace'):
                pts.append((bi, 'term'))
    return pts


def dominated_by_kill(body, bi, si, kills, fills):
    """some kill point dominates (bi, si) and no fill lies on any path between them"""
    def before(p, q):
        # p, q in same block
        a = 10 ** 6 if p[1] == 'term' else p[1]
        b = 10 ** 6 if q[1] == 'term' else q[1]
        return a < b
    for k in kills:
        if k[0] == bi:
            if not before(k, (bi, si)):
                continue
        elif not body.dominates(k[0], bi):
            continue
        # no fill reachable from k that can reach (bi,si)
        bad = False
        for f in fills:
            if f[0] == k[0] and before(k, f) and (f[0] != bi or before(f, (bi, si))):
                if f[0] == bi or _reaches(body, f[0], bi):
                    bad = True
            elif f[0] != k[0] and _reaches(body, k[0], f[0]) and (f[0] == bi and before(f, (bi, si)) or (f[0] != bi and _reaches(body, f[0], bi))):
                bad = True
        if not bad:
            return True
    return False


def _reaches(body, a, b):
    seen = {a}
    st = [a]
    while st:
        x = st.pop()
        for s in body.succ(x):
            if s == b:
                return True
            if s not in seen:
                seen.add(s)
                st.append(s)
    return False


def _value_from_self_curve(facts, body, o):
    """operand traces back (through crate helper calls taking &self) to Curve::new"""
    pl = op_place(o)
    if pl is None or pl['p']:
        return False
    l = pl['l']
    seen = set()
    while l not in seen:
        seen.add(l)
        defs = body.defs.get(l, [])
        if len(defs) != 1:
            return False
        bi, si, kind, s = defs[0]
        if kind == 'assign' and s['rv']['k'] == 'use':
            p2 = op_place(s['rv']['op'])
            if p2 is None or p2['p']:
                return False
            l = p2['l']
            continue
        if kind == 'call':
            c = callee_of(s)
            if not c:
                return False
            if c['path'] == 'section::hit_objects::slider::curve::Curve::new':
                return True
            if c.get('trait') in ('std::ops::FnOnce', 'std::ops::FnMut', 'std::ops::Fn') and s['args']:
                # the value is produced by a closure handed in by the callers: every caller's closure must
                # return Curve::new of the path's own key fields
                return _callers_closures_return_curve(facts, body, s['args'][0])
            cb = facts.bodies.get(c['path'])
            if cb is None:
                return False
            # helper: its return value must itself be Curve::new(...) / another helper on all paths
            return _returns_curve_new(facts, cb, set())
        return False
    return False


def _is_curve_new_path(p):
    return p == 'section::hit_objects::slider::curve::Curve::new'


def _fill_through_closure_param(facts, b, cl, cb, owner):
    from ed import reaching_defs_of_return
    rd = reaching_defs_of_return(cb)
    calls = []
    for r, defs in rd.items():
        for d in defs:
            if d == 'entry' or d[1] != 'term':
                return False
            calls.append(cb.term(d[0]))
    if not calls:
        return False
    # the aggregate that builds the fill closure in b
    vd = value_def(b, cl)
    if not (vd and vd[0] == 'assign' and vd[1]['rv']['k'] == 'aggr' and vd[1]['rv'].get('ak') == 'closure'):
        return False
    ops = vd[1]['rv']['ops']
    for t in calls:
        c = callee_of(t)
        if not c or c.get('trait') not in ('std::ops::FnOnce', 'std::ops::FnMut', 'std::ops::Fn') or not t['args']:
            return False
        # the callee closure value: a capture `_1.k` of the fill closure
        pl = op_place(t['args'][0])
        k = None
        for _ in range(8):
            if pl is None:
                break
            if pl['l'] == 1 and any(e['k'] == 'field' for e in pl['p']):
                k = [e['n'] for e in pl['p'] if e['k'] == 'field'][0]
                break
            if pl['p'] and not all(e['k'] == 'deref' for e in pl['p']):
                break
            defs = cb.defs.get(pl['l'], [])
            if len(defs) != 1 or defs[0][2] != 'assign':
                break
            rv = defs[0][3]['rv']
            pl = op_place(rv['op']) if rv['k'] in ('use', 'cast') else (rv['pl'] if rv['k'] in ('ref', 'rawptr') else None)
        try:
            k = int(k)
        except (TypeError, ValueError):
            return False
        if k >= len(ops) or not _callers_closures_return_curve(facts, b, ops[k]):
            return False
    return True


def _callers_closures_return_curve(facts, body, o):
    pl = op_place(o)
    if pl is None:
        return False
    cur = pl['l']
    for _ in range(8):
        if 1 <= cur <= body.argc:
            break
        defs = body.defs.get(cur, [])
        if len(defs) != 1 or defs[0][2] != 'assign':
            return False
        rv = defs[0][3]['rv']
        if rv['k'] == 'use' and op_place(rv['op']) is not None and not op_place(rv['op'])['p']:
            cur = op_place(rv['op'])['l']
        elif rv['k'] == 'ref' and all(e['k'] == 'deref' for e in rv['pl']['p']):
            cur = rv['pl']['l']
        else:
            return False
    if not (1 <= cur <= body.argc):
        return False
    n = 0
    for p2, b2 in facts.bodies.items():
        for bb, t in b2.calls():
            c = callee_of(t)
            if not c or facts.ref_path(c['path']) != facts.ref_path(body.path):
                continue
            n += 1
            if len(t['args']) < cur:
                return False
            a_op = t['args'][cur - 1]
            if a_op.get('k') == 'const' and isinstance(a_op.get('fn'), dict):
                # a function item handed in instead of a closure (`Self::calculate_curve`)
                fb = facts.bodies.get(a_op['fn'].get('path')) or facts.bodies.get(facts.ref_path(a_op['fn'].get('path', '')))
                if fb is None or not (_returns_curve_new(facts, fb, set()) or _is_curve_new_path(a_op['fn'].get('path', ''))):
                    return False
                continue
            al = op_local(a_op)
            if al is None:
                return False
            cty = b2.locals[al].get('closure')
            if cty is None:
                pl2 = resolve_ref(b2, al)
                cty = b2.locals[pl2['l']].get('closure') if pl2 is not None and not pl2['p'] else None
            cb = facts.bodies.get(cty) if cty else None
            if cb is None or not _returns_curve_new(facts, cb, set()):
                return False
    return n > 0


def _returns_curve_new(facts, cb, seen):
    if cb.path in seen:
        return False
    seen.add(cb.path)
    from ed import reaching_defs_of_return
    rd = reaching_defs_of_return(cb)
    for r, defs in rd.items():
        for d in defs:
            if d == 'entry' or d[1] != 'term':
                return False
            t = cb.term(d[0])
            c = callee_of(t)
            if not c:
                return False
            if c['path'] == 'section::hit_objects::slider::curve::Curve::new':
                continue
            nb = facts.bodies.get(c['path'])
            if nb is None or not _returns_curve_new(facts, nb, seen):
                return False
    return True
