"""Thorough-tier self-test: the rules of a property must fire on anchored mutants of the
current tree (applied to a scratch copy outside /repo and /verif, analysed, deleted)."""
import concurrent.futures
import os
import shutil
import sys

HERE = os.path.dirname(os.path.abspath(__file__))
sys.path.insert(0, os.path.join(os.path.dirname(HERE), 'mutants'))

import driver
from facts import Facts
import props


def apply_edits(src_root, edits):
    """returns None if applied, or a reason string if an anchor is missing"""
    for (rel, old, new) in edits:
        p = os.path.join(src_root, rel)
        if not os.path.exists(p):
            return 'file %s missing' % rel
        s = open(p).read()
        if s.count(old) != 1:
            return 'anchor not unique/present in %s (%d occurrences)' % (rel, s.count(old))
        open(p, 'w').write(s.replace(old, new))
    return None


def run_mutant(mu, repo, pid):
    tmp = driver.copy_tree(repo)
    ftmp = None
    try:
        why = apply_edits(tmp, mu['edits'])
        if why:
            return {'id': mu['id'], 'status': 'skipped', 'why': why}
        try:
            path, ftmp, dt = driver.build_facts(tmp, ())
        except driver.DriverError as e:
            return {'id': mu['id'], 'status': 'skipped', 'why': 'mutant does not compile on the current tree: ' + str(e)[-300:]}
        ctx = props.Ctx(Facts(path), 'mutant')
        spec = props.PROPS[pid]
        fired = []
        for fam, rules in spec['families']:
            o, _ = ctx.run_once(fam, props.FAMILIES[fam])
            for i in o.insts:
                if not i.ok and any(i.rule == r or i.rule.startswith(r + '-') for r in rules):
                    fired.append(i)
            for mrule, what, note in o.missing:
                if any(mrule == r or mrule.startswith(r) for r in rules):
                    fired.append(type('A', (), {'rule': mrule, 'key': 'ANCHOR-MISSING/%s/%s' % (mrule, what),
                                                'loc': '', 'why': note})())
        if 'CF' in mu['rules']:
            import witness
            wr = witness.run(tmp)
            for w, okw in wr['results'].items():
                if not okw and pid in witness.SERVES.get(w, []):
                    fired.append(type('A', (), {'rule': 'CF', 'key': 'CF/witness/' + w, 'loc': 'witness/src/lib.rs',
                                                'why': 'witness %s fails' % w})())
        want = mu['rules']
        hit = [i for i in fired if any(i.rule == w or i.rule.startswith(w) for w in want)]
        if hit:
            return {'id': mu['id'], 'status': 'caught', 'by': hit[0].key, 'loc': hit[0].loc,
                    'msg': hit[0].why[:200]}
        if fired:
            return {'id': mu['id'], 'status': 'caught-by-other-rule', 'by': fired[0].key, 'loc': fired[0].loc,
                    'msg': fired[0].why[:200]}
        return {'id': mu['id'], 'status': 'missed', 'expected_rules': want}
    finally:
        shutil.rmtree(tmp, ignore_errors=True)
        if ftmp:
            shutil.rmtree(ftmp, ignore_errors=True)


def _fired_on_tree(tmp, pids):
    """per property: rule instances that fail on the tree in tmp (default configuration)"""
    path, ftmp, dt = driver.build_facts(tmp, ())
    try:
        ctx = props.Ctx(Facts(path), 'variant')
        res = {}
        for pid in pids:
            spec = props.PROPS[pid]
            fired = []
            for fam, rules in spec['families']:
                o, _ = ctx.run_once(fam, props.FAMILIES[fam])
                for i in o.insts:
                    if not i.ok and any(i.rule == r or i.rule.startswith(r + '-') or i.rule.startswith(r) for r in rules):
                        fired.append(i.key)
                for mrule, what, note in o.missing:
                    if any(mrule == r or mrule.startswith(r) for r in rules):
                        fired.append('ANCHOR-MISSING/%s/%s' % (mrule, what))
            res[pid] = fired
        return res
    finally:
        shutil.rmtree(ftmp, ignore_errors=True)


_PATCH_CACHE = {}       # patch path -> {pid: result}; filled for all properties at once under `check all`
ALL_PIDS = None         # set by `check all --tier thorough`


def run_patch(patch, repo, pid):
    import subprocess
    if patch in _PATCH_CACHE and pid in _PATCH_CACHE[patch]:
        return _PATCH_CACHE[patch][pid]
    pids = ALL_PIDS or [pid]
    tmp = driver.copy_tree(repo)
    try:
        r = subprocess.run('patch -p1 -s < %s' % patch, shell=True, cwd=tmp, capture_output=True, text=True)
        if r.returncode != 0:
            out = {q: {'status': 'skipped', 'why': 'patch does not apply to the current tree'} for q in pids}
        else:
            try:
                fired = _fired_on_tree(tmp, pids)
                out = {q: {'status': 'fired' if fired[q] else 'silent', 'keys': fired[q][:3]} for q in pids}
            except driver.DriverError as e:
                out = {q: {'status': 'skipped', 'why': 'variant does not compile on the current tree'} for q in pids}
        _PATCH_CACHE.setdefault(patch, {}).update(out)
        return out[pid]
    finally:
        shutil.rmtree(tmp, ignore_errors=True)


def _anchor_files(pid):
    import json
    try:
        for line in open(os.path.join(os.path.dirname(HERE), 'properties.jsonl')):
            p = json.loads(line)
            if p.get('id') == pid:
                return list(p.get('anchors', {}).get('files', []))
    except OSError:
        pass
    return []


def run_corpus(pid, repo, quiet=False):
    """thorough tier: the stored seeded changes of this property must be reported by its rules, the
    stored behaviour-preserving refactors must not be (results are evidence about the checker,
    never a verdict on /repo)"""
    base = os.path.join(os.path.dirname(HERE), 'seeded')
    seeded = sorted(d for d in os.listdir(base) if d.startswith(pid + '-') and
                    os.path.exists(os.path.join(base, d, 'patch.diff')))
    refs = sorted(f for f in os.listdir(os.path.join(base, 'refactors')) if f.endswith('.diff'))
    n_all_refs = len(refs)
    if not ALL_PIDS:
        # a single property replays the refactors that touch the files it is anchored in (the `all` run replays every one
        # once for all properties)
        files = _anchor_files(pid)
        if files:
            def touches(f):
                txt = open(os.path.join(base, 'refactors', f), errors='replace').read()
                return any(('+++ b/' + af) in txt for af in files)
            refs = [f for f in refs if touches(f)]
    jobs = [('seeded', d, os.path.join(base, d, 'patch.diff')) for d in seeded] + \
           [('refactor', f[:-5], os.path.join(base, 'refactors', f)) for f in refs]
    res = {}
    with concurrent.futures.ThreadPoolExecutor(max_workers=12) as ex:
        for (kind, name, _p), r in zip(jobs, ex.map(lambda j: run_patch(j[2], repo, pid), jobs)):
            res[(kind, name)] = r
    sd = {n: r for (k, n), r in res.items() if k == 'seeded'}
    rf = {n: r for (k, n), r in res.items() if k == 'refactor'}
    out = {
        'seeded_changes': {'total': len(sd), 'reported': sorted(n for n, r in sd.items() if r['status'] == 'fired'),
                           'not_reported': sorted(n for n, r in sd.items() if r['status'] == 'silent'),
                           'skipped': sorted(n for n, r in sd.items() if r['status'] == 'skipped')},
        'neutral_refactors': {'total': len(rf), 'in_corpus': n_all_refs, 'silent': sum(1 for r in rf.values() if r['status'] == 'silent'),
                              'alarmed': {n: r.get('keys') for n, r in rf.items() if r['status'] == 'fired'},
                              'skipped': sorted(n for n, r in rf.items() if r['status'] == 'skipped')},
    }
    if not quiet:
        print('CORPUS %s seeded: %d reported, not reported %s, skipped %d; refactors: %d silent, alarmed %s, skipped %d' % (
            pid, len(out['seeded_changes']['reported']), out['seeded_changes']['not_reported'],
            len(out['seeded_changes']['skipped']), out['neutral_refactors']['silent'],
            sorted(out['neutral_refactors']['alarmed']), len(out['neutral_refactors']['skipped'])))
    return {'corpus': out}


def run(pid, repo, violations, quiet=False, only=None):
    import mutants
    ms = mutants.by_prop(pid)
    if only:
        ms = [x for x in ms if x['id'] in only]
    results = []
    with concurrent.futures.ThreadPoolExecutor(max_workers=min(8, max(1, len(ms)))) as ex:
        for r in ex.map(lambda mu: run_mutant(mu, repo, pid), ms):
            results.append(r)
    caught = [r for r in results if r['status'].startswith('caught')]
    missed = [r for r in results if r['status'] == 'missed']
    skipped = [r for r in results if r['status'] == 'skipped']
    if not quiet:
        for r in results:
            print('SELFTEST %s %s %s' % (pid, r['id'], r['status']) + (' by ' + r.get('by', '') if 'by' in r else '')
                  + (' (' + r.get('why', '') + ')' if r['status'] == 'skipped' else ''))
    return {'selftest': {'mutants': len(ms), 'caught': len(caught), 'missed': [r['id'] for r in missed],
                         'skipped': [(r['id'], r['why'][:120]) for r in skipped], 'results': results}}


if __name__ == '__main__':
    pid = sys.argv[1]
    only = sys.argv[2:] or None
    r = run(pid, '/repo', [], only=only)
    print(r['selftest']['caught'], 'caught;', 'missed', r['selftest']['missed'])
