"""A small pattern language over the typed HIR trees (used by the SC / SS / NF rules).

Patterns are python objects; `match(facts, pattern, expr)` is structural, sees through `&`, `*`,
`?`, single-expression blocks and DropTemps, and resolves named constants to their values."""
import hirutil as H


class Pat:
    # structural patterns also match a local whose single `let` initialiser has the required form
    # (a sub-expression extracted into a `let` is the same value)
    via_let = False

    def m(self, ctx, e):
        if self.m0(ctx, e):
            return True
        if not self.via_let:
            return False
        depth = getattr(ctx, 'via_depth', 0)
        if depth >= 7:
            return False
        e2 = strip(e)
        if not isinstance(e2, dict):
            return False
        alts = []
        if e2.get('k') == 'local':
            inits = unique_inits(ctx, e2['name'])
            if len(inits) == 1:
                alts.append((inits[0], ctx))
        elif e2.get('k') in ('call', 'mcall'):
            ih = inline_call(ctx, e2)
            if ih is not None:
                alts.append(ih)
                t0 = strip(ih[0])
                if isinstance(t0, dict) and t0.get('k') == 'call' and t0['f'].get('k') == 'path' and \
                        t0['f'].get('name') in ('Ok', 'Some') and len(t0['args']) == 1:
                    # `helper(..)?` where the helper ends in `Ok(value)`: the value
                    alts.append((t0['args'][0], ih[1]))
        if e2.get('k') == 'mcall' and e2.get('name') == 'map' and len(e2.get('args', [])) == 1 and \
                (e2.get('ty') or '').startswith(('std::result::Result<', 'std::option::Option<')):
            # `r.map(|n| f(n))?` is `f(r?)`: the mapped value with the closure applied to the unwrapped one
            cl = strip(e2['args'][0])
            if isinstance(cl, dict) and cl.get('k') == 'closure' and len(cl.get('params', [])) == 1 and \
                    cl['params'][0].get('k') == 'bind':
                tr = {'k': 'match', 'src': 'TryDesugar(synthetic)', 'arms': [], 'ln': e2.get('ln'),
                      'scrut': {'k': 'call', 'f': {'k': 'path', 'def': 'std::ops::Try::branch', 'name': 'branch'},
                                'args': [e2['recv']]}}
                alts.append((H.subst(cl['body'], {cl['params'][0]['name']: tr}), ctx))
        if e2.get('k') == 'match' and not H.is_try(e2) and len(e2.get('arms', [])) == 2:
            # `match r { Ok(n) => Ok(f(n)), Err(e) => Err(e) }` is `r.map(f)`, so under `?` it is `f(r?)`
            ok_arm = None
            for a_ in e2['arms']:
                p_ = a_.get('pat', {})
                if p_.get('k') == 'ptstruct' and p_['path'].get('name') in ('Ok', 'Some') and len(p_.get('pats', [])) == 1 and \
                        p_['pats'][0].get('k') == 'bind' and not a_.get('guard'):
                    b_ = strip(a_['body'])
                    if isinstance(b_, dict) and b_.get('k') == 'call' and b_['f'].get('k') == 'path' and \
                            b_['f'].get('name') == p_['path']['name'] and len(b_['args']) == 1:
                        ok_arm = (p_['pats'][0]['name'], b_['args'][0])
            other_ok = False
            for a_ in e2['arms']:
                p_ = a_.get('pat', {})
                b_ = strip(a_['body'])
                if p_.get('k') == 'ptstruct' and p_['path'].get('name') == 'Err' and len(p_.get('pats', [])) == 1 and \
                        p_['pats'][0].get('k') == 'bind' and isinstance(b_, dict) and b_.get('k') == 'call' and \
                        b_['f'].get('k') == 'path' and b_['f'].get('name') == 'Err' and len(b_['args']) == 1 and \
                        strip(b_['args'][0]).get('k') == 'local' and strip(b_['args'][0])['name'] == p_['pats'][0]['name']:
                    other_ok = True
                if 'None' in repr(p_)[:300] and isinstance(b_, dict) and b_.get('k') == 'path' and b_.get('name') == 'None':
                    other_ok = True
            if ok_arm is not None and other_ok:
                tr = {'k': 'match', 'src': 'TryDesugar(synthetic)', 'arms': [], 'ln': e2.get('ln'),
                      'scrut': {'k': 'call', 'f': {'k': 'path', 'def': 'std::ops::Try::branch', 'name': 'branch'},
                                'args': [e2['scrut']]}}
                alts.append((H.subst(ok_arm[1], {ok_arm[0]: tr}), ctx))
        if e2.get('k') == 'field':
            # `v.f` where v is (bound to / returned as) a struct literal: the initialiser of f
            pf = project_field(ctx, e2)
            if pf is not None:
                alts.append(pf)
        if e2.get('k') in ('call', 'mcall') and not alts:
            # a method of a crate-local trait (generic receiver): the pattern must hold in every implementation
            d_ = e2.get('def') if e2.get('k') == 'mcall' else (e2['f'].get('def') if e2['f'].get('k') == 'path' else None)
            impls = trait_impls(ctx.facts, d_)
            if impls:
                every = True
                for h_ in impls:
                    ih = inline_call(ctx, e2, impl=h_)
                    if ih is None:
                        every = False
                        break
                    ih[1].via_depth = depth + 1
                    if not self.m(ih[1], ih[0]):
                        every = False
                        break
                if every:
                    return True
        for a_e, a_ctx in alts:
            a_ctx.via_depth = depth + 1
            try:
                if self.m(a_ctx, a_e):
                    return True
            finally:
                a_ctx.via_depth = depth
        return False

    def m0(self, ctx, e):
        raise NotImplementedError

    def __repr__(self):
        return self.__class__.__name__


def unique_inits(ctx, name):
    """initialisers of the bindings called `name`, identical ones (same `let` in sibling arms) merged"""
    res, seen = [], set()
    for i in ctx.inits.get(name, []):
        c = canon(strip(i))
        if c not in seen:
            seen.add(c)
            res.append(i)
    return res


def project_field(ctx, e, depth=0):
    base = strip(e['e'])
    c = ctx
    for _ in range(6):
        if not isinstance(base, dict):
            return None
        if base.get('k') == 'struct':
            for f in base.get('fields', []):
                if f['n'] == e['n']:
                    return (f['e'], c)
            return None
        if base.get('k') == 'tup' and str(e['n']).isdigit() and int(e['n']) < len(base['es']):
            return (base['es'][int(e['n'])], c)
        if base.get('k') == 'block' and 'expr' in base:
            # `{ lets..; tail }` produced by inlining: the tail, with the block's lets visible
            c2 = Ctx(c.facts, None, None)
            inits = dict(c.inits)
            for k, v in H.binding_inits({'body': base}).items():
                inits[k] = v
            c2.inits, c2.names, c2.env, c2.params = inits, c.names, c.env, c.params
            c = c2
            base = strip(base['expr'])
            continue
        if base.get('k') == 'local':
            inits = unique_inits(c, base['name'])
            if len(inits) != 1:
                return None
            base = strip(inits[0])
            continue
        if base.get('k') == 'call' and base['f'].get('k') == 'path' and base['f'].get('name') in ('Ok', 'Some') \
                and len(base['args']) == 1:
            # the payload of a result that was unwrapped with `?` on the way here
            base = strip(base['args'][0])
            continue
        if base.get('k') in ('call', 'mcall'):
            ih = inline_call(c, base)
            if ih is None:
                return None
            base, c = strip(ih[0]), ih[1]
            continue
        return None
    return None


def trait_impls(facts, d):
    """the implementations (typed HIR) of the crate-local trait method `Trait::method`"""
    if not d or '::' not in d or dict.__contains__(facts.hir, d):
        return []
    idx = getattr(facts, '_trait_impl_index', None)
    if idx is None:
        idx = {}
        for p_, h in facts.hir.items():
            if p_.startswith('<') and ' as ' in p_ and '>::' in p_:
                tr_ = p_[p_.index(' as ') + 4:p_.rindex('>::')]
                idx.setdefault(tr_ + '::' + p_[p_.rindex('>::') + 3:], []).append(h)
        facts._trait_impl_index = idx
    return idx.get(d, [])


def inline_call(ctx, e, impl=None):
    """a call of a crate-local function whose body ends in a tail expression: (that expression with
    the parameters replaced by the arguments, context in which the helper's own lets are visible)"""
    if e.get('k') == 'call' and e['f'].get('k') == 'path':
        d = e['f'].get('def')
        cargs = list(e['args'])
    elif e.get('k') == 'mcall':
        d = e.get('def')
        cargs = [e['recv']] + list(e['args'])
    else:
        return None
    if impl is not None:
        d = impl['path']
    h2 = ctx.facts.hir.get(d) if d else None
    if h2 is None or d not in ctx.facts.hir:
        return None
    body = h2['body']
    tail = body.get('expr') if body.get('k') == 'block' else body
    if tail is None:
        return None
    mapping = H.param_mapping(h2, cargs)
    c2 = Ctx(ctx.facts, None, None)
    inits = {}
    for k, v in H.binding_inits(h2).items():
        inits[k] = [H.subst(i, mapping) for i in v]
    for k, v in ctx.inits.items():
        inits.setdefault(k, v)
    c2.inits = inits
    c2.names = (ctx.names or set()) | all_names(h2) if ctx.names is not None else None
    c2.env = ctx.env
    c2.params = ctx.params
    return (H.subst(tail, mapping), c2)


def strip(e, keep_try=False):
    """see through wrappers that do not change the value"""
    while isinstance(e, dict):
        k = e.get('k')
        if k == 'addr':
            e = e['e']
        elif k == 'unary' and e.get('op') == 'Deref':
            e = e['e']
        elif k == 'block' and not e.get('stmts') and 'expr' in e:
            e = e['expr']
        elif not keep_try and H.is_try(e):
            e = H.try_inner(e)
        else:
            break
    return e


def all_names(hfn):
    """every local name bound in a function (parameters, lets, match/closure patterns)"""
    names = set()
    if hfn is None:
        return names
    for p in hfn.get('params', []):
        names.update(H.pat_bindings(p))

    def visit(n, anc):
        k = n.get('k')
        if k in ('slet', 'let'):
            names.update(H.pat_bindings(n['pat']))
        elif k == 'match':
            for a in n['arms']:
                names.update(H.pat_bindings(a['pat']))
        elif k == 'closure':
            for p in n.get('params', []):
                names.update(H.pat_bindings(p))
    H.walk(hfn['body'], visit)
    return names


STD_CONSTS = {
    'core::f64::<impl f64>::EPSILON': 2.220446049250313e-16, 'std::f64::EPSILON': 2.220446049250313e-16,
    'core::f32::<impl f32>::EPSILON': 1.1920928955078125e-07, 'std::f32::EPSILON': 1.1920928955078125e-07,
    'core::num::<impl i32>::MAX': 2147483647, 'core::num::<impl i32>::MIN': -2147483648,
    'std::i32::MAX': 2147483647, 'core::num::<impl u8>::MAX': 255,
}


class Ctx:
    def __init__(self, facts, inits=None, hfn=None):
        self.facts = facts
        self.inits = inits or {}
        # names bound in the function; a pattern variable whose name does not occur at all (the local
        # was renamed) unifies with any local, consistently within one match attempt
        self.names = all_names(hfn) if hfn is not None else None
        self.env = {}
        self.params = set()
        if hfn is not None:
            for p_ in hfn.get('params', []):
                self.params.update(H.pat_bindings(p_))

    def const_value(self, e):
        """numeric value of a literal, a named const path, a negated literal or a simple cast of one"""
        e = strip(e)
        if not isinstance(e, dict):
            return None
        k = e.get('k')
        if k == 'lit':
            return e.get('v')
        if k == 'unary' and e.get('op') == 'Neg':
            v = self.const_value(e['e'])
            return -v if isinstance(v, (int, float)) else None
        if k == 'path' and e.get('dk', '').startswith(('Const', 'AssocConst')):
            c = self.facts.consts.get(e.get('def'))
            if c is not None and 'v' in c:
                return c['v']
            if e.get('def') in STD_CONSTS:
                return STD_CONSTS[e['def']]
        if k == 'cast':
            return self.const_value(e['e'])
        if k == 'call' and e['f'].get('k') == 'path' and e['f'].get('name') == 'from' and len(e['args']) == 1:
            return self.const_value(e['args'][0])
        if k == 'binary':
            a, b = self.const_value(e['a']), self.const_value(e['b'])
            if isinstance(a, (int, float)) and isinstance(b, (int, float)):
                op = e['op']
                try:
                    if op == 'Div':
                        return a / b
                    if op == 'Mul':
                        return a * b
                    if op == 'Add':
                        return a + b
                    if op == 'Sub':
                        return a - b
                    if op == 'Shl':
                        return int(a) << int(b)
                    if op == 'BitOr':
                        return int(a) | int(b)
                except Exception:
                    return None
        return None


ANY_FIELD = object()      # F(base, ANY_FIELD): any field name


class ANY(Pat):
    def m0(self, ctx, e):
        return True


class K(Pat):
    via_let = True
    """constant with the given value (literal or named const)"""

    def __init__(self, v):
        self.v = v

    def m0(self, ctx, e):
        v = ctx.const_value(e)
        if v is None or isinstance(v, bool) != isinstance(self.v, bool):
            return v == self.v and v is not None
        if isinstance(v, (int, float)) and isinstance(self.v, (int, float)):
            return abs(float(v) - float(self.v)) <= 1e-12 * max(1.0, abs(float(self.v)))
        return v == self.v

    def __repr__(self):
        return 'K(%r)' % (self.v,)


class L(Pat):
    """local variable by name (optionally followed through one `let`)"""

    def __init__(self, name):
        self.name = name

    def m0(self, ctx, e):
        e = strip(e)
        if isinstance(e, dict) and e.get('k') == 'field' and ctx.names is not None and self.name not in ctx.names \
                and _rooted_at_local(e) and (self.name.endswith(str(e.get('n'))) or str(e.get('n')).endswith(self.name)):
            # the variable became a field of a small value struct (`span.reversed`): unify like a renamed local
            key = ('F', canon(e))
            bound = ctx.env.get(self.name)
            if bound is None:
                ctx.env[self.name] = key
                return True
            return bound == key
        if isinstance(e, dict) and e.get('k') == 'field' and getattr(ctx, 'l_depth', 0) < 3:
            # `line.time` with `let line = Line { time, .. }`: the value is the local `time`
            pf = project_field(ctx, e)
            if pf is not None:
                pf[1].l_depth = getattr(ctx, 'l_depth', 0) + 1
                try:
                    if self.m0(pf[1], pf[0]):
                        return True
                finally:
                    pf[1].l_depth = getattr(ctx, 'l_depth', 0)
        if not (isinstance(e, dict) and e.get('k') == 'local'):
            # the `let` was inlined: the expression is the local's (single) initialiser
            inits = unique_inits(ctx, self.name)
            if len(inits) == 1 and isinstance(e, dict) and e.get('k') in ('call', 'mcall', 'binary', 'cast') \
                    and canon(strip(inits[0])) == canon(e):
                return True
            return False
        if ctx.names is None or self.name in ctx.names or any(n_.rstrip("'") == self.name for n_ in ctx.names if isinstance(n_, str)):
            # (a callee local renamed by capture-avoiding inlining, `time'`, is still "time")
            return (e.get('name') or '').rstrip("'") == self.name
        bound = ctx.env.get(self.name)
        if bound is None:
            ctx.env[self.name] = e.get('name')
            return True
        return bound == e.get('name')

    def __repr__(self):
        return 'L(%s)' % self.name


def _rooted_at_local(e):
    while isinstance(e, dict) and e.get('k') == 'field':
        e = strip(e['e'])
    return isinstance(e, dict) and e.get('k') == 'local'


class PARAM_TY(Pat):
    """a parameter of the analysed function with the given type (name-free), possibly carried through
    lets / helper-struct fields"""
    via_let = True

    def __init__(self, ty):
        self.ty = ty

    def m0(self, ctx, e):
        e = strip(e)
        return isinstance(e, dict) and e.get('k') == 'local' and e.get('name') in ctx.params and e.get('ty') == self.ty

    def __repr__(self):
        return 'PARAM_TY(%s)' % self.ty


class F(Pat):
    via_let = True
    """field access chain ending in `.name` (on anything matching base)"""

    def __init__(self, base, name):
        self.base, self.name = base, name

    def m0(self, ctx, e):
        e = strip(e)
        return isinstance(e, dict) and e.get('k') == 'field' and (self.name is ANY_FIELD or e.get('n') == self.name) \
            and self.base.m(ctx, e['e'])

    def __repr__(self):
        return 'F(%r,%s)' % (self.base, self.name)


class M(Pat):
    via_let = True
    """method call by name"""

    def __init__(self, name, recv=None, *args, defsuffix=None):
        self.name, self.recv, self.args, self.defsuffix = name, recv or ANY(), args, defsuffix

    def m0(self, ctx, e):
        e = strip(e)
        if isinstance(e, dict) and e.get('k') == 'mcall' and e.get('name') != self.name and e.get('def'):
            # renamed private method: compare with the reference name
            rp = ctx.facts.ref_path(e['def'])
            if rp != e['def'] and rp.rsplit('::', 1)[-1] == self.name:
                e = dict(e)
                e['name'] = self.name
        if not (isinstance(e, dict) and e.get('k') == 'mcall' and e.get('name') == self.name):
            # UFCS form: Type::name(recv, args)
            if isinstance(e, dict) and e.get('k') == 'call' and e['f'].get('k') == 'path' and e['f'].get('name') == self.name \
                    and len(e['args']) == len(self.args) + 1:
                if self.defsuffix and not (e.get('full', '') + e['f'].get('def', '')).count(self.defsuffix):
                    return False
                return self.recv.m(ctx, e['args'][0]) and all(p.m(ctx, a) for p, a in zip(self.args, e['args'][1:]))
            return False
        if self.defsuffix and self.defsuffix not in (e.get('def', '') + ' ' + e.get('full', '')):
            return False
        if len(e['args']) != len(self.args):
            return False
        return self.recv.m(ctx, e['recv']) and all(p.m(ctx, a) for p, a in zip(self.args, e['args']))

    def __repr__(self):
        return 'M(%s,%r,%r)' % (self.name, self.recv, self.args)


class C(Pat):
    via_let = True
    """call of a path whose resolved definition / full name contains `name`"""

    def __init__(self, name, *args):
        self.name, self.args = name, args

    def m0(self, ctx, e):
        e = strip(e)
        if not (isinstance(e, dict) and e.get('k') == 'call' and e['f'].get('k') == 'path'):
            return False
        full = e.get('full', '') + ' ' + e['f'].get('def', '') + ' ' + ctx.facts.ref_path(e['f'].get('def', '') or '')
        if self.name not in full:
            return False
        if len(e['args']) != len(self.args):
            return False
        return all(p.m(ctx, a) for p, a in zip(self.args, e['args']))

    def __repr__(self):
        return 'C(%s,%r)' % (self.name, self.args)


class BIN(Pat):
    via_let = True
    def __init__(self, op, a, b, commutative=False):
        self.op, self.a, self.b, self.comm = op, a, b, commutative

    def m0(self, ctx, e):
        e = strip(e)
        if not (isinstance(e, dict) and e.get('k') == 'binary' and e.get('op') == self.op):
            return False
        if self.a.m(ctx, e['a']) and self.b.m(ctx, e['b']):
            return True
        return self.comm and self.a.m(ctx, e['b']) and self.b.m(ctx, e['a'])

    def __repr__(self):
        return 'BIN(%s,%r,%r)' % (self.op, self.a, self.b)


class UN(Pat):
    via_let = True
    def __init__(self, op, a):
        self.op, self.a = op, a

    def m0(self, ctx, e):
        e = strip(e)
        return isinstance(e, dict) and e.get('k') == 'unary' and e.get('op') == self.op and self.a.m(ctx, e['e'])


class CAST(Pat):
    via_let = True
    def __init__(self, a, ty):
        self.a, self.ty = a, ty

    def m0(self, ctx, e):
        e = strip(e)
        return isinstance(e, dict) and e.get('k') == 'cast' and e.get('ty') == self.ty and self.a.m(ctx, e['e'])

    def __repr__(self):
        return 'CAST(%r,%s)' % (self.a, self.ty)


class CLAMP(Pat):
    """`x.clamp(lo, hi)` or the equivalent `x.max(lo).min(hi)` / `x.min(hi).max(lo)`"""

    def __init__(self, x, lo, hi):
        self.x, self.lo, self.hi = x, lo, hi

    def m0(self, ctx, e):
        return (M('clamp', self.x, self.lo, self.hi).m(ctx, e) or
                M('min', M('max', self.x, self.lo), self.hi).m(ctx, e) or
                M('max', M('min', self.x, self.hi), self.lo).m(ctx, e) or
                self._as_decisions(ctx, e))

    def _as_decisions(self, ctx, e):
        """the comparison form: `if x < lo { lo } else if x > hi { hi } else { x }` (either test first), written in
        place or as the `Ok(..)`-valued tail of a fallible helper used with `?` (then x is what the helper parsed)"""
        import symeval as SE
        e0 = strip(e, keep_try=True)
        unwrap_ok = False
        c = ctx
        if H.is_try(e0):
            inner = strip(H.try_inner(e0))
            if not (isinstance(inner, dict) and inner.get('k') in ('call', 'mcall')):
                return False
            ih = inline_call(ctx, inner)
            if ih is None:
                return False
            e0, c = strip(ih[0]), ih[1]
            unwrap_ok = True
            if isinstance(e0, dict) and e0.get('k') == 'call' and e0['f'].get('k') == 'path' and e0['f'].get('name') == 'Ok' \
                    and len(e0['args']) == 1:
                # `Ok(bounded)` with `let bounded = if .. { lo } else if .. { hi } else { n };`
                e0, unwrap_ok = strip(e0['args'][0]), False
        for _ in range(3):
            if isinstance(e0, dict) and e0.get('k') == 'local':
                its = unique_inits(c, e0['name'])
                if len(its) == 1 and strip(its[0]) is not e0:
                    e0 = strip(its[0])
                    continue
            break
        if not (isinstance(e0, dict) and e0.get('k') in ('if', 'match')):
            return False
        try:
            tree = SE.SymEval(None, budget=2000).value(e0, {})
        except SE.Stop:
            return False

        def region(cond):
            if cond[0] != 'e':
                return None
            ce = strip(cond[1])
            for op, a, b, reg in (('Lt', self.x, self.lo, 'below'), ('Gt', self.lo, self.x, 'below'),
                                  ('Le', self.x, self.lo, 'below'), ('Ge', self.lo, self.x, 'below'),
                                  ('Gt', self.x, self.hi, 'above'), ('Lt', self.hi, self.x, 'above'),
                                  ('Ge', self.x, self.hi, 'above'), ('Le', self.hi, self.x, 'above')):
                if BIN(op, a, b).m(c, ce):
                    return reg
            return None
        for val, want in (({'below': True, 'above': False}, self.lo), ({'below': False, 'above': True}, self.hi),
                          ({'below': False, 'above': False}, self.x)):
            leaf = SE.evaluate(tree, lambda cond: val.get(region(cond)))
            if leaf is None:
                return False
            leaf = strip(leaf)
            if unwrap_ok:
                if not (isinstance(leaf, dict) and leaf.get('k') == 'call' and leaf['f'].get('k') == 'path' and
                        leaf['f'].get('name') == 'Ok' and len(leaf['args']) == 1):
                    return False
                leaf = leaf['args'][0]
            if not want.m(c, leaf):
                return False
        return True

    def __repr__(self):
        return 'CLAMP(%r,%r,%r)' % (self.x, self.lo, self.hi)


class OPT_OR(Pat):
    """the value of an Option with a default: `opt.map_or(default, f)`, `opt.map(f).unwrap_or(default)`,
    `match opt { Some(p) => f(p), None => default }`, `if let Some(p) = opt { f(p) } else { default }` -- as the decision
    they all are: (is `opt` Some?) -> some-value : default"""
    via_let = True

    def __init__(self, opt, default, some=None):
        self.opt, self.default, self.some = opt, default, some or ANY()

    def m0(self, ctx, e):
        import symeval as SE
        e0 = strip(e)
        if not (isinstance(e0, dict) and e0.get('k') in ('mcall', 'match', 'if')):
            return False
        if e0.get('k') == 'mcall' and e0.get('name') == 'unwrap_or' and len(e0.get('args', [])) == 1:
            r = strip(e0['recv'])
            if isinstance(r, dict) and r.get('k') == 'mcall' and r.get('name') == 'map' and len(r.get('args', [])) == 1:
                return self.opt.m(ctx, r['recv']) and self.default.m(ctx, e0['args'][0]) and \
                    (isinstance(self.some, ANY) or self.some.m(ctx, r['args'][0]))
        try:
            tree = SE.SymEval(None, budget=2000).value(e0, {})
        except SE.Stop:
            return False
        if tree[0] != 'ite' or tree[1][0] != 'pat':
            return False
        pat, scrut = tree[1][1], tree[1][2]
        rp = repr(pat)
        if not self.opt.m(ctx, scrut):
            return False
        if "'Some'" in rp:
            some_t, none_t = tree[2], tree[3]
        elif "'None'" in rp:
            some_t, none_t = tree[3], tree[2]
        else:
            return False
        if none_t[0] != 'v' or not self.default.m(ctx, none_t[1]):
            return False
        return isinstance(self.some, ANY) or (some_t[0] == 'v' and self.some.m(ctx, some_t[1]))

    def __repr__(self):
        return 'OPT_OR(%r,%r)' % (self.opt, self.default)


class CALLARG(Pat):
    """any call or method call whose callee name contains `name` and one of whose arguments
    (or receiver) matches p"""

    def __init__(self, name, p):
        self.name, self.p = name, p

    def m0(self, ctx, e):
        e = strip(e)
        if not isinstance(e, dict):
            return False
        if e.get('k') == 'mcall' and self.name in e.get('name', ''):
            return any(self.p.m(ctx, a) for a in [e['recv']] + e['args'])
        if e.get('k') == 'call' and e['f'].get('k') == 'path' and (
                self.name in (e['f'].get('name') or '') or self.name in ctx.facts.ref_path(e['f'].get('def') or '')):
            return any(self.p.m(ctx, a) for a in e['args'])
        return False


class TRY(Pat):
    """`p?`"""
    via_let = True

    def __init__(self, a):
        self.a = a

    def m0(self, ctx, e):
        e = strip(e, keep_try=True)
        return H.is_try(e) and self.a.m(ctx, H.try_inner(e))

    def __repr__(self):
        return 'TRY(%r)' % (self.a,)


class P(Pat):
    """path whose definition ends with the given suffix (constant, constructor, fn item)"""

    def __init__(self, suffix):
        self.suffix = suffix

    def m0(self, ctx, e):
        e = strip(e)
        return isinstance(e, dict) and e.get('k') == 'path' and e.get('def', '').endswith(self.suffix)

    def __repr__(self):
        return 'P(%s)' % self.suffix


class VIA(Pat):
    """a local whose (single) `let` initialiser matches p, or p directly"""

    def __init__(self, p):
        self.p = p

    def m0(self, ctx, e):
        if self.p.m(ctx, e):
            return True
        e2 = strip(e)
        if isinstance(e2, dict) and e2.get('k') == 'local':
            for init in ctx.inits.get(e2['name'], []):
                if self.p.m(ctx, init):
                    return True
        return False

    def __repr__(self):
        return 'VIA(%r)' % (self.p,)


class OR(Pat):
    def __init__(self, *ps):
        self.ps = ps

    def m0(self, ctx, e):
        return any(p.m(ctx, e) for p in self.ps)


class IF(Pat):
    via_let = True

    def __init__(self, c, t, e=None):
        self.c, self.t, self.e = c, t, e

    def m0(self, ctx, x):
        x = strip(x)
        if not (isinstance(x, dict) and x.get('k') == 'if'):
            return False
        if not self.c.m(ctx, x['c']) or not self.t.m(ctx, x['t']):
            return False
        if self.e is not None:
            return 'e' in x and self.e.m(ctx, x['e'])
        return True


class RET(Pat):
    """`return p`"""

    def __init__(self, p=None):
        self.p = p

    def m0(self, ctx, e):
        if not (isinstance(e, dict) and e.get('k') == 'ret'):
            return False
        if self.p is None:
            return True
        return 'e' in e and self.p.m(ctx, e['e'])

    def __repr__(self):
        return 'RET(%r)' % (self.p,)


class INDEX(Pat):
    via_let = True

    def __init__(self, base, idx):
        self.base, self.idx = base, idx

    def m0(self, ctx, e):
        e = strip(e)
        return isinstance(e, dict) and e.get('k') == 'index' and self.base.m(ctx, e['e']) and self.idx.m(ctx, e['i'])

    def __repr__(self):
        return 'INDEX(%r,%r)' % (self.base, self.idx)


class BREAK(Pat):
    def m0(self, ctx, e):
        return isinstance(e, dict) and e.get('k') == 'break'


class ASSIGNOP(Pat):
    def __init__(self, op, l, r):
        self.op, self.l, self.r = op, l, r

    def m0(self, ctx, e):
        return isinstance(e, dict) and e.get('k') == 'assignop' and e.get('op') == self.op and \
            self.l.m(ctx, e['l']) and self.r.m(ctx, e['r'])

    def __repr__(self):
        return 'ASSIGNOP(%s,%r,%r)' % (self.op, self.l, self.r)


class CONTAINS(Pat):
    """some sub-expression matches p"""

    def __init__(self, p):
        self.p = p

    def m0(self, ctx, e):
        found = []

        def visit(n, anc):
            if not found and self.p.m(ctx, n):
                found.append(n)
        H.walk(e, visit)
        return bool(found)


def _wants_locals(pat):
    if isinstance(pat, L):
        return True
    if isinstance(pat, OR):
        return any(_wants_locals(p) for p in pat.ps)
    return False


def find(ctx, root, pat):
    out = []

    def visit(n, anc):
        ctx.env = {}
        if n.get('k') == 'local' and not _wants_locals(pat):
            return          # a use of a let-bound value is not a second occurrence of the expression
        if pat.m(ctx, n):
            out.append((n, anc))
    H.walk(root, visit)
    return out


def assignments(hfn, base, chain):
    """right-hand sides of `base.chain... = rhs` (chain is a list of field names)"""
    out = []

    def visit(n, anc):
        if n.get('k') == 'assign':
            fc = H.field_chain(n['l'])
            if fc and fc[0] == base and fc[1] == list(chain):
                out.append((n['r'], n.get('ln'), anc))
    H.walk(hfn['body'], visit)
    return out


def struct_field_inits(hfn, adt, field, where=None):
    """initialisers of `field` in struct literals of type adt (where=(field2, path suffix): only literals
    whose field2 is that path)"""
    out = []

    def visit(n, anc):
        if n.get('k') == 'struct' and n.get('adt') == adt:
            if where is not None:
                sel = [f for f in n['fields'] if f['n'] == where[0]]
                v = strip(sel[0]['e']) if sel else None
                if not (isinstance(v, dict) and v.get('k') == 'path' and v.get('def', '').endswith(where[1])):
                    return
            for f in n['fields']:
                if f['n'] == field:
                    out.append((f['e'], f['ln'], anc))
    H.walk(hfn['body'], visit)
    return out


def canon(e):
    """structure of an expression without line numbers/types (for sibling comparison)"""
    if isinstance(e, dict):
        return tuple(sorted((k, canon(v)) for k, v in e.items() if k not in ('ln', 'ty', 'ty_adj', 'exp', 'full', 'inl')))
    if isinstance(e, list):
        return tuple(canon(x) for x in e)
    return e


def resolve_value(ctx, e, depth=0):
    """the expression a value ultimately comes from: single-`let` locals and fields of struct literals followed"""
    e = strip(e)
    if depth > 8 or not isinstance(e, dict):
        return e
    if e.get('k') == 'local':
        inits = unique_inits(ctx, e['name'])
        if len(inits) == 1 and strip(inits[0]) is not e:
            return resolve_value(ctx, inits[0], depth + 1)
        return e
    if e.get('k') == 'field':
        pf = project_field(ctx, e)
        if pf is not None:
            return resolve_value(pf[1], pf[0], depth + 1)
    return e


def slice_cursor_break_flag(ctx, hfn, flag):
    """The slice-cursor spelling of "a break ended before this object":
        let mut rest = <all breaks>;                       // the cursor: the breaks not yet passed
        for h in objects { let n = rest.iter().take_while(|b| b.end_time < h.start_time).count();
                           rest = &rest[n..];  ..  flag = n > 0 }
    `flag` is the expression or-ed into new_combo.  Checked: n counts the leading breaks that ended before the object's
    start (nothing else in the predicate), the cursor starts at all breaks, and its only reassignment drops exactly
    those n.  Returns (True, '') / (False, why) / None when `flag` is not of this form."""
    f = strip(flag)
    if not (isinstance(f, dict) and f.get('k') == 'binary'):
        return None
    n_expr = None
    for op, k_, swap in (('Gt', 0, False), ('Ne', 0, False), ('Ge', 1, False), ('Lt', 0, True), ('Ne', 0, True), ('Le', 1, True)):
        x, y = (f['b'], f['a']) if swap else (f['a'], f['b'])
        if f.get('op') == op and K(k_).m(ctx, y):
            n_expr = strip(x)
            break
    if not (isinstance(n_expr, dict) and n_expr.get('k') == 'local'):
        return None
    n_name = n_expr['name']
    inits = unique_inits(ctx, n_name)
    if len(inits) != 1:
        return None
    cnt = strip(inits[0])
    if not (isinstance(cnt, dict) and cnt.get('k') == 'mcall' and cnt.get('name') == 'count'):
        return None
    tw = strip(cnt['recv'])
    if not (isinstance(tw, dict) and tw.get('k') == 'mcall' and tw.get('name') == 'take_while' and len(tw.get('args', [])) == 1):
        return None
    src = strip(tw['recv'])
    while isinstance(src, dict) and src.get('k') == 'mcall' and src.get('name') in ('iter', 'into_iter', 'copied', 'cloned'):
        src = strip(src['recv'])
    if not (isinstance(src, dict) and src.get('k') == 'local'):
        return False, 'the passed breaks are not counted on a cursor over the breaks'
    cur = src['name']
    cl = strip(tw['args'][0])
    if not (isinstance(cl, dict) and cl.get('k') == 'closure' and len(cl.get('params', [])) == 1):
        return False, 'the test for a passed break cannot be read'
    bname = (pat_names(cl['params'][0]) or [None])[0]
    body = strip(cl['body'])
    START = OR(F(ANY(), 'start_time'), L('start_time'))
    ctx.env = {}
    okp = isinstance(body, dict) and body.get('k') == 'binary' and (
        (body.get('op') == 'Lt' and F(L(bname), 'end_time').m(ctx, body['a']) and START.m(ctx, body['b'])) or
        (body.get('op') == 'Gt' and F(L(bname), 'end_time').m(ctx, body['b']) and START.m(ctx, body['a'])))
    if not okp:
        return False, 'a passed break is not exactly one with `end_time < start_time` of the object'
    # the cursor: starts at all breaks; reassigned only to `&cursor[n..]`
    cinits = ctx.inits.get(cur, [])
    if len(cinits) != 1:
        return False, 'the break cursor `%s` has %d initialisers' % (cur, len(cinits))
    ci = strip(cinits[0])
    while isinstance(ci, dict) and ci.get('k') == 'mcall' and ci.get('name') in ('as_slice', 'as_ref', 'deref', 'iter'):
        ci = strip(ci['recv'])
    if isinstance(ci, dict) and ci.get('k') == 'index':
        rng = strip(ci.get('i'))
        if not (isinstance(rng, dict) and rng.get('k') == 'struct' and rng.get('adt') == 'std::ops::RangeFull'):
            return False, 'the break cursor does not start at the first break'
        ci = strip(ci['e'])
    if not (isinstance(ci, dict) and ci.get('k') == 'field' and ci.get('n') == 'breaks'):
        return False, 'the break cursor does not start as the whole list of breaks'
    assigns = []

    def v(n, anc):
        if n.get('k') in ('assign', 'assignop') and strip(n['l']).get('k') == 'local' and strip(n['l'])['name'] == cur:
            assigns.append(n)
    H.walk(hfn['body'], v)
    if len(assigns) != 1 or assigns[0]['k'] != 'assign':
        return False, 'the break cursor is advanced %d times per object' % len(assigns)
    r = strip(assigns[0]['r'])
    okr = False
    if isinstance(r, dict) and r.get('k') == 'index' and strip(r['e']).get('k') == 'local' and strip(r['e'])['name'] == cur:
        rng = strip(r.get('i'))
        if isinstance(rng, dict) and rng.get('k') == 'struct' and rng.get('adt') == 'std::ops::RangeFrom':
            st = strip(rng['fields'][0]['e'])
            okr = isinstance(st, dict) and st.get('k') == 'local' and st.get('name') == n_name
    elif isinstance(r, dict) and r.get('k') == 'mcall' and r.get('name') == 'split_at' and False:
        pass
    if not okr:
        return False, 'the break cursor does not advance by exactly the breaks that were passed (`&rest[n..]`)'
    return True, ''


def pat_names(p):
    return H.pat_bindings(p)
