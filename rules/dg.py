"""DG: delegation graph and conversion tables (C07, C05, C08).

D1 every section has exactly one primary parser in the crate, or none
D2 type-driven completeness of the delegations
D3 delegations are transparent
D4 decode / should_skip_line are overridden by no impl
D5 DecodeState::create builds each sub-state with that sub-state's own create(version)
D6 conversion tables copy every field by name from the matching sub-value
D7 purity: no statics / thread-locals, no ambient-state std calls on the decode path
"""
from facts import callee_of, op_place, op_local, place_key
from common import loc_of
import hirutil as H

SECTIONS = ['general', 'editor', 'metadata', 'difficulty', 'events', 'timing_points', 'colors',
            'hit_objects', 'variables', 'catch_the_beat', 'mania']
TRAIT = 'decode::DecodeBeatmap'
STATE_TRAIT = 'decode::DecodeState'

# legitimate name mismatch in the conversions, one line of reason each
D6_NAME_EXCEPTIONS = {
    # Beatmap.format_version is the version the state was created with; BeatmapState calls it `version`
    ('beatmap::Beatmap', 'format_version'): 'version',
}

IMPURE_PREFIXES = ('std::env::', 'std::time::', 'std::thread::', 'std::process::', 'std::sync::atomic',
                   'std::net::', 'std::os::', 'std::random', 'std::hash::RandomState', 'std::fs::')
IMPURE_ALLOWED = {
    # from_path is the one entry point that opens a file; the bytes read are the input
    ('decode::from_path', 'std::fs::File::open'),
}


class Decoder:
    def __init__(self, impl):
        self.impl = impl
        self.ty = impl['self'].get('adt') or impl['self']['s']
        self.state = None
        self.error = None
        self.methods = {}
        for it in impl['items']:
            if it['name'] == 'State' and 'ty' in it:
                self.state = it['ty'].get('adt') or it['ty']['s']
            elif it['name'] == 'Error' and 'ty' in it:
                self.error = it['ty'].get('adt') or it['ty']['s']
            else:
                self.methods[it['name']] = it['path']


def decoders(facts):
    out = []
    for impl in facts.impls_of_trait(TRAIT):
        if impl.get('trait') != TRAIT:
            continue
        out.append(Decoder(impl))
    return out


def classify(body, facts=None):
    """('noop'|'delegation'|'primary', info)"""
    calls = [(bb, t) for bb, t in body.calls() if not body.is_cleanup(bb)]
    uses_params = False
    for blk in body.blocks:
        if blk.get('cleanup'):
            continue
        for s in blk['st']:
            if s['k'] == 'assign':
                txt = repr(s['rv'])
                if "'l': 1," in txt or "'l': 2," in txt:
                    uses_params = True
    if not calls and not uses_params:
        # must be `_0 = Ok(())`
        ok = False
        for blk in body.blocks:
            for s in blk['st']:
                if s['k'] == 'assign' and s['pl']['l'] == 0 and s['rv']['k'] == 'aggr' \
                        and s['rv'].get('variant') == 'Ok':
                    ok = True
        return ('noop', {}) if ok else ('primary', {'why': 'no calls but does not return Ok(())'})
    # delegation shape: exactly one `parse_*` call of the trait; every other call only plumbs that call's
    # Result into the return value (`.map_err(E::Variant)`, or `?` with the error's `From` impl)
    pcalls = []
    plumbing = []
    other = []
    for bb, t in calls:
        c = callee_of(t)
        if c and c.get('trait') == TRAIT and c['name'].startswith('parse_'):
            pcalls.append((bb, t, c))
        elif c and (c['path'] in RESULT_PLUMBING or (c['name'] in ('from', 'into') and c['path'].startswith('std::convert::'))):
            plumbing.append((bb, t, c))
        else:
            other.append((bb, t, c))
    if not pcalls and len(other) == 1 and not plumbing and facts is not None:
        # delegation through a crate-local combinator: `delegate(T::parse_x, &mut state.f, line)` where the
        # combinator only calls its function argument on its two other arguments and plumbs the result
        b1, t1, c1 = other[0]
        comb = combinator_shape(facts, c1)
        if comb is not None and len(t1['args']) == 3:
            fi, si, li = comb
            fl = op_local(t1['args'][fi])
            fnc = None
            for bi2, si2, kind2, st2 in body.defs.get(fl, []) if fl is not None else []:
                if kind2 == 'assign' and st2['rv']['k'] == 'cast' and 'ReifyFnPointer' in st2['rv'].get('ck', ''):
                    o = st2['rv']['op']
                    if o['k'] == 'const' and 'fn' in o:
                        fnc = o['fn']
            if fnc and fnc.get('trait') == TRAIT and fnc['name'].startswith('parse_'):
                t_syn = {'args': [t1['args'][si], t1['args'][li]], 'dest': t1['dest'], 'sp': t1['sp']}
                info = {'call_bb': b1, 'callee_name': fnc['name'], 'callee_full': fnc['full'], 't': t_syn,
                        'plumbing': [], 'via_combinator': c1['path']}
                return ('delegation', info)
    if len(pcalls) == 1 and not other:
        b1, t1, c1 = pcalls[0]
        info = {'call_bb': b1, 'callee_name': c1['name'], 'callee_full': c1['full'], 't': t1,
                'plumbing': [(t, c) for _b, t, c in plumbing]}
        return ('delegation', info)
    return ('primary', {})


def combinator_shape(facts, c):
    """c is a crate-local fn(f, state, line): its body is exactly one indirect call of its function
    parameter on its two other parameters plus result plumbing, and it returns that result.
    Returns the argument positions (fn, state, line) or None."""
    if not c or not c.get('local') or c['path'] not in facts.bodies:
        return None
    b = facts.bodies[c['path']]
    if b.argc != 3:
        return None
    calls = [(bb, t) for bb, t in b.calls() if not b.is_cleanup(bb)]
    indirect = [(bb, t) for bb, t in calls if callee_of(t) is None]
    rest = [(bb, t) for bb, t in calls if callee_of(t) is not None]
    if len(indirect) != 1:
        return None
    for _bb, t in rest:
        cc = callee_of(t)
        if not (cc['path'] in RESULT_PLUMBING or (cc['name'] in ('from', 'into') and cc['path'].startswith('std::convert::'))):
            return None

    def param_of(l, depth=0):
        if l is None or depth > 6:
            return None
        if 1 <= l <= b.argc:
            return l
        ds = b.defs.get(l, [])
        if len(ds) != 1 or ds[0][2] != 'assign':
            return None
        rv = ds[0][3]['rv']
        if rv['k'] in ('use', 'cast'):
            pl = op_place(rv['op'])
            return param_of(pl['l'], depth + 1) if pl is not None and all(e['k'] == 'deref' for e in pl['p']) else None
        if rv['k'] == 'ref':
            pl = rv['pl']
            return param_of(pl['l'], depth + 1) if all(e['k'] == 'deref' for e in pl['p']) else None
        return None
    _bb, t = indirect[0]
    fpl = op_place(t['func']) if isinstance(t.get('func'), dict) else None
    fpar = param_of(fpl['l']) if fpl is not None else None
    if fpar is None or len(t['args']) != 2:
        return None
    a0, a1 = param_of(op_local(t['args'][0])), param_of(op_local(t['args'][1]))
    if a0 is None or a1 is None or len({fpar, a0, a1}) != 3:
        return None
    # no store through the state reference inside the combinator
    for blk in b.blocks:
        if blk.get('cleanup'):
            continue
        for st in blk['st']:
            if st['k'] == 'assign' and any(e['k'] == 'deref' for e in st['pl']['p']):
                return None
    # the result is what is returned
    res_l = t['dest']['l']
    for bi, si, kind, st in b.defs.get(0, []):
        if kind == 'assign':
            rv = st['rv']
            if rv['k'] == 'aggr' and rv.get('variant') == 'Ok':
                continue
            pl = op_place(rv['op']) if rv['k'] in ('use', 'cast') else None
            if pl is None or not _flows_from(b, pl['l'], res_l):
                return None
        else:
            c0 = callee_of(st)
            if not (c0 and c0['path'] in RESULT_PLUMBING and st['args'] and _flows_from(b, op_local(st['args'][0]), res_l)):
                return None
    return (fpar - 1, a0 - 1, a1 - 1)


RESULT_PLUMBING = {'std::result::Result::<T, E>::map_err', 'std::ops::Try::branch', 'std::ops::FromResidual::from_residual'}


def _flows_from(body, l, src, depth=0, seen=None):
    """local l is (a move/copy/downcast-field of) local src or of a plumbing result derived from it"""
    seen = seen if seen is not None else set()
    if l == src:
        return True
    if l is None or l in seen or depth > 10:
        return False
    seen.add(l)
    for bi, si, kind, st in body.defs.get(l, []):
        if kind == 'assign':
            rv = st['rv']
            if rv['k'] in ('use', 'cast'):
                pl = op_place(rv['op'])
                if pl is not None and _flows_from(body, pl['l'], src, depth + 1, seen):
                    return True
            elif rv['k'] == 'aggr':
                for o in rv['ops']:
                    if _flows_from(body, op_local(o), src, depth + 1, seen):
                        return True
        else:
            c = callee_of(st)
            if c and (c['path'] in RESULT_PLUMBING or c['name'] in ('from', 'into')) and st['args']:
                if _flows_from(body, op_local(st['args'][0]), src, depth + 1, seen):
                    return True
    return False


def _trace_ref(body, local):
    """follow `_a = &mut (*_b)` / moves back to a place; returns the place json"""
    seen = set()
    cur = local
    while cur not in seen:
        seen.add(cur)
        defs = body.defs.get(cur, [])
        if len(defs) != 1:
            return None
        bi, si, kind, s = defs[0]
        if kind != 'assign':
            return None
        rv = s['rv']
        if rv['k'] == 'ref':
            pl = rv['pl']
            # reborrow of a plain local deref: continue
            if len(pl['p']) == 1 and pl['p'][0]['k'] == 'deref' and pl['l'] not in (1, 2):
                cur = pl['l']
                continue
            return pl
        if rv['k'] == 'use':
            pl = op_place(rv['op'])
            if pl is not None and not pl['p']:
                if pl['l'] in (1, 2):
                    return pl
                cur = pl['l']
                continue
        return None
    return None


def check_delegation(body, info, out, decs_by_ty, sec):
    """D3: transparent shape; returns (field_path, target_decoder_type) or None"""
    t = info['t']
    fn = body.path
    ok = True
    why = []
    if len(t['args']) != 2:
        ok = False
        why.append('delegate call does not take (state, line)')
        out.add('DG-D3', fn, 'delegation', loc_of(t['sp']), False, '; '.join(why))
        return None
    a0, a1 = t['args']
    l0, l1 = op_local(a0), op_local(a1)
    p0 = _trace_ref(body, l0) if l0 is not None else None
    p1 = _trace_ref(body, l1) if l1 is not None else None
    fields = None
    if p0 is None or p0['l'] != 1 or not p0['p'] or p0['p'][0]['k'] != 'deref' \
            or any(e['k'] not in ('deref', 'field') for e in p0['p']):
        ok = False
        why.append('first argument is not `&mut state.<field path>`')
    else:
        fields = tuple(e['n'] for e in p0['p'] if e['k'] == 'field')
        if not fields:
            ok = False
            why.append('delegation passes the whole state to itself')
    if p1 is None or p1['l'] != 2 or any(e['k'] != 'deref' for e in p1['p']):
        ok = False
        why.append('the line is not forwarded unmodified (second argument is not the `line` parameter)')
    if info['callee_name'] != 'parse_' + sec:
        ok = False
        why.append('delegates to `%s` instead of `parse_%s`' % (info['callee_name'], sec))
    # the plumbing consumes the delegate's result and nothing else; what is returned is that result
    # (error mapped) or Ok(()) on its success edge
    res_l = t['dest']['l']
    for pt, pc in info['plumbing']:
        l0p = op_local(pt['args'][0]) if pt['args'] else None
        if not _flows_from(body, l0p, res_l):
            ok = False
            why.append('`%s` is not applied to the delegate result' % pc['name'])
        if pc['name'] == 'map_err' and len(pt['args']) > 1:
            a = pt['args'][1]
            cl = op_local(a)
            if cl is not None:
                # a closure: it must not capture anything (it could touch the state on the error path)
                caps = None
                for bi, si, kind, st in body.defs.get(cl, []):
                    if kind == 'assign' and st['rv']['k'] == 'aggr' and st['rv'].get('closure'):
                        caps = st['rv']['ops']
                if caps is None or caps:
                    ok = False
                    why.append('the error of the delegate is mapped by a closure that captures state: the wrapper can '
                               'act on the state although the delegated parser reported an error')
    for bi, si, kind, st in body.defs.get(0, []):
        if kind == 'assign':
            rv = st['rv']
            if rv['k'] == 'aggr' and rv.get('variant') == 'Ok':
                continue
            if rv['k'] == 'aggr' and rv.get('variant') == 'Err' and rv['ops'] and \
                    all(_flows_from(body, op_local(o), res_l) for o in rv['ops'] if op_local(o) is not None) and \
                    any(op_local(o) is not None for o in rv['ops']):
                continue        # `Err(err) => Err(E::Variant(err))` of an explicit match on the delegate result
            pl = op_place(rv['op']) if rv['k'] in ('use', 'cast') else None
            if pl is None or not _flows_from(body, pl['l'], res_l):
                ok = False
                why.append('the return value is not the delegate result')
        else:
            if info.get('via_combinator') and st.get('dest', {}).get('l') == res_l and res_l == 0:
                continue        # the combinator's result is returned as it is
            c0 = callee_of(st)
            if not (c0 and c0['path'] in RESULT_PLUMBING and _flows_from(body, op_local(st['args'][0]) if st['args'] else None, res_l)):
                ok = False
                why.append('the return value is not derived from the delegate result')
    # the Ok(()) return must sit on the success edge of the delegate result, i.e. after a `branch`
    if info.get('via_combinator') and res_l != 0:
        # result stored first: must flow into _0
        pass
    has_ok_literal = any(kind == 'assign' and st['rv']['k'] == 'aggr' and st['rv'].get('variant') == 'Ok'
                         for bi, si, kind, st in body.defs.get(0, []))
    tested = any(pc['name'] == 'branch' for _pt, pc in info['plumbing'])
    for blk in body.blocks:
        tt = blk['term']
        if tt['k'] == 'switch' and not blk.get('cleanup'):
            dl = op_local(tt['discr'])
            for bi, si, kind, st in body.defs.get(dl, []) if dl is not None else []:
                if kind == 'assign' and st['rv']['k'] == 'discr' and st['rv']['pl']['l'] == res_l:
                    tested = True
    if has_ok_literal and not tested:
        ok = False
        why.append('returns Ok(()) without testing the delegate result')
    # no other writes through the state
    for blk in body.blocks:
        if blk.get('cleanup'):
            continue
        for s in blk['st']:
            if s['k'] == 'assign' and any(e['k'] == 'deref' for e in s['pl']['p']):
                ok = False
                why.append('extra write through a reference at %s' % loc_of(s['sp']))
    out.add('DG-D3', fn, 'delegation', loc_of(t['sp']), ok, '; '.join(why),
            {'delegate': info['callee_full'], 'field_path': list(fields or [])})
    if not ok:
        return None
    # target decoder type from `<T as DecodeBeatmap>::parse_x`
    full = info['callee_full']
    tgt = full[1:full.index(' as ')] if full.startswith('<') and ' as ' in full else None
    return fields, tgt


def state_paths(facts, src_adt, dst_adt, limit=6):
    """all field paths from ADT src to ADT dst through struct fields (by field type)"""
    res = []

    def rec(adt, path, seen):
        if len(path) > limit:
            return
        a = facts.adts.get(adt)
        if not a or a['kind'] != 'Struct':
            return
        for f in a['variants'][0]['fields']:
            fa = f['ty'].get('adt')
            if not fa or fa in seen:
                continue
            if fa == dst_adt:
                res.append(path + (f['name'],))
            if fa in facts.adts:
                rec(fa, path + (f['name'],), seen | {fa})

    rec(src_adt, (), {src_adt})
    return res


def run(facts, out):
    decs = decoders(facts)
    out.anchor('DG', 'impls of DecodeBeatmap', len(decs) >= 9, '%d impls' % len(decs))
    by_ty = {d.ty: d for d in decs}
    # ---- D4
    tr = [t for t in facts.items['traits'] if t['path'] == TRAIT]
    out.anchor('DG', 'trait DecodeBeatmap', bool(tr))
    provided = {i['name'] for i in tr[0]['items'] if i['provided']} if tr else set()
    out.anchor('DG', 'provided methods decode/should_skip_line', {'decode', 'should_skip_line'} <= provided,
               str(sorted(provided)))
    for d in decs:
        for m in sorted(provided):
            ov = m in d.methods
            out.add('DG-D4', d.ty, 'override:' + m, loc_of(d.impl['sp']), not ov,
                    'impl overrides the provided driver method `%s`' % m if ov else '', ordinal=False)
    # ---- classification
    cls = {}
    for d in decs:
        for sec in SECTIONS:
            mp = d.methods.get('parse_' + sec)
            body = facts.body(mp) if mp else None
            if body is None:
                out.add('DG-D1', d.ty, 'method:parse_' + sec, loc_of(d.impl['sp']), False,
                        'section method missing', ordinal=False)
                continue
            cls[(d.ty, sec)] = (classify(body, facts), body)
    n_prim = sum(1 for (c, _b) in cls.values() if c[0] == 'primary')
    n_del = sum(1 for (c, _b) in cls.values() if c[0] == 'delegation')
    n_noop = sum(1 for (c, _b) in cls.values() if c[0] == 'noop')
    out.anchor('DG', 'section methods classified', len(cls) >= 99,
               '%d methods: %d primary, %d delegation, %d no-op' % (len(cls), n_prim, n_del, n_noop))
    # ---- D1
    primaries = {}
    for sec in SECTIONS:
        ps = [ty for (ty, s), (c, _b) in cls.items() if s == sec and c[0] == 'primary']
        if len(ps) > 1:
            for ty in ps:
                b = cls[(ty, sec)][1]
                out.add('DG-D1', b.path, 'primary', '%s:%d' % (b.file, b.line), False,
                        'section `%s` has %d primary parsers (%s); specialised decoders must share one'
                        % (sec, len(ps), ', '.join(sorted(ps))), ordinal=False)
        elif len(ps) == 1:
            b = cls[(ps[0], sec)][1]
            primaries[sec] = ps[0]
            out.add('DG-D1', b.path, 'primary', '%s:%d' % (b.file, b.line), True, ordinal=False)
    out.anchor('DG', 'primary parsers', len(primaries) >= 8, str(sorted(primaries.items())))
    # ---- D2 / D3
    resolved = {}    # (ty, sec) -> (field path from ty.state to primary state) | None(no-op)

    def resolve(ty, sec, depth=0):
        """field path from ty's state to the primary parser's state that parse_sec reaches"""
        key = (ty, sec)
        if key in resolved:
            return resolved[key]
        if key not in cls or depth > 8:
            resolved[key] = ('bad', None)
            return resolved[key]
        (kind, info), body = cls[key]
        if kind == 'noop':
            resolved[key] = ('noop', None)
        elif kind == 'primary':
            resolved[key] = ('primary', ())
        else:
            r = check_delegation(body, info, out, by_ty, sec)
            if r is None:
                resolved[key] = ('bad', None)
            else:
                fields, tgt = r
                d = by_ty.get(ty)
                # the sub-state type at `fields` must be the delegate's State type
                sub = d.state
                okp = True
                for fnm in fields:
                    a = facts.adts.get(sub)
                    nxt = None
                    if a:
                        for f in a['variants'][0]['fields']:
                            if f['name'] == fnm:
                                nxt = f['ty'].get('adt')
                    if nxt is None:
                        okp = False
                        break
                    sub = nxt
                td = by_ty.get(tgt)
                if not okp or td is None or td.state != sub:
                    out.add('DG-D2', body.path, 'delegate-state', '%s:%d' % (body.file, body.line), False,
                            'delegate `%s` does not operate on the state type of field `%s`'
                            % (tgt, '.'.join(fields)), ordinal=False)
                    resolved[key] = ('bad', None)
                else:
                    k2, p2 = resolve(tgt, sec, depth + 1)
                    if k2 == 'primary':
                        resolved[key] = ('delegation', tuple(fields))
                    elif k2 == 'delegation':
                        resolved[key] = ('delegation', tuple(fields) + p2)
                    else:
                        out.add('DG-D2', body.path, 'delegate-chain', '%s:%d' % (body.file, body.line), False,
                                'delegation chain for `%s` ends in a %s method of `%s`' % (sec, k2, tgt),
                                ordinal=False)
                        resolved[key] = ('bad', None)
        return resolved[key]

    for d in decs:
        for sec in SECTIONS:
            kind, path = resolve(d.ty, sec)
            body = cls.get((d.ty, sec), (None, None))[1]
            if body is None:
                continue
            where = '%s:%d' % (body.file, body.line)
            prim = primaries.get(sec)
            if prim is None:
                # section parsed by nobody: everybody must ignore it
                ok = kind == 'noop'
                out.add('DG-D2', body.path, 'expected:noop', where, ok,
                        '' if ok else 'section `%s` has no primary parser but this method is a %s' % (sec, kind),
                        {'trivial': True}, ordinal=False)
                continue
            pstate = by_ty[prim].state
            if d.ty == prim:
                out.add('DG-D2', body.path, 'expected:primary', where, kind == 'primary', ordinal=False)
                continue
            paths = [()] if d.state == pstate else state_paths(facts, d.state, pstate)
            if not paths:
                ok = kind == 'noop'
                out.add('DG-D2', body.path, 'expected:noop', where, ok,
                        '' if ok else '`%s` does not contain the `%s` state but parse_%s is a %s'
                        % (d.state, sec, sec, kind), {'trivial': True}, ordinal=False)
            else:
                ok = kind == 'delegation' and path in [tuple(p) for p in paths]
                why = ''
                if not ok:
                    if kind == 'noop':
                        why = ('`%s` contains the state of section `%s` at `%s` but parse_%s ignores the line '
                               '(the full decoder and this decoder would disagree)'
                               % (d.state, sec, '.'.join(paths[0]), sec))
                    elif kind == 'primary':
                        why = ('parse_%s re-implements the section instead of delegating to `%s::parse_%s`'
                               % (sec, prim, sec))
                    elif kind == 'delegation':
                        why = 'delegation reaches `%s` but the state lives at `%s`' % (
                            '.'.join(path or ()), ' or '.join('.'.join(p) for p in paths))
                    else:
                        why = 'delegation is not transparent / cannot be resolved'
                out.add('DG-D2', body.path, 'expected:delegation', where, ok, why,
                        {'path': list(path or []), 'expected': [list(p) for p in paths]}, ordinal=False)
    # ---- D5 / D6 (HIR)
    check_create(facts, out, by_ty)
    check_conversions(facts, out, by_ty)
    check_subvalue_mutation(facts, out, by_ty)
    check_substate_bypass(facts, out, by_ty)
    # ---- D7
    st = facts.items['statics']
    for s in st:
        bad = s['mut'] or not s['freeze'] or s['thread_local']
        # exception (one reason): the `tracing` feature's event macros register a callsite static of a
        # `tracing::` type; only tracing's own API can read it and it carries no parsing state
        if bad and not s['mut'] and s['sp'].get('macro', '').startswith('tracing::') \
                and s['ty'].get('adt', '').startswith('tracing::'):
            out.add('DG-D7', s['path'], 'static', loc_of(s['sp']), True, '',
                    {'exception': 'tracing callsite registration (logging only)', 'trivial': True}, ordinal=False)
            continue
        out.add('DG-D7', s['path'], 'static', loc_of(s['sp']), not bad,
                'mutable / interior-mutable / thread-local static: decoding would depend on more than the bytes'
                if bad else '', ordinal=False)
    out.add('DG-D7', facts.crate, 'statics-inventory', 'crate', True, '', {'statics': len(st), 'trivial': True}, ordinal=False)
    import ed
    o2 = type(out)()
    dec, _enc = ed.decode_encode_roots(facts, o2)
    dec_bodies, _ = ed.path_bodies(facts, dec)
    nimp = 0
    for b in dec_bodies:
        for bb, t in b.calls():
            c = callee_of(t)
            if not c:
                continue
            p = c['path']
            if p.startswith(IMPURE_PREFIXES) and (b.path, p.split('::<')[0]) not in IMPURE_ALLOWED \
                    and (b.path, p) not in IMPURE_ALLOWED:
                nimp += 1
                out.add('DG-D7', b.path, 'ambient:' + c['name'], loc_of(t['sp']), False,
                        'decode path calls `%s`, which reads ambient state' % c['full'])
        for blk in b.blocks:
            for s in blk['st']:
                if s['k'] == 'assign' and s['rv']['k'] == 'other' and 'ThreadLocalRef' in s['rv'].get('s', ''):
                    out.add('DG-D7', b.path, 'thread-local', loc_of(s['sp']), False, 'thread-local read on the decode path')
    out.add('DG-D7', facts.crate, 'ambient-inventory', 'crate', True, '',
            {'decode_path_bodies': len(dec_bodies), 'trivial': True}, ordinal=False)
    return cls, primaries, by_ty


# ------------------------------------------------------------------ HIR helpers

def hir_walk(e, fn):
    """pre-order walk of an HIR expression tree"""
    if isinstance(e, dict):
        fn(e)
        for k, v in e.items():
            if k in ('pat',):
                continue
            hir_walk(v, fn)
    elif isinstance(e, list):
        for x in e:
            hir_walk(x, fn)


def find_structs(hfn, adt):
    res = []

    def visit(e):
        if e.get('k') == 'struct' and e.get('adt') == adt:
            res.append(e)
    hir_walk(hfn['body'], visit)
    return res


def let_bindings(hfn):
    """name -> init expr for simple `let name = init` statements"""
    res = {}

    def bind_struct(pat, init):
        # `let S { a, b: c, .. } = init;` binds a -> init.a, c -> init.b (recursively)
        for f in pat.get('fields', []):
            sub = {'k': 'field', 'e': init, 'n': f['n']}
            p2 = f.get('p', {})
            if p2.get('k') == 'bind':
                res[p2['name']] = sub
            elif p2.get('k') == 'pstruct':
                bind_struct(p2, sub)

    def visit(e):
        if e.get('k') == 'slet' and 'init' in e:
            if e['pat'].get('k') == 'bind':
                res[e['pat']['name']] = e['init']
            elif e['pat'].get('k') == 'pstruct':
                bind_struct(e['pat'], e['init'])
    hir_walk(hfn['body'], visit)
    return res


def resolve_expr(e, lets, depth=0):
    """follow lets and project fields of struct literals: `sections.editor` with
    `let sections = S { editor: X, .. }` is X"""
    while isinstance(e, dict) and depth < 12:
        depth += 1
        k = e.get('k')
        if k == 'local' and e.get('name') in lets and lets[e['name']] is not e:
            nxt = lets[e['name']]
            # a binding that only renames itself (`let x = x;` after inlining) ends the chase
            if isinstance(nxt, dict) and nxt.get('k') == 'local' and nxt.get('name') == e['name']:
                return e
            e = nxt
            continue
        if k == 'block' and not e.get('stmts') and 'expr' in e:
            e = e['expr']
            continue
        if k == 'field':
            base = resolve_expr(e['e'], lets, depth)
            if isinstance(base, dict) and base.get('k') == 'struct':
                hit = [f for f in base.get('fields', []) if f['n'] == e['n']]
                if hit:
                    e = hit[0]['e']
                    continue
            return {'k': 'field', 'e': base, 'n': e['n'], 'ty': e.get('ty')}
        return e
    return e


def resolve_chain(e, lets, depth=0):
    """field chain of e with leading locals replaced by the field chains they are bound to"""
    fc = field_chain(e)
    if fc is None:
        return None
    root, names = fc
    while depth < 6 and root in lets:
        fc2 = field_chain(lets[root])
        if fc2 is None:
            break
        root, names = fc2[0], fc2[1] + names
        depth += 1
    return root, names


def field_chain(e):
    """expr `a.b.c` -> ('a', ['b','c']) ; None if not a pure field chain on a local"""
    names = []
    cur = e
    while isinstance(cur, dict) and cur.get('k') == 'field':
        names.append(cur['n'])
        cur = cur['e']
    if isinstance(cur, dict) and cur.get('k') == 'local':
        return cur['name'], list(reversed(names))
    return None


def check_create(facts, out, by_ty):
    state_tys = {d.state: d for d in by_ty.values()}
    n = 0
    for impl in facts.items['impls']:
        if impl.get('trait') != STATE_TRAIT:
            continue
        sty = impl['self'].get('adt')
        m = [i for i in impl['items'] if i['name'] == 'create']
        if not m:
            continue
        hfn = facts.hir.get(m[0]['path'])
        if not hfn:
            continue
        pname = hfn['params'][0].get('name') if hfn['params'] and hfn['params'][0].get('k') == 'bind' else None
        structs = find_structs(hfn, sty)
        adt = facts.adts.get(sty)
        if not structs:
            # `Self::default()` style: fine for leaf states
            n += 1
            out.add('DG-D5', m[0]['path'], 'create', loc_of(impl['sp']), True, '', {'form': 'default()'}, ordinal=False)
            continue
        st = structs[-1]
        lets5 = let_bindings(hfn)
        for f in st['fields']:
            fty = None
            for af in adt['variants'][0]['fields']:
                if af['name'] == f['n']:
                    fty = af['ty'].get('adt')
            if fty in state_tys and fty != sty:
                e = f['e']
                if e.get('k') == 'local' and e.get('name') in lets5:
                    e = lets5[e['name']]        # hoisted into a `let`
                ok = False
                why = 'sub-state `%s` is not built with its own create(version)' % f['n']
                if e.get('k') == 'call' and e['f'].get('k') == 'path' and e['f'].get('name') == 'create':
                    full = e.get('full', '')
                    arg = e['args'][0] if e['args'] else {}
                    if fty in full and arg.get('k') == 'local' and arg.get('name') == pname:
                        ok = True
                        why = ''
                    elif arg.get('k') != 'local' or arg.get('name') != pname:
                        why = 'sub-state `%s` is created with something other than the format version parameter' % f['n']
                n += 1
                out.add('DG-D5', m[0]['path'], 'field:' + f['n'], '%s:%d' % (impl['sp']['file'], f['ln']), ok, why,
                        ordinal=False)
    out.anchor('DG', 'DecodeState::create impls', n >= 9, '%d obligations' % n)


def check_conversions(facts, out, by_ty):
    """D6 over From<State> for T, From<T> for Beatmap, Default for aggregated decoders"""
    state_of = {d.ty: d.state for d in by_ty.values()}
    decoder_of_state = {}
    for d in by_ty.values():
        decoder_of_state.setdefault(d.state, d.ty)
    n_fields = 0
    n_impls = 0
    for impl in facts.items['impls']:
        tr = impl.get('trait')
        tgt = impl['self'].get('adt')
        if tgt is None or tgt not in facts.adts:
            continue
        tf = impl.get('trait_full', '')
        if tr == 'std::convert::From':
            m = [i for i in impl['items'] if i['name'] == 'from']
            if not m:
                continue
            src = tf[tf.index('From<') + 5:-2] if 'From<' in tf and tf.endswith('>>') else None
            # only conversions between decoder values / states
            src_adt = src if src in facts.adts else None
            if src_adt is None:
                continue
            if not (tgt in state_of or tgt == 'beatmap::Beatmap') or not (
                    src_adt in state_of or src_adt in decoder_of_state):
                continue
            kind = 'from_state' if (src_adt in decoder_of_state and state_of.get(tgt) == src_adt) else 'from_value'
            if kind == 'from_value' and tgt != 'beatmap::Beatmap':
                continue
        elif tr == 'std::default::Default' and (tgt in state_of or tgt == 'beatmap::Beatmap'):
            m = [i for i in impl['items'] if i['name'] == 'default']
            if not m:
                continue
            kind = 'default'
            src_adt = None
        else:
            continue
        hfn = facts.hir.get(m[0]['path'])
        if not hfn:
            continue
        structs = find_structs(hfn, tgt)
        fnp = m[0]['path']
        helper_lets = None
        if not structs:
            # one level of helper: `Self::from_parts(a, b, ..)` whose body holds the literal
            tail = hfn['body'].get('expr') if hfn['body'].get('k') == 'block' else hfn['body']
            if isinstance(tail, dict) and tail.get('k') == 'call' and tail['f'].get('k') == 'path':
                h2 = facts.hir.get(tail['f'].get('def'))
                if h2 is not None and find_structs(h2, tgt):
                    caller_lets = let_bindings(hfn)
                    helper_lets = dict(let_bindings(h2))
                    for pp, arg in zip(h2['params'], tail['args']):
                        if pp.get('k') != 'bind':
                            continue
                        a2 = arg
                        if isinstance(a2, dict) and a2.get('k') == 'local' and a2['name'] in caller_lets:
                            a2 = caller_lets[a2['name']]
                        helper_lets[pp['name']] = a2
                    structs = find_structs(h2, tgt)
        if not structs:
            # the literal may sit in a private helper / method of a helper struct: look at the inlined function
            vh = H.inlined_fn(facts, hfn, depth=1, keep=('::from', '::into', '::default', '::create'))
            if find_structs(vh, tgt):
                structs = find_structs(vh, tgt)
                helper_lets = let_bindings(vh)
                hfn = vh
        if not structs:
            if kind == 'from_state' and tgt == src_adt:
                continue
            # e.g. From<DifficultyState> for Difficulty { state.difficulty }
            tail = hfn['body'].get('expr') if hfn['body'].get('k') == 'block' else hfn['body']
            fc = field_chain(tail) if tail else None
            ok = fc is not None
            out.add('DG-D6', fnp, 'conversion', loc_of(impl['sp']), ok,
                    '' if ok else 'conversion is neither a struct literal nor a field move', ordinal=False)
            n_impls += 1
            continue
        n_impls += 1
        st = structs[-1]
        lets = helper_lets if helper_lets is not None else let_bindings(hfn)
        pname = hfn['params'][0].get('name') if hfn['params'] and hfn['params'][0].get('k') == 'bind' else None
        tfields = [f['name'] for f in facts.adts[tgt]['variants'][0]['fields']]
        given = {f['n']: f for f in st['fields']}
        base = st.get('base')
        # every field initialised
        for fname in tfields:
            if fname in given:
                continue
            if kind == 'from_value' and base is not None:
                # allowed only if the source does not have the field
                sfields = [f['name'] for f in facts.adts[src_adt]['variants'][0]['fields']]
                ok = fname not in sfields
                if not ok:
                    out.add('DG-D6', fnp, 'field:' + fname, loc_of(impl['sp']), False,
                            'field `%s` exists in the source `%s` but falls back to the default' % (fname, src_adt),
                            ordinal=False)
                    n_fields += 1
                continue
            out.add('DG-D6', fnp, 'field:' + fname, loc_of(impl['sp']), False,
                    'field `%s` is not initialised from the source%s' % (
                        fname, ' (falls back to `..base`)' if base is not None else ''), ordinal=False)
            n_fields += 1
        if base is not None and kind != 'from_value':
            out.add('DG-D6', fnp, 'base', loc_of(impl['sp']), False,
                    'state/default conversion uses a `..base` expression; fields could silently keep defaults',
                    ordinal=False)
        for fname, f in given.items():
            n_fields += 1
            e = f['e']
            where = '%s:%d' % (impl['sp']['file'], f['ln'])
            ok, why = _check_field_init(facts, kind, tgt, fname, e, lets, pname, state_of, decoder_of_state)
            out.add('DG-D6', fnp, 'field:' + fname, where, ok, why, ordinal=False)
    out.anchor('DG', 'conversion impls', n_impls >= 10, '%d impls, %d field initialisers' % (n_impls, n_fields))
    out.anchor('DG', 'conversion field initialisers', n_fields >= 200, '%d' % n_fields)


def _is_aggregate(facts, tgt, state_of):
    """a decoder value type that merges several sections (has its own From<State> literal)"""
    return tgt in ('beatmap::Beatmap', 'section::hit_objects::decode::HitObjects',
                   'section::timing_points::decode::TimingPoints')


def _check_field_init(facts, kind, tgt, fname, e, lets, pname, state_of, decoder_of_state):
    want = D6_NAME_EXCEPTIONS.get((tgt, fname), fname)
    fc = field_chain(e) if e.get('k') != 'local' else None
    if e.get('k') == 'local':
        # shorthand / local: trace to its let
        init = lets.get(e['name'])
        if init is None:
            return False, 'field `%s` is initialised from local `%s` of unknown origin' % (fname, e['name'])
        fc2 = resolve_chain(init, lets)
        if fc2 is None or not fc2[1] or fc2[0] != pname:
            # through a struct of parts: `let Parts { x, .. } = Parts { x: state.x, .. }`
            r_ = resolve_expr(init, lets)
            fc3 = resolve_chain(r_, lets) if isinstance(r_, dict) else None
            if fc3 is not None and fc3[1]:
                fc2 = fc3
        if fc2 is None or not fc2[1]:
            if kind == 'default':
                return True, ''
            return False, 'field `%s`: local `%s` is not a field of the source' % (fname, e['name'])
        root, names = fc2
        if names[-1] != want:
            return False, 'field `%s` is initialised from `%s.%s`' % (fname, root, '.'.join(names))
        return True, ''
    if fc is None:
        if kind == 'default':
            # constants / Default::default() are what a Default impl is made of
            return True, ''
        return False, 'field `%s` is not copied from a field of the source' % fname
    root, names = fc
    if not names or names[-1] != want:
        return False, 'field `%s` is initialised from `%s.%s` (a different field)' % (fname, root, '.'.join(names))
    # root must be the parameter or a local converted from a field of the parameter
    if root == pname:
        return True, ''
    init = lets.get(root)
    if init is None:
        return False, 'field `%s`: source `%s` has unknown origin' % (fname, root)
    init = resolve_expr(init, lets)
    return _check_sub_value(init, pname, state_of, decoder_of_state, kind, fname, root, lets)


def _check_sub_value(init, pname, state_of, decoder_of_state, kind, fname, root, lets=None):
    lets = lets or {}
    k = init.get('k')
    if k == 'call' and init['f'].get('k') == 'path' and init['f'].get('name') == 'from' and len(init['args']) == 1 \
            and kind != 'default':
        # `T::from(state.x)` / `T::from(x_state)` -- the same conversion as `state.x.into()`
        full = init.get('full', '')
        recv = resolve_chain(init['args'][0], lets)
        if recv is None or recv[0] != pname or not recv[1]:
            return False, 'field `%s`: `%s` is not converted from a field of the state' % (fname, root)
        try:
            t_ty = full[1:full.index(' as ')]
            s_ty = full[full.index('From<') + 5:full.index('>>::from')]
        except ValueError:
            return False, 'field `%s`: cannot resolve the conversion `%s`' % (fname, full)
        if state_of.get(t_ty) != s_ty and s_ty != t_ty:
            return False, ('field `%s`: sub-state `%s` is converted into `%s`, which is not its decoder value'
                           % (fname, s_ty, t_ty))
        return True, ''
    if kind == 'default':
        # `let x = X::default()`
        if k == 'call' and init['f'].get('name') == 'default':
            return True, ''
        return False, 'field `%s`: `%s` is not a `default()` value' % (fname, root)
    if k == 'mcall' and init.get('name') == 'into':
        full = init.get('full', '')
        # `<S as Into<T>>::into`
        recv = resolve_chain(init['recv'], lets)
        if recv is None or recv[0] != pname:
            return False, 'field `%s`: `%s` is not converted from a field of the state' % (fname, root)
        try:
            s_ty = full[1:full.index(' as ')]
            t_ty = full[full.index('Into<') + 5:full.index('>>::into')]
        except ValueError:
            return False, 'field `%s`: cannot resolve the conversion `%s`' % (fname, full)
        if state_of.get(t_ty) != s_ty and s_ty != t_ty:
            return False, ('field `%s`: sub-state `%s` is converted into `%s`, which is not its decoder value'
                           % (fname, s_ty, t_ty))
        return True, ''
    fc = resolve_chain(init, lets)
    if fc is not None and fc[0] == pname:
        return True, ''
    return False, 'field `%s`: source `%s` is not derived from the parameter' % (fname, root)


def check_substate_bypass(facts, out, by_ty):
    """D6d: an aggregating conversion turns the state of a delegated section into its value only
    through that section's own `From<State>` conversion; it does not reach *into* a foreign sub-state
    (`state.difficulty.difficulty`), which would bypass whatever that conversion does."""
    state_of = {d.ty: d.state for d in by_ty.values()}
    nonident = {st for ty, st in state_of.items() if st != ty}       # states with a real conversion
    n = 0
    for ty, d in sorted(by_ty.items()):
        fn = '<%s as std::convert::From<%s>>::from' % (ty, d.state)
        hfn = facts.hir.get(fn)
        if hfn is None or ty == d.state:
            continue
        n += 1
        bad = []

        def visit(x):
            if x.get('k') == 'field' and isinstance(x.get('e'), dict):
                inner_ty = (x['e'].get('ty') or '').lstrip('&').replace('mut ', '')
                if inner_ty in nonident and inner_ty != d.state:
                    bad.append((inner_ty, x.get('n'), x.get('ln')))
        hir_walk(hfn['body'], visit)
        b = facts.body(fn)
        ok = not bad
        out.add('DG-D6', fn, 'sub-states-converted-not-opened', '%s:%d' % (b.file if b else 'src', bad[0][2] if bad and bad[0][2] else (b.line if b else 0)),
                ok, '' if ok else ('the conversion reads field `%s` of the sub-state `%s` directly instead of converting the '
                                   'sub-state with its own `From` impl: what that conversion does is skipped for this decoder only'
                                   % (bad[0][1], bad[0][0])), ordinal=False)
    out.anchor('DG', 'aggregating conversions (sub-state bypass)', n >= 3, str(n))


def check_subvalue_mutation(facts, out, by_ty):
    """D6c: inside a state->value conversion of an aggregating decoder, the values of *delegated*
    sections (those another decoder is the primary parser of) are copied out unmodified: no store
    into them and no `&mut` borrow of them.  (The decoder's own section data may be post-processed.)"""
    value_tys = set(by_ty)
    state_tys = {d.state for d in by_ty.values()}
    n = 0
    for ty, d in sorted(by_ty.items()):
        fn = '<%s as std::convert::From<%s>>::from' % (ty, d.state)
        b = facts.body(fn)
        if b is None or ty == d.state:
            continue
        n += 1
        watched = {}
        for l, lt in enumerate(b.locals):
            a = lt.get('adt')
            if l == 0 or a is None:
                continue
            if a in (value_tys | state_tys) and a not in (ty, d.state):
                watched[l] = a
        bad = None
        for bi, blk in enumerate(b.blocks):
            if blk.get('cleanup'):
                continue
            for s in blk['st']:
                if s['k'] != 'assign':
                    continue
                if s['pl']['l'] in watched and s['pl']['p']:
                    bad = (loc_of(s['sp']), 'store into `%s`' % watched[s['pl']['l']])
                rv = s['rv']
                if rv['k'] == 'ref' and rv['m'] == 'mut' and rv['pl']['l'] in watched:
                    bad = (loc_of(s['sp']), '`&mut` borrow of `%s`' % watched[rv['pl']['l']])
                if rv['k'] == 'rawptr' and rv['pl']['l'] in watched:
                    bad = (loc_of(s['sp']), 'raw borrow of `%s`' % watched[rv['pl']['l']])
        out.add('DG-D6', fn, 'sub-values-unmodified', bad[0] if bad else '%s:%d' % (b.file, b.line), bad is None,
                '' if bad is None else ('%s inside the conversion: the value of a section that a specialised decoder '
                                        'returns unmodified is changed here, so the two decoders disagree') % bad[1],
                {'watched': sorted(set(watched.values()))}, ordinal=False)
    out.anchor('DG', 'aggregating conversions checked for sub-value mutation', n >= 3, '%d' % n)
