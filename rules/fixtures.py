"""Positive controls: every generic rule engine must fire on its `bad_*` fixture and stay silent
on the `good_*` twin.  Run on every check; a dead rule fails the check closed."""
import os
import shutil

import driver
from facts import Facts
from common import Out
from effects import Effects, KBU
import ed
import ic
import ug

FIXDIR = os.path.join(driver.VERIF, 'fixtures')

# (rule, function, construct prefix or None, expected 'violation' | 'ok')
EXPECT = [
    ('ED', 'bad_ed_dropped', None, 'violation'),
    ('ED', 'bad_ed_ok_only', None, 'violation'),
    ('ED', 'bad_ed_unwrap_or', None, 'violation'),
    ('ED', 'good_ed_question', None, 'ok'),
    ('ED', 'good_ed_match', None, 'ok'),
    ('ED', 'bad_ed_interrupt_not_retried', None, 'violation'),
    ('ED', 'good_ed_interrupt_retried', None, 'ok'),
    ('WB', 'bad_wb_buffered_writer_dropped', None, 'violation'),
    ('WB', 'good_wb_flushed', None, 'ok'),
    ('AL', 'bad_al_read_exact', None, 'violation'),
    ('EP', 'bad_ep_ctor::{closure#0}', None, 'violation'),
    ('IC', 'bad_ic_consume_unsaved', 'consume', 'violation'),
    ('IC', 'bad_ic_buffer_dropped', 'fill', 'violation'),
    ('IC', 'good_ic_buffer_returned', 'fill', 'ok'),
    ('EA', 'bad_ea_write_before_err', None, 'violation'),
    ('EA', 'good_ea_write_after_err', None, 'ok'),
    ('KBU', 'bad_kbu_stale', None, 'violation'),
    ('KBU', 'good_kbu_cleared', None, 'ok'),
    ('UG', 'bad_ug_unguarded', 'new_unchecked', 'violation'),
    ('UG', 'bad_ug_wrong_guard', 'new_unchecked', 'violation'),
    ('UG', 'good_ug_guarded', 'new_unchecked', 'ok'),
    ('UG', 'bad_ug_raw_deref', None, 'violation'),
    ('UG', 'bad_ug_utf8', 'from_utf8_unchecked', 'violation'),
    ('AB', 'bad_ab_unbounded', None, 'violation'),
    ('AB', 'good_ab_bounded', None, 'ok'),
    ('PX', 'bad_px_unwrap', None, 'violation'),
    ('PX', 'good_px_guarded', None, 'ok'),
    ('PX', 'bad_px_str_offset', 'str-offset', 'violation'),
    ('PX', 'good_px_str_offset::{closure#0}', 'str-offset', 'ok'),
    ('PX', 'good_px_str_offset_direct', 'str-offset', 'ok'),
    ('U8', 'bad_u8_non_utf8', None, 'violation'),
    ('U8', 'bad_u8_dynamic', None, 'violation'),
    ('U8', 'good_u8_ascii', None, 'ok'),
]

# rule families of props.py -> fixture rule ids they rely on
FAMILY_RULES = {
    'ed': ['ED', 'WB', 'AL', 'EP'], 'ic': ['IC'], 'ea': ['EA', 'KBU'], 'kbu_bufs': ['KBU'], 'kbu_ticks': ['KBU'],
    'ug': ['UG'], 'ab': ['AB'], 'px': ['PX'], 'u8': ['U8'],
}

_CACHE = {}


def run_all():
    """returns (results: list of dict, facts summary)"""
    if 'res' in _CACHE:
        return _CACHE['res']
    path, tmp, dt = driver.build_facts(FIXDIR, (), crates='mirlint_fixtures')
    try:
        facts = Facts(path)
    finally:
        shutil.rmtree(tmp, ignore_errors=True)
    out = Out('fixtures')
    bodies = list(facts.bodies.values())
    for b in bodies:
        ed.check_fn(b, out, 'ED')
        ed.check_writer_drop(b, out)
    o_al = Out('fixtures')
    ed.run(facts, o_al, all_bodies=True)
    for i in o_al.insts:
        if i.rule in ('AL', 'EP'):
            out.insts.append(i)
    ic.run(facts, out, bodies=bodies)
    ug.run_ug(facts, out)
    ug.run_ab(facts, out, bodies=bodies)
    ug.run_px(facts, out, paths=sorted(facts.bodies))
    ug.run_u8(facts, out, bodies=bodies)
    # EA / KBU on the State-taking functions
    eff = Effects(facts)
    kbu = KBU(eff)
    for inst in facts.instances:
        d = inst['def']
        if '_ea_' in d:
            errw, may_err = eff.errW(inst['id'])
            dirty = [l for l in errw if l[0] == ('p', 1)]
            out.add('EA', d, 'err-exit', d, not dirty, 'state written before an Err return: %s' % dirty if dirty else '')
        if '_kbu_' in d:
            viols, _e = kbu.flow(inst['id'], (('p', 1), ('scratch',)))
            out.add('KBU', d, 'buffer:scratch', d, not viols, viols[0]['what'] if viols else '')
    results = []
    for rule, fn, cons, exp in EXPECT:
        insts = [i for i in out.insts if i.rule == rule and i.fn == fn and (cons is None or i.construct.startswith(cons))]
        if not insts:
            got = 'no-instance'
        elif any(not i.ok for i in insts):
            got = 'violation'
        else:
            got = 'ok'
        results.append({'rule': rule, 'fixture': fn, 'expected': exp, 'got': got, 'pass': got == exp})
    _CACHE['res'] = results
    return results


def check_rules(rules):
    """fixture outcomes for the given rule ids; returns (dead: list of messages, summary)"""
    res = [r for r in run_all() if r['rule'] in rules]
    dead = []
    for r in res:
        if not r['pass']:
            kind = 'RULE-DEAD' if r['expected'] == 'violation' else 'RULE-OVERFIRES'
            dead.append((kind + '/' + r['rule'] + '/' + r['fixture'],
                         '%s: rule %s gives `%s` on fixture `%s`, expected `%s`' % (kind, r['rule'], r['got'], r['fixture'], r['expected'])))
    return dead, res
