"""Engine B: compile_fail witnesses with compiling twins (thorough tier)."""
import os
import re
import shutil
import subprocess
import tempfile

import driver

VERIF = driver.VERIF
SERVES = {'W1': ['C18'], 'W4': ['C18'], 'W6': ['C20']}


def run(repo):
    """returns dict: {'passed': n, 'failed': [names], 'results': {W: ok}, 'error': str|None}"""
    tmp = tempfile.mkdtemp(prefix='witness-', dir=driver.scratch_root())
    try:
        os.makedirs(os.path.join(tmp, 'src'))
        shutil.copy(os.path.join(VERIF, 'witness', 'src', 'lib.rs'), os.path.join(tmp, 'src', 'lib.rs'))
        toml = open(os.path.join(VERIF, 'witness', 'Cargo.toml.in')).read().replace('@REPO@', os.path.abspath(repo))
        open(os.path.join(tmp, 'Cargo.toml'), 'w').write(toml)
        lock = os.path.join(repo, 'Cargo.lock')
        if os.path.exists(lock):
            shutil.copy(lock, os.path.join(tmp, 'Cargo.lock'))
        env = dict(os.environ)
        env['CARGO_NET_OFFLINE'] = 'true'
        env['CARGO_TARGET_DIR'] = os.path.join(tmp, 'target')
        r = subprocess.run(['cargo', '+nightly', 'test', '--doc', '--offline'], cwd=tmp, env=env,
                           capture_output=True, text=True)
        out = r.stdout + r.stderr
        res = {}
        for m in re.finditer(r'test src/lib\.rs - (W\d) \(line \d+\)( - compile fail| - compile)? \.\.\. (\w+)', out):
            w, cf, status = m.group(1), m.group(2), m.group(3)
            res.setdefault(w, []).append((cf or '', status == 'ok'))
        failed = sorted(w for w, rs in res.items() if not all(ok for _cf, ok in rs))
        n = sum(len(v) for v in res.values())
        err = None
        if not res:
            err = out[-1500:]
        return {'doctests': n, 'failed': failed, 'results': {w: all(ok for _c, ok in rs) for w, rs in res.items()},
                'error': err}
    finally:
        shutil.rmtree(tmp, ignore_errors=True)
