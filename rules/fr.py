"""FR: framing (C05, C04) and SW: swallow rule (C01, C05, C06)."""
import re
import hirutil as H
from facts import callee_of, op_local, op_place, place_key, value_def
from common import loc_of

FORMAT_HEADERS = ['General', 'Editor', 'Metadata', 'Difficulty', 'Events', 'TimingPoints', 'Colours',
                  'HitObjects', 'Variables', 'CatchTheBeat', 'Mania']
# the format spells it "Colours", the enum variant is `Colors` (one exception)
HEADER_TO_VARIANT = {h: h for h in FORMAT_HEADERS}
HEADER_TO_VARIANT['Colours'] = 'Colors'
CANONICAL_ORDER = ['General', 'Editor', 'Metadata', 'Difficulty', 'Events', 'TimingPoints', 'Colours', 'HitObjects']

DRIVER = 'decode::DecodeBeatmap::decode'
PARSE_SECTION = 'decode::parse_section'
PARSE_FIRST = 'decode::parse_first_section'
TRY_FROM_LINE = 'section::Section::try_from_line'
READ_LINE = 'reader::decoder::Decoder::<R>::read_line'


def snake(name):
    return re.sub(r'(?<!^)(?=[A-Z])', '_', name).lower()


def header_table(facts, out):
    hfn = facts.hir.get(TRY_FROM_LINE)
    out.anchor('FR', 'Section::try_from_line', hfn is not None)
    if hfn is None:
        return {}
    hfn = H.inlined_fn(facts, hfn, depth=2)      # the name table may live in a private helper
    from kt import _match_table, _lookup_table
    tab = _match_table(hfn)
    if not any(isinstance(k, str) for k in tab):
        tab = _lookup_table(facts, hfn)       # a constant table of (name, section) pairs searched by name
    if not any(isinstance(k, str) for k in tab):
        # the lookup handed to a combinator as a function item: `.and_then(Self::from_name)`
        refs = []
        H.walk(hfn['body'], lambda n, a: refs.append(n['def']) if n.get('k') == 'path' and n.get('dk', '').startswith(('Fn', 'AssocFn'))
               and dict.__contains__(facts.hir, n.get('def', '')) else None)
        for d in refs:
            h2 = H.inlined_fn(facts, facts.hir[d], depth=1)
            tab = _match_table(h2)
            if not any(isinstance(k, str) for k in tab):
                tab = _lookup_table(facts, h2)
            if any(isinstance(k, str) for k in tab):
                break
    # F2: literal set equals the format's header table, one variant each
    lits = sorted(k for k in tab if isinstance(k, str))
    ok = sorted(FORMAT_HEADERS) == lits
    out.add('FR-F2', TRY_FROM_LINE, 'header-set', 'src/section/mod.rs', ok,
            '' if ok else 'recognised headers %s differ from the format\'s %s' % (lits, sorted(FORMAT_HEADERS)),
            ordinal=False)
    for h in FORMAT_HEADERS:
        v = tab.get(h)
        okv = v == HEADER_TO_VARIANT[h]
        out.add('FR-F2', TRY_FROM_LINE, 'header:' + h, 'src/section/mod.rs', okv,
                '' if okv else 'header `[%s]` opens section `%s` instead of `%s`' % (h, v, HEADER_TO_VARIANT[h]),
                ordinal=False)
    # brackets: strip_prefix('[')? then strip_suffix(']')?
    calls = []

    def visit(e, anc):
        if e.get('k') == 'mcall' and e.get('name') in ('strip_prefix', 'strip_suffix', 'trim', 'trim_start',
                                                       'trim_end', 'trim_matches', 'to_lowercase',
                                                       'eq_ignore_ascii_case', 'starts_with', 'ends_with'):
            arg = H.peel(e['args'][0]) if e['args'] else {}
            calls.append((e['name'], arg.get('v')))
    H.walk(hfn['body'], visit)
    okb = calls.count(('strip_prefix', '[')) == 1 and calls.count(('strip_suffix', ']')) == 1 and len(calls) == 2
    out.add('FR-F2', TRY_FROM_LINE, 'brackets', 'src/section/mod.rs', okb,
            '' if okb else ('header recognition must strip exactly one `[` and one `]` and nothing else; found %s'
                            % calls), ordinal=False)
    return tab


def run(facts, out):
    tab = header_table(facts, out)
    # ---- F1 dispatch pairing
    body = facts.body(DRIVER)
    out.anchor('FR', 'driver DecodeBeatmap::decode', body is not None)
    sec = facts.adts.get('section::Section')
    out.anchor('FR', 'enum Section', sec is not None)
    if body is not None and sec is not None:
        variants = [v['name'] for v in sec['variants']]
        found = {}
        # the table may be inline in the driver or extracted into a helper it calls
        cands = [body] + [facts.bodies[cp] for cp in sorted({callee_of(t)['path'] for bb0, t in body.calls()
                                                            if callee_of(t) and callee_of(t)['local']})
                          if cp in facts.bodies]
        for body2 in cands:
          for bi, blk in enumerate(body2.blocks):
              body = body2
              t = blk['term']
              if t['k'] != 'switch' or t['discr_ty'].get('s') not in ('isize', 'u8', 'usize', 'i8'):
                  pass
              if t['k'] != 'switch':
                  continue
              dl = op_local(t['discr'])
              if dl is None:
                  continue
              # discr of a local of type Section
              d = [x for x in body.defs.get(dl, []) if x[2] == 'assign' and x[3]['rv']['k'] == 'discr']
              if not d:
                  continue
              pl = d[0][3]['rv']['pl']
              if pl['p'] or body.locals[pl['l']].get('adt') != 'section::Section':
                  continue
              for val, tgt in t['arms']:
                  # the arm block reifies a parse_* fn pointer
                  name = None
                  for s in body.blocks[tgt]['st']:
                      if s['k'] == 'assign' and s['rv']['k'] == 'cast' and 'ReifyFnPointer' in s['rv']['ck']:
                          o = s['rv']['op']
                          if o['k'] == 'const' and 'fn' in o:
                              name = o['fn']['name']
                              where = loc_of(s['sp'])
                  if name is not None and val < len(variants):
                      found[variants[val]] = (name, where)
        body = facts.body(DRIVER)
        out.anchor('FR', 'dispatch switch on Section', len(found) >= 11, '%d arms' % len(found))
        for v in variants:
            exp = 'parse_' + snake(v)
            got = found.get(v)
            ok = got is not None and got[0] == exp
            out.add('FR-F1', DRIVER, 'dispatch:' + v, got[1] if got else 'src/decode.rs', ok,
                    '' if ok else 'lines of section `%s` are dispatched to `%s` instead of `%s`' % (
                        v, got[0] if got else 'nothing', exp), ordinal=False)
        check_dispatch_follows_header(facts, body, out)
    # ---- F3 / SW in parse_section
    ps = facts.body(PARSE_SECTION)
    out.anchor('FR', 'parse_section', ps is not None)
    if ps is not None:
        check_parse_section(facts, ps, out)
    pf = facts.body(PARSE_FIRST)
    out.anchor('FR', 'parse_first_section', pf is not None)
    if pf is not None:
        check_parse_first(facts, pf, out)
    # line delimiter and trailing trim
    rl = facts.body(READ_LINE)
    out.anchor('FR', 'Decoder::read_line', rl is not None)
    if rl is not None:
        delim = None
        rl_calls = list(rl.calls())
        for bb0, t0 in list(rl_calls):
            c0 = callee_of(t0)
            if c0 and c0.get('local') and c0['path'] in facts.bodies:
                rl_calls.extend(facts.bodies[c0['path']].calls())       # e.g. a private `fill_read_buf`
        for bb, t in rl_calls:
            c = callee_of(t)
            if c and c['name'] == 'read_until' and len(t['args']) >= 2:
                a = t['args'][1]
                delim = a.get('v') if a['k'] == 'const' else None
                ok = delim == 10
                out.add('FR-F3', READ_LINE, 'delimiter', loc_of(t['sp']), ok,
                        '' if ok else 'lines are split on byte %r instead of LF (10)' % delim, ordinal=False)
        if delim is None:
            out.add('FR-F3', READ_LINE, 'delimiter', '%s:%d' % (rl.file, rl.line), False,
                    'read_line no longer splits with read_until(b\'\\n\')', ordinal=False)
    cl = facts.body('reader::decoder::Decoder::<R>::curr_line')
    out.anchor('FR', 'Decoder::curr_line', cl is not None)
    if cl is not None:
        names = [callee_of(t)['name'] for bb, t in cl.calls() if callee_of(t)]
        ok = names[-1:] == ['trim_end'] and 'trim' not in names and 'trim_start' not in names
        if not ok and names[-1:] == ['trim_end_matches'] and 'trim' not in names and 'trim_start' not in names:
            # `trim_end_matches(char::is_whitespace)` is `trim_end`
            for bb, t in cl.calls():
                c = callee_of(t)
                if c and c['name'] == 'trim_end_matches':
                    ok = any(a.get('k') == 'const' and isinstance(a.get('fn'), dict) and a['fn'].get('name') == 'is_whitespace'
                             for a in t['args'])
        out.add('FR-F3', cl.path, 'trailing-trim', '%s:%d' % (cl.file, cl.line), ok,
                '' if ok else 'curr_line must end in str::trim_end only (calls: %s)' % names, ordinal=False)
    return tab


def check_dispatch_follows_header(facts, body, out):
    """F1b: the parser handed to parse_section is chosen anew from every header parse_section returns:
    from the `Continue(next)` payload every path back to the parse_section call passes through a
    dispatch on the section, and the dispatched-on value is that payload (or the first section)."""
    def is_section(l):
        return l is not None and body.locals[l].get('adt') == 'section::Section'
    P = []
    D = {}          # block -> local dispatched on
    for bi, blk in enumerate(body.blocks):
        if blk.get('cleanup'):
            continue
        t = blk['term']
        if t['k'] == 'call':
            c = callee_of(t)
            if c and facts.ref_path(c['path']) == PARSE_SECTION:
                P.append(bi)
            elif c and c.get('local') and c['path'] in facts.bodies:
                for a in t['args']:
                    l = op_local(a)
                    if is_section(l):
                        D[bi] = l
        elif t['k'] == 'switch':
            dl = op_local(t['discr'])
            d = [x for x in body.defs.get(dl, []) if x[2] == 'assign' and x[3]['rv']['k'] == 'discr'] if dl is not None else []
            if d and not d[0][3]['rv']['pl']['p'] and is_section(d[0][3]['rv']['pl']['l']):
                D[bi] = d[0][3]['rv']['pl']['l']
    out.anchor('FR', 'parse_section call and section dispatch in the driver', bool(P) and bool(D), '%s %s' % (P, sorted(D)))
    if not P or not D:
        return
    # Continue payloads
    B = {}
    for bi, blk in enumerate(body.blocks):
        if blk.get('cleanup'):
            continue
        for s in blk['st']:
            if s['k'] != 'assign' or s['rv']['k'] != 'use':
                continue
            pl = op_place(s['rv']['op'])
            if pl is not None and any(e['k'] == 'downcast' and e.get('v') in ('Continue', 'Some') for e in pl['p']) \
                    and is_section(s['pl']['l']) and not s['pl']['p']:
                B[bi] = s['pl']['l']
    out.anchor('FR', 'Continue(next) payload read in the driver', bool(B), str(sorted(B)))
    if not B:
        return
    # only payloads read where the parse_section call is still ahead (the loop) matter
    def reaches_P(b0):
        seen, st = set(), [b0]
        while st:
            x = st.pop()
            if x in seen:
                continue
            seen.add(x)
            if x in P and x != b0:
                return True
            st.extend(body.succ(x))
        return False
    B = {b0: l for b0, l in B.items() if reaches_P(b0)}
    out.anchor('FR', 'section payload read inside the section loop', bool(B), str(sorted(B)))
    if not B:
        return
    # (1) must pass through a dispatch before the next parse_section call
    bad_path = None
    for b0 in B:
        if b0 in D:
            continue        # the payload is read in the very block that ends with the dispatch
        seen = set()
        st = [b0]
        while st:
            x = st.pop()
            if x in seen:
                continue
            seen.add(x)
            if x in D and x != b0:
                continue
            if x in P and x != b0:
                bad_path = (b0, x)
                break
            st.extend(body.succ(x))
        if bad_path:
            break
    ok1 = bad_path is None
    out.add('FR-F1', DRIVER, 'dispatch-after-every-header', loc_of(body.term(P[0])['sp']), ok1,
            '' if ok1 else ('after a section header was read there is a path back to parse_section that does not choose the '
                            'parser again: lines of the new section would go to the previous section\'s parser'), ordinal=False)
    # (2) the value dispatched on is the header just read (or the first section): every section payload read
    # inside the loop flows into the dispatched-on local, nothing else does, and one of them stems from the
    # result of parse_section
    def slice_locals(l, depth=0, seen=None):
        seen = seen if seen is not None else set()
        if l is None or l in seen or depth > 8:
            return seen
        seen.add(l)
        for bi, si, kind, s in body.defs.get(l, []):
            if kind == 'assign' and s['rv']['k'] == 'use':
                pl = op_place(s['rv']['op'])
                if pl is not None:
                    slice_locals(pl['l'], depth + 1, seen)
            elif kind == 'assign' and s['rv']['k'] == 'aggr' and s['rv'].get('variant') in ('Some', 'Continue', 'Ok'):
                # the header carried in an Option / ControlFlow between iterations
                for o in s['rv'].get('ops', []):
                    pl = op_place(o)
                    if pl is not None:
                        slice_locals(pl['l'], depth + 1, seen)
        return seen

    def non_payload_sources(l):
        res = set()
        for x in slice_locals(l):
            for bi, si, kind, s in body.defs.get(x, []):
                if kind != 'assign':
                    res.add('call')
                elif s['rv']['k'] != 'use':
                    res.add('other')
                elif op_place(s['rv']['op']) is None:
                    res.add('const')
        return res
    p_results = {body.term(pb)['dest']['l'] for pb in P}
    from_p = False
    for b0, l in B.items():
        for s in body.blocks[b0]['st']:
            if s['k'] == 'assign' and s['pl']['l'] == l and s['rv']['k'] == 'use':
                pl = op_place(s['rv']['op'])
                if pl is not None and (slice_locals(pl['l']) & p_results or _branch_of(body, pl['l'], p_results)):
                    from_p = True
    for bi, l in sorted(D.items()):
        sl = slice_locals(l)
        missing = [b0 for b0, pl_ in B.items() if pl_ not in sl]
        extra = non_payload_sources(l) - {'call'} if False else set()
        ok2 = not missing and from_p
        out.add('FR-F1', DRIVER, 'dispatch-on-latest-header', loc_of(body.term(bi)['sp']), ok2,
                '' if ok2 else ('the section dispatched on is not the header parse_section just returned: %s'
                                % ('the header read at block(s) %s does not reach the dispatch' % missing if missing
                                   else 'the result of parse_section is never used to choose the parser')), ordinal=False)


def _branch_of(body, l, targets, depth=0):
    """local l holds (a `?`/match payload of) one of the target locals"""
    if depth > 6 or l is None:
        return False
    if l in targets:
        return True
    for bi, si, kind, s in body.defs.get(l, []):
        if kind == 'assign' and s['rv']['k'] == 'use':
            pl = op_place(s['rv']['op'])
            if pl is not None and _branch_of(body, pl['l'], targets, depth + 1):
                return True
        elif kind != 'assign':
            c = callee_of(s)
            if c and c['name'] in ('branch', 'into', 'from') and s['args']:
                if _branch_of(body, op_local(s['args'][0]), targets, depth + 1):
                    return True
    return False


def _calls_named(body, pred):
    return [(bb, t) for bb, t in body.calls() if callee_of(t) and pred(callee_of(t))]


def check_parse_section(facts, ps, out):
    skip = _calls_named(ps, lambda c: c['name'] == 'should_skip_line')
    hdr = _calls_named(ps, lambda c: c['path'] == TRY_FROM_LINE)
    rdl = _calls_named(ps, lambda c: facts.ref_name(c) == 'read_line')
    fnp = [(bb, t) for bb, t in ps.calls() if callee_of(t) is None and not ps.is_cleanup(bb)]
    # the same facts as one decision table over (what read_line returned, skip?, header?) -- symbolic evaluation of the
    # function with its helpers inlined; independent of how the loop is spelled (see linetable.py)
    import linetable
    hps = facts.hir.get(PARSE_SECTION)
    trows = linetable.table(facts, hps) if hps is not None else [('table', False, 'parse_section not found')]
    for lbl, okt, whyt in trows:
        out.add('FR-F3', PARSE_SECTION, 'line-table:' + lbl, '%s:%d' % (ps.file, ps.line), okt, whyt, ordinal=False)
    table_ok = all(x[1] for x in trows)
    mir_shape = len(skip) == 1 and len(hdr) == 1 and len(fnp) == 1 and len(rdl) == 1
    out.anchor('FR', 'parse_section: skip/header/parser/read_line calls', mir_shape or table_ok,
               'skip=%d header=%d parser=%d read_line=%d table=%s' % (len(skip), len(hdr), len(fnp), len(rdl), table_ok))
    if not mir_shape:
        if table_ok:
            # classify-then-act pipelines: the control-flow-graph form of the rules does not apply to the split function;
            # their content is what the table just established
            for rule, lbl in (('FR-F3', 'order:skip<header<parser'), ('FR-F3', 'same-line'), ('FR-F3', 'skip-edge'),
                              ('FR-F3', 'header-edge'), ('FR-F4', 'return<-Continue'), ('FR-F4', 'return<-Break'),
                              ('FR-F4', 'return<-Err'), ('SW', 'parser-result'), ('SW', 'parser-result-not-returned')):
                out.add(rule, PARSE_SECTION, lbl, '%s:%d' % (ps.file, ps.line), True, '', {'via': 'line table'}, ordinal=False)
        return
    sb, st = skip[0]
    hb, ht = hdr[0]
    fb, ft = fnp[0]
    rb, rt = rdl[0]
    ok = ps.dominates(sb, hb) and ps.dominates(hb, fb)
    out.add('FR-F3', PARSE_SECTION, 'order:skip<header<parser', loc_of(ft['sp']), ok,
            '' if ok else 'the skip test must dominate the header test, which must dominate the parser call',
            ordinal=False)
    # the three calls receive the same line (the Ok(Some(line)) payload of read_line)
    same = True
    srcs = []
    for t in (st, ht, ft):
        a = t['args'][-1]
        l = op_local(a)
        from facts import resolve_ref
        pl = resolve_ref(ps, l) if l is not None else None
        srcs.append(place_key(pl) if pl else None)
    same = srcs[0] is not None and srcs[0] == srcs[1] == srcs[2]
    out.add('FR-F3', PARSE_SECTION, 'same-line', loc_of(ft['sp']), same,
            '' if same else 'skip test, header test and parser do not receive the same line (%s)' % srcs,
            ordinal=False)
    # true edge of the skip test goes back to read_line without any other call
    tsk = ps.term(st['t'])
    okskip = False
    if tsk['k'] == 'switch' and op_local(tsk['discr']) == st['dest']['l']:
        for label, tgt in ps.edges(st['t']):
            if label == 0:
                continue
            # follow until read_line call
            cur = tgt
            seen = set()
            okskip = True
            while cur not in seen:
                seen.add(cur)
                t2 = ps.term(cur)
                if t2['k'] == 'call':
                    okskip = (cur == rb)
                    break
                nx = ps.succ(cur)
                if len(nx) != 1:
                    okskip = False
                    break
                cur = nx[0]
    out.add('FR-F3', PARSE_SECTION, 'skip-edge', loc_of(st['sp']), okskip,
            '' if okskip else 'a skipped line is not simply followed by the next read_line', ordinal=False)
    # the parser is reached only on the not-a-header edge
    th = ps.term(ht['t'])
    okh = th['k'] == 'switch' or table_ok        # (the table decides the same fact independently of the block layout)
    out.add('FR-F3', PARSE_SECTION, 'header-edge', loc_of(ht['sp']), okh, '' if okh else 'header test result is not branched on',
            ordinal=False)
    # returns: Continue(next) only with next from try_from_line; Break only on Ok(None); Err from read_line
    from ed import reaching_defs_of_return
    rd = reaching_defs_of_return(ps)
    for r, defs in rd.items():
        for d in defs:
            if d == 'entry':
                continue
            bb, si = d
            if si == 'term':
                tc = ps.term(bb)
                cc = callee_of(tc)
                if cc and cc.get('trait') == 'std::ops::FromResidual' and ps.dominates(rb, bb) and \
                        'std::result::Result<std::convert::Infallible, std::io::Error>' in cc['full']:
                    out.add('FR-F4', PARSE_SECTION, 'return<-?', loc_of(tc['sp']), True)
                    continue
                out.add('FR-F4', PARSE_SECTION, 'return<-call', loc_of(tc['sp']), False,
                        'parse_section returns the value of a call')
                continue
            s = ps.blocks[bb]['st'][si]
            rv = s['rv']
            if rv['k'] == 'aggr' and rv.get('variant') == 'Err':
                ok = ps.dominates(rb, bb)
                out.add('FR-F4', PARSE_SECTION, 'return<-Err', loc_of(s['sp']), ok)
            elif rv['k'] == 'aggr' and rv.get('variant') == 'Ok':
                vd = value_def(ps, op_local(rv['ops'][0])) if op_local(rv['ops'][0]) is not None else None
                kind = None
                if vd and vd[0] == 'assign' and vd[1]['rv']['k'] == 'aggr':
                    kind = vd[1]['rv'].get('variant')
                    inner = vd[1]['rv']
                if kind == 'Continue':
                    l = op_local(inner['ops'][0])
                    src = value_def(ps, l) if l is not None else None
                    from_hdr = False
                    if src and src[0] == 'assign' and src[1]['rv']['k'] == 'use':
                        pl = op_place(src[1]['rv']['op'])
                        from_hdr = pl is not None and pl['l'] == ht['dest']['l']
                    ok = from_hdr and ps.dominates(hb, bb)
                    out.add('FR-F4', PARSE_SECTION, 'return<-Continue', loc_of(s['sp']), ok,
                            '' if ok else 'the next section does not come from the header test of the current line')
                elif kind == 'Break':
                    # only after read_line returned Ok(None): block dominated by read_line, not by skip call
                    ok = ps.dominates(rb, bb) and not ps.dominates(sb, bb)
                    out.add('FR-F4', PARSE_SECTION, 'return<-Break', loc_of(s['sp']), ok,
                            '' if ok else 'the section loop ends for a reason other than end of input')
                elif kind == 'None':
                    # `Result<Option<Section>>` form: None = end of input
                    ok = ps.dominates(rb, bb) and not ps.dominates(sb, bb)
                    out.add('FR-F4', PARSE_SECTION, 'return<-Break', loc_of(s['sp']), ok,
                            '' if ok else 'the section loop ends for a reason other than end of input')
                elif kind == 'Some' or (vd and vd[0] == 'call' and vd[1] is ht) or \
                        (vd and vd[0] == 'assign' and vd[1]['rv']['k'] == 'use' and op_place(vd[1]['rv']['op']) is not None
                         and op_place(vd[1]['rv']['op'])['l'] == ht['dest']['l']):
                    # `Ok(next)` where next is (the Some payload of) the header test of the current line
                    from_hdr = True
                    if kind == 'Some':
                        l = op_local(inner['ops'][0])
                        src = value_def(ps, l) if l is not None else None
                        from_hdr = False
                        if src and src[0] == 'assign' and src[1]['rv']['k'] == 'use':
                            pl = op_place(src[1]['rv']['op'])
                            from_hdr = pl is not None and pl['l'] == ht['dest']['l']
                    ok = from_hdr and ps.dominates(hb, bb)
                    out.add('FR-F4', PARSE_SECTION, 'return<-Continue', loc_of(s['sp']), ok,
                            '' if ok else 'the next section does not come from the header test of the current line')
                else:
                    out.add('FR-F4', PARSE_SECTION, 'return<-Ok(?)', loc_of(s['sp']), False, 'unrecognised Ok value')
            else:
                out.add('FR-F4', PARSE_SECTION, 'return<-?', loc_of(s['sp']), False, 'unrecognised return value')
    # ---- SW: the parser result cannot influence control flow beyond rejoining the loop
    start = ft.get('t')
    seen = set()
    stack = [start]
    reach_ret = None
    while stack:
        b = stack.pop()
        if b in seen or b is None:
            continue
        seen.add(b)
        t2 = ps.term(b)
        if t2['k'] == 'return':
            reach_ret = b
            break
        if b == rb:
            continue
        for s2 in ps.succ(b):
            stack.append(s2)
    ok = reach_ret is None
    out.add('SW', PARSE_SECTION, 'parser-result', loc_of(ft['sp']), ok,
            '' if ok else ('after a section parser returns, the driver can leave the section loop without reading the '
                           'next line (return at %s): a parser error may abort or redirect the parse'
                           % loc_of(ps.term(reach_ret)['sp'])), ordinal=False)
    # the result local is only dropped / inspected, never moved into _0 or a call that returns
    rl = ft['dest']['l']
    uses = []
    for bi in seen:
        blk = ps.blocks[bi]
        for s in blk['st']:
            if s['k'] == 'assign' and ("'l': %d," % rl) in repr(s['rv']) and s['pl']['l'] == 0:
                uses.append(loc_of(s['sp']))
    out.add('SW', PARSE_SECTION, 'parser-result-not-returned', loc_of(ft['sp']), not uses,
            '' if not uses else 'the parser result flows into the return value at %s' % uses, ordinal=False)


def check_parse_first(facts, pf, out):
    hdr = _calls_named(pf, lambda c: c['path'] == TRY_FROM_LINE)
    rdl = _calls_named(pf, lambda c: facts.ref_name(c) == 'read_line')
    import linetable
    hpf = facts.hir.get(PARSE_FIRST)
    trows = linetable.first_section_table(facts, hpf) if hpf is not None else [('first:table', False, 'not found')]
    for lbl, okt, whyt in trows:
        out.add('FR-F4', PARSE_FIRST, 'line-table:' + lbl, '%s:%d' % (pf.file, pf.line), okt, whyt, ordinal=False)
    table_ok = all(x[1] for x in trows)
    mir_shape = len(hdr) >= 1 and len(rdl) == 1
    out.anchor('FR', 'parse_first_section: header tests / read_line', mir_shape or table_ok,
               'header=%d read_line=%d table=%s' % (len(hdr), len(rdl), table_ok))
    if not mir_shape:
        if table_ok:
            for lbl in ('return<-?', 'return<-Ok', 'return<-Ok#1', 'return<-Ok#2'):
                out.add('FR-F4', PARSE_FIRST, lbl, '%s:%d' % (pf.file, pf.line), True, '', {'via': 'line table'}, ordinal=False)
            out.anchor('FR', 'parse_first_section returns', True, 'table')
        return
    rb, rt = rdl[0]
    hdr_dests = {t['dest']['l']: bb for bb, t in hdr}
    from ed import reaching_defs_of_return
    rd = reaching_defs_of_return(pf)
    n = 0
    for r, defs in rd.items():
        for d in defs:
            if d == 'entry':
                continue
            bb, si = d
            if si == 'term':
                tc = pf.term(bb)
                cc = callee_of(tc)
                if cc and cc.get('trait') == 'std::ops::FromResidual' and pf.dominates(rb, bb) and \
                        'std::result::Result<std::convert::Infallible, std::io::Error>' in cc['full']:
                    out.add('FR-F4', PARSE_FIRST, 'return<-?', loc_of(tc['sp']), True)
                    n += 1
                    continue
                out.add('FR-F4', PARSE_FIRST, 'return<-call', loc_of(tc['sp']), False, 'returns the value of a call')
                continue
            s = pf.blocks[bb]['st'][si]
            rv = s['rv']
            n += 1
            if rv['k'] == 'aggr' and rv.get('variant') == 'Err':
                out.add('FR-F4', PARSE_FIRST, 'return<-Err', loc_of(s['sp']), pf.dominates(rb, bb))
                continue
            if rv['k'] == 'aggr' and rv.get('variant') == 'Ok':
                l = op_local(rv['ops'][0])
                vd = value_def(pf, l) if l is not None else None
                ok = False
                why = 'first section is not the result of a header test'
                if vd and vd[0] == 'call' and vd[1]['dest']['l'] in hdr_dests:
                    ok = True
                elif vd and vd[0] == 'assign' and vd[1]['rv']['k'] == 'aggr' and vd[1]['rv'].get('variant') == 'Some':
                    l2 = op_local(vd[1]['rv']['ops'][0])
                    src = value_def(pf, l2) if l2 is not None else None
                    if src and src[0] == 'assign' and src[1]['rv']['k'] == 'use':
                        pl = op_place(src[1]['rv']['op'])
                        ok = pl is not None and pl['l'] in hdr_dests
                elif vd and vd[0] == 'assign' and vd[1]['rv']['k'] == 'aggr' and vd[1]['rv'].get('variant') == 'None':
                    ok = pf.dominates(rb, bb)
                    why = 'Ok(None) is returned for a reason other than end of input'
                    # must not be dominated by a header test of the read line
                    for hl, hb in hdr_dests.items():
                        if pf.dominates(rb, hb) and pf.dominates(hb, bb):
                            ok = False
                elif vd and vd[0] == 'assign' and vd[1]['rv']['k'] == 'use':
                    pl = op_place(vd[1]['rv']['op'])
                    ok = pl is not None and pl['l'] in hdr_dests
                out.add('FR-F4', PARSE_FIRST, 'return<-Ok', loc_of(s['sp']), ok, '' if ok else why)
    out.anchor('FR', 'parse_first_section returns', n >= 3, '%d' % n)


# ------------------------------------------------------------------------------ F5 (C04)

def section_writers(facts):
    """header text -> function whose own first write starts with `[header]` (found by what it
    writes, not by its name)"""
    res = {}
    for path, h2 in facts.hir.items():
        if not path.startswith('encode::'):
            continue
        evs2 = [e for e in H.write_events(h2) if e['kind'] in ('fmt', 'bytes')]
        if not evs2:
            continue
        txt = H.event_text(evs2[0])
        if txt is None:
            continue
        mm = re.match(r'\[([^\]\n]*)\]\n', txt)
        if mm and not evs2[0]['conds']:
            res.setdefault(mm.group(1), []).append(path)
    return res


def run_encode_framing(facts, out, tab=None):
    if tab is None:
        o2 = type(out)()
        tab = header_table(facts, o2)
    enc = 'encode::<impl beatmap::Beatmap>::encode'
    hfn = facts.hir.get(enc)
    out.anchor('FR', 'Beatmap::encode (HIR)', hfn is not None)
    if hfn is None:
        return
    # a `for` over a literal array of section writers is the sequence of its elements
    unrolled = H.unroll_literal_loops(hfn)
    real_key = hfn.get('path', enc)
    try:
        if unrolled['body'] != hfn['body']:
            # the elements are called through a small driver helper: look at it in place (closures applied), but leave the
            # section writers themselves as calls
            keep = tuple(w for ws in section_writers(facts).values() for w in ws)
            unrolled = H.inlined_fn(facts, unrolled, depth=2, keep=keep)
            unrolled['body'] = H._beta(unrolled['body'])
            dict.__setitem__(facts.hir, real_key, unrolled)
        evs = H.flat_write_events(facts, enc)
    finally:
        dict.__setitem__(facts.hir, real_key, hfn)
    inits = {}
    for f in {e['fn'] for e in evs}:
        inits[f] = H.binding_inits(facts.hir[f])
    wevs = [e for e in evs if e['kind'] in ('fmt', 'bytes')]
    first = wevs[0] if wevs else None
    ok = bool(first and first['kind'] == 'fmt' and first['pieces'][:1] == [('lit', 'osu file format v')]
              and first['args'] and H.roots_of(first['args'][0], inits[first['fn']]) == {'format_version'}
              and first['pieces'][-1] == ('lit', '\n') and not first['conds'])
    out.add('FR-F5', enc, 'version-line-first', 'src/encode.rs:%d' % (first['ln'] if first else 0), ok,
            '' if ok else 'the first thing written is not the unconditional line `osu file format v{format_version}`',
            ordinal=False)
    # headers in the flattened stream
    stream_headers = []
    for e in wevs:
        txt = H.event_text(e)
        if txt is None:
            continue
        for line in txt.split('\n'):
            mm = re.fullmatch(r'\[([^\]]*)\]', line.strip())
            if mm:
                stream_headers.append((mm.group(1), e))
    names = [h for h, _e in stream_headers]
    cond = [h for h, e in stream_headers if e['conds']]
    ok = names == CANONICAL_ORDER and not cond
    out.add('FR-F5', enc, 'section-order', 'src/encode.rs:%d' % (stream_headers[0][1]['ln'] if stream_headers else 0), ok,
            '' if ok else ('section headers are written as %s%s; the canonical order (each exactly once, unconditionally) '
                           'is %s') % (names, ' (conditionally/in a loop: %s)' % cond if cond else '', CANONICAL_ORDER),
            ordinal=False)
    for h, e in stream_headers:
        okh = tab.get(h) == HEADER_TO_VARIANT.get(h)
        out.add('FR-F5', e['fn'], 'header:' + h, 'src/encode.rs:%d' % e['ln'], okh,
                '' if okh else 'header `[%s]` is written but the decoder does not open a section for it' % h, ordinal=False)
    # a header must start its own line: the previous written text ends with a newline
    prev_txt = ''
    for e in wevs:
        txt = H.event_text(e)
        if txt is None:
            prev_txt = '?'
            continue
        mm = re.match(r'\[([^\]\n]*)\]\n', txt)
        if mm:
            okl = prev_txt.endswith('\n')
            out.add('FR-F5', e['fn'], 'header-line-start:' + mm.group(1), 'src/encode.rs:%d' % e['ln'], okl,
                    '' if okl else 'header `[%s]` does not start a new line' % mm.group(1), ordinal=False)
        prev_txt = txt if txt else prev_txt
    # stray headers: bracketed header literals in encoder functions outside the stream
    in_stream = {(e['fn'], e['ln']) for _h, e in stream_headers}
    for path, h2 in facts.hir.items():
        if not path.startswith('encode::'):
            continue
        for e in H.write_events(h2):
            if e['kind'] not in ('fmt', 'bytes'):
                continue
            txt = H.event_text(e)
            if txt is None:
                continue
            for line in txt.split('\n'):
                mm = re.fullmatch(r'\[([^\]]*)\]', line.strip())
                if mm and (path, e['ln']) not in in_stream:
                    out.add('FR-F5', path, 'stray-header:' + mm.group(1), 'src/encode.rs:%d' % e['ln'], False,
                            'a bracketed header `[%s]` is written outside the section sequence of Beatmap::encode' % mm.group(1))
    last = evs[-1] if evs else None
    okf = bool(last and last['kind'] == 'flush' and not last['conds'])
    out.add('FR-F5', enc, 'flush-last', 'src/encode.rs:%d' % (last['ln'] if last else 0), okf,
            '' if okf else 'flush is not the last writer action', ordinal=False)
