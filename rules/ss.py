"""SS: sibling agreement and small structural rules (C12, C13, C14, C15, C18, C19, C20)."""
import hirutil as H
from hp import (project_field, unique_inits, ANY_FIELD, INDEX, Ctx, ANY, K, L, F, M, C, BIN, UN, CAST, TRY, P, VIA, OR, IF, CONTAINS, find, strip, canon,
                struct_field_inits)
from facts import callee_of, op_local, op_place, place_key, resolve_ref, value_def, field_path
from common import loc_of

TPD = 'section::timing_points::decode::'
CP = 'section::timing_points::control_points::'
KINDS = {
    'timing': (CP + 'timing::TimingPoint', 'timing_points'),
    'difficulty': (CP + 'difficulty::DifficultyPoint', 'difficulty_points'),
    'effect': (CP + 'effect::EffectPoint', 'effect_points'),
    'sample': (CP + 'sample::SamplePoint', 'sample_points'),
}
LOOKUP_FALLBACK = {'difficulty': 'checked_sub', 'effect': 'checked_sub', 'timing': 'saturating_sub',
                   'sample': 'saturating_sub'}


def _closure_cmp(ctx, e):
    """closure `|probe| probe.time.total_cmp(&X)` -> expression X, or None"""
    e = strip(e)
    if not (isinstance(e, dict) and e.get('k') == 'closure'):
        return None
    body = strip(e['body'])
    if isinstance(body, dict) and body.get('k') == 'mcall' and body.get('name') == 'total_cmp':
        recv = strip(body['recv'])
        if recv.get('k') == 'field' and recv.get('n') == 'time':
            return strip(body['args'][0])
        if recv.get('k') == 'mcall' and not recv.get('args') and (
                recv.get('name') in ('time', 'timestamp') or _is_time_accessor(ctx.facts, recv.get('name'))):
            return strip(body['args'][0])       # `probe.time()` accessor of a private trait
        return False
    return False


def _is_time_accessor(facts, name):
    """every crate-local impl of the zero-argument method `name` returns `self.time`"""
    impls = [h for p, h in facts.hir.items() if p.endswith('>::' + str(name))]
    if not impls:
        return False
    for h in impls:
        body = h['body']
        tail = strip(body.get('expr') if body.get('k') == 'block' and not body.get('stmts') else body)
        if not (isinstance(tail, dict) and tail.get('k') == 'field' and tail.get('n') == 'time' and
                strip(tail['e']).get('k') == 'local' and strip(tail['e']).get('name') == 'self'):
            return False
    return True


# ------------------------------------------------------------------------------ C13

def run_c13(facts, out):
    for kind, (ty, lst) in KINDS.items():
        fn = '<%s as %sControlPoint<%sControlPoints>>::add' % (ty, TPD, TPD)
        hfn = facts.hir.get(fn)
        out.anchor('SS-C13', 'add impl of ' + kind, hfn is not None, fn)
        if hfn is None:
            continue
        # a shared private helper (`insert_or_replace(list, point, cmp)`) is analysed in place
        hfn = {'path': hfn['path'], 'params': hfn.get('params', []), 'body': _inlined_body(facts, hfn)}
        ctx = Ctx(facts, H.binding_inits(hfn), hfn)
        b = facts.body(fn)
        where = '%s:%d' % (b.file, b.line)
        # match control_points.<lst>.binary_search_by(|p| p.time.total_cmp(&self.time)) { Err(i) => insert(i, self), Ok(i) => [i] = self }
        ms = []

        def visit(n, anc):
            if n.get('k') == 'match' and not n.get('src', '').startswith('TryDesugar'):
                ms.append(n)
        H.walk(hfn['body'], visit)
        ok = False
        why = 'add is not a single `match list.binary_search_by(..)`'
        if len(ms) == 1:
            mm = ms[0]
            sc = strip(mm['scrut'])
            why = ''
            if not (sc.get('k') == 'mcall' and sc.get('name') == 'binary_search_by'):
                why = 'insertion position is not found with binary_search_by'
            else:
                fc = H.field_chain(strip(sc['recv']))
                if not fc or fc[1] != [lst]:
                    why = 'searches `%s` instead of its own list `%s`' % ('.'.join(fc[1]) if fc else '?', lst)
                cmpx = _closure_cmp(ctx, sc['args'][0])
                if cmpx is None or cmpx is False:
                    why = why or 'comparator is not `probe.time.total_cmp(..)` (a total order on time is required)'
                elif not OR(F(L('self'), 'time'), M('time', L('self')), M('timestamp', L('self'))).m(ctx, cmpx):
                    why = why or 'comparator does not compare against the new point\'s own time'
                arms = {}
                for a in mm['arms']:
                    arms[_pat_name(a['pat'])] = a
                if set(arms) != {'Ok', 'Err'}:
                    why = why or 'match does not have exactly the arms Ok(i) / Err(i)'
                else:
                    ib = [x for x in H.pat_bindings(arms['Err']['pat'])]
                    ob = [x for x in H.pat_bindings(arms['Ok']['pat'])]
                    e_body = strip(arms['Err']['body'])
                    o_body = strip(arms['Ok']['body'])
                    okE = (e_body.get('k') == 'mcall' and e_body.get('name') == 'insert' and ib and
                           L(ib[0]).m(ctx, e_body['args'][0]) and L('self').m(ctx, e_body['args'][1]) and
                           (H.field_chain(strip(e_body['recv'])) or (None, None))[1] == [lst])
                    if not okE:
                        why = why or 'Err(i) arm is not `%s.insert(i, self)` on the searched list' % lst
                    okO = (o_body.get('k') == 'assign' and strip(o_body['l']).get('k') == 'index' and ob and
                           L(ob[0]).m(ctx, strip(o_body['l'])['i']) and L('self').m(ctx, o_body['r']) and
                           (H.field_chain(strip(strip(o_body['l'])['e'])) or (None, None))[1] == [lst])
                    if not okO:
                        why = why or 'Ok(i) arm does not replace `%s[i]` with the new point (one point per time)' % lst
            # nothing else may put a point into the list (an append fast path, a second insert, ...)
            muts = []

            def vis_m(n, anc):
                if n.get('k') == 'mcall' and n.get('name') in ('push', 'insert', 'append', 'extend', 'extend_from_slice',
                                                               'push_front', 'splice', 'resize', 'swap', 'remove',
                                                               'truncate', 'clear', 'retain', 'sort_by', 'dedup_by'):
                    fc3 = H.field_chain(strip(n['recv']))
                    if fc3 and fc3[1] == [lst]:
                        muts.append(n.get('name'))
            H.walk(hfn['body'], vis_m)
            if muts != ['insert']:
                why = why or ('the list is also modified by %s: only `insert` at the searched position / replacement of the '
                              'found element keep it strictly ordered with one point per time' % sorted(set(muts) - {'insert'} or muts))
            ok = not why
        out.add('SS-C13', fn, 'sorted-insert-or-replace', where, ok, why, ordinal=False)
    # ControlPoints::add : check_already_existing first, insert only on false
    fn = TPD + 'ControlPoints::add'
    hfn = facts.hir.get(fn)
    out.anchor('SS-C13', 'ControlPoints::add', hfn is not None)
    if hfn is not None:
        ctx = Ctx(facts, H.binding_inits(hfn), hfn)
        pat = IF(UN('Not', M('check_already_existing', L('point'), L('self'))), CONTAINS(M('add', L('point'), L('self'))))
        hits = find(ctx, hfn['body'], pat)
        adds = find(ctx, hfn['body'], M('add', L('point'), L('self')))
        ok = len(hits) >= 1 and len(adds) == 1
        if not ok:
            # any spelling: on every path the point's `add` runs exactly when its redundancy test ran before and said no
            import symeval as SE
            try:
                paths = SE.call_paths(hfn, ('check_already_existing', 'add'))
                good = bool(paths)
                n_add = 0
                for conds, calls in paths:
                    tested = [pol for c, pol in conds if c[0] == 'e' and 'check_already_existing' in repr(c[1])[:2000]]
                    # polarity of the test as written (a leading `!` flips it)
                    flips = [str(strip(c[1]).get('k')) == 'unary' for c, pol in conds
                             if c[0] == 'e' and 'check_already_existing' in repr(c[1])[:2000]]
                    redundant = None
                    if tested:
                        redundant = tested[0] if not flips[0] else not tested[0]
                    if 'add' in calls:
                        n_add += 1
                        if redundant is not False or calls.count('add') != 1:
                            good = False
                    elif redundant is False:
                        good = False            # not redundant but not added
                ok = good and n_add >= 1
            except SE.Stop:
                pass
        b = facts.body(fn)
        out.add('SS-C13', fn, 'redundancy-test-first', '%s:%d' % (b.file, b.line), ok,
                '' if ok else 'a point is inserted without (or before) the redundancy test', ordinal=False)
    # check_already_existing per kind
    exp = {
        'timing': lambda ctx, hfn: (_ret_is(ctx, hfn, K(False)), 'timing points are never redundant'),
        'difficulty': lambda ctx, hfn: (_cae_lookup(ctx, hfn, 'difficulty_point_at', CP + 'difficulty::DifficultyPoint'), ''),
        'effect': lambda ctx, hfn: (_cae_lookup(ctx, hfn, 'effect_point_at', CP + 'effect::EffectPoint'), ''),
        'sample': lambda ctx, hfn: (_cae_sample(ctx, hfn), ''),
    }
    for kind, (ty, lst) in KINDS.items():
        fn = '<%s as %sControlPoint<%sControlPoints>>::check_already_existing' % (ty, TPD, TPD)
        hfn = facts.hir.get(fn)
        out.anchor('SS-C13', 'check_already_existing of ' + kind, hfn is not None)
        if hfn is None:
            continue
        ctx = Ctx(facts, H.binding_inits(hfn), hfn)
        res, _ = exp[kind](ctx, hfn)
        ok, why = res if isinstance(res, tuple) else (res, '')
        if not ok:
            # any spelling: the function's result as a decision tree
            try:
                tok, twhy = _cae_tree(facts, hfn, kind, lst, ty)
            except Exception:
                tok, twhy = False, ''
            if tok:
                ok, why = True, ''
        if not ok:
            # the search may live in a shared private helper: same question with it inlined (closures beta-reduced)
            for dpt in (1, 2):
                vh = H.inlined_fn(facts, hfn, depth=dpt, keep=('is_redundant', '_point_at'))
                c2 = Ctx(facts, H.binding_inits(vh), vh)
                res2, _ = exp[kind](c2, vh)
                ok2, why2 = res2 if isinstance(res2, tuple) else (res2, '')
                if ok2:
                    ok, why = True, ''
                    break
        b = facts.body(fn)
        out.add('SS-C13', fn, 'redundancy:' + kind, '%s:%d' % (b.file, b.line), ok,
                why if not ok else '', ordinal=False)
    # lookups
    for kind, (ty, lst) in KINDS.items():
        fn = TPD + 'ControlPoints::%s_point_at' % kind
        hfn = facts.hir.get(fn)
        out.anchor('SS-C13', 'lookup ' + kind, hfn is not None)
        if hfn is None:
            continue
        b = facts.body(fn)
        where = '%s:%d' % (b.file, b.line)
        why = _check_lookup(facts, hfn, kind, lst)
        out.add('SS-C13', fn, 'lookup', where, not why, why, ordinal=False)


def _cae_tree(facts, hfn, kind, lst, ty):
    """check_already_existing as a decision tree (symeval), for any spelling:
       timing:            false
       difficulty/effect: lookup(self.time) is Some(p) -> self.is_redundant(p); None -> self.is_redundant(&T::default())
       sample:            binary search of the sample list for self.time: Ok(i) -> is_redundant(&list[i]);
                          Err(0) -> false; Err(i) -> is_redundant(&list[i - 1])"""
    import symeval as SE
    for dpt in (0, 1, 2):
        vh = hfn if dpt == 0 else H.inlined_fn(facts, hfn, depth=dpt, keep=('is_redundant', '_point_at'))
        ctx = Ctx(facts, H.binding_inits(vh), vh)
        ev = SE.SymEval(None, budget=6000)
        body = vh['body']
        try:
            tree = ev.seq(list(body.get('stmts', [])), body.get('expr'), {},
                          lambda env, tail: ev.value(tail, env) if tail is not None else ('v', {'k': 'unit'}),
                          kret=lambda vt, env=None: vt)
        except SE.Stop:
            continue
        lv = SE.leaves(tree)
        SELF = L('self')
        TIME = F(SELF, 'time')
        good = True
        if kind == 'timing':
            good = all(ctx.const_value(l) is False for _p, l in lv) and bool(lv)
        elif kind in ('difficulty', 'effect'):
            look = M(kind + '_point_at', ANY(), TIME)
            n_some = n_none = 0
            for path, leaf in lv:
                some = None
                for c, pol in path:
                    if c[0] == 'pat' and look.m(ctx, c[2]) and 'Some' in repr(c[1])[:400]:
                        some = pol
                        bound = H.pat_bindings(c[1])
                    elif c[0] == 'pat' and look.m(ctx, c[2]) and 'None' in repr(c[1])[:400]:
                        some = not pol
                        bound = []
                    else:
                        some = some if some is not None else None
                        if some is None and c[0] in ('e', 'pat'):
                            good = False         # a test on anything else
                if some is True:
                    n_some += 1
                    if not (M('is_redundant', SELF, ANY()).m(ctx, leaf) and
                            isinstance(strip(strip(leaf)['args'][0]), dict) and strip(strip(leaf)['args'][0]).get('k') == 'local'
                            and strip(strip(leaf)['args'][0]).get('name') in (bound or ['__x'])):
                        good = False
                elif some is False:
                    n_none += 1
                    if not M('is_redundant', SELF, C('default')).m(ctx, leaf):
                        good = False
                else:
                    good = False
            good = good and n_some == 1 and n_none == 1
        else:
            search = M('binary_search_by', F(ANY(), lst), ANY())
            cases = {}
            for path, leaf in lv:
                case = None
                idx_name = None
                sigs = []
                for c, pol in path:
                    if c[0] == 'pat' and search.m(ctx, c[2]):
                        sg = repr(c[1])
                        is_ok = "'name': 'Ok'" in sg
                        is_err0 = "'name': 'Err'" in sg and "'v': 0" in sg
                        is_err = "'name': 'Err'" in sg and not is_err0
                        sigs.append(('ok' if is_ok else 'err0' if is_err0 else 'err', pol, H.pat_bindings(c[1])))
                    else:
                        good = False
                pos = [x for x in sigs if x[1]]
                if pos:
                    case, _pl, bound = pos[-1]
                else:
                    neg = {x[0] for x in sigs}
                    case = ({'ok', 'err0', 'err'} - neg)
                    case = next(iter(case)) if len(case) == 1 else None
                    bound = []
                cases.setdefault(case, []).append((leaf, bound))
            if set(cases) != {'ok', 'err0', 'err'} or any(len(v) != 1 for v in cases.values()):
                good = False
            else:
                lk, bk = cases['ok'][0]
                le, be = cases['err'][0]
                l0, _b0 = cases['err0'][0]
                good = good and ctx.const_value(l0) is False
                anyloc = lambda names: (L(names[0]) if names else ANY())
                good = good and M('is_redundant', SELF, INDEX(F(ANY(), lst), anyloc(bk))).m(ctx, lk) and \
                    strip(strip(strip(lk)['args'][0])['i']).get('k') == 'local'
                good = good and M('is_redundant', SELF, INDEX(F(ANY(), lst), BIN('Sub', anyloc(be), K(1)))).m(ctx, le)
            # the search itself: on the sample list, by total_cmp against self.time
            if good:
                good = bool(find(ctx, vh['body'], M('binary_search_by', F(ANY(), lst), CONTAINS(M('total_cmp', F(ANY(), 'time'), TIME)))))
        if good:
            return True, ''
    return False, ''


def _inlined_body(facts, hfn):
    """the function body with calls of crate-local helpers inlined (see hirutil.inline_calls)"""
    return H.inline_calls(facts, hfn, depth=2)


def _check_lookup(facts, hfn, kind, lst):
    body = _inlined_body(facts, hfn)
    vh = {'path': hfn['path'], 'params': hfn.get('params', []), 'body': body}
    ctx = Ctx(facts, H.binding_inits(vh), vh)
    bs = find(ctx, body, M('binary_search_by', ANY(), ANY()))
    # a block whose only content is the call (an inlined one-line helper) is the call
    seen_ids, uniq = set(), []
    for hit in bs:
        if id(strip(hit[0])) not in seen_ids:
            seen_ids.add(id(strip(hit[0])))
            uniq.append(hit)
    bs = uniq
    if len(bs) != 1:
        return 'lookup does not use exactly one binary_search_by'
    why = ''
    n = strip(bs[0][0])
    def unalias(e):
        e = strip(e)
        for _ in range(4):
            # `let points = &self.timing_points;` -- an alias of the list
            if isinstance(e, dict) and e.get('k') == 'local' and e.get('name') != 'self':
                its = unique_inits(ctx, e['name'])
                if len(its) == 1:
                    e = strip(its[0])
                    continue
            break
        return e
    recv = unalias(n['recv'])
    fc = H.field_chain(recv)
    if not fc or fc[0] != 'self' or fc[1] != [lst]:
        why = 'lookup searches `%s` instead of `%s`' % ('.'.join(fc[1]) if fc else '?', lst)
    cmpx = _closure_cmp(ctx, n['args'][0])
    params = set()
    for prm in hfn.get('params', []):
        params.update(H.pat_bindings(prm))
    if cmpx is None or cmpx is False or strip(cmpx).get('k') != 'local':
        why = why or 'lookup comparator is not `probe.time.total_cmp(&time)`'
    else:
        # ... and `time` is the parameter itself, not a re-bound (clamped, shifted) value
        nm = strip(cmpx).get('name')
        if nm not in params or nm == 'self' or ctx.inits.get(nm):
            why = why or ('the lookup searches for a value derived from the time asked for (`%s` is re-bound '
                          'before the search), not for that time itself' % nm)
    fb = LOOKUP_FALLBACK[kind]
    other = 'saturating_sub' if fb == 'checked_sub' else 'checked_sub'
    has = find(ctx, body, M(fb, ANY(), K(1)))
    hasnt = find(ctx, body, M(other, ANY(), ANY()))
    if not has and not hasnt and _lookup_tree(ctx, vh, lst, fb):
        has = True          # the same fallback spelled as arms over the search result
    if not has or hasnt:
        why = why or ('before the first point the %s lookup must %s; found `%s`' % (
            kind, 'return nothing (checked_sub)' if fb == 'checked_sub' else 'return the first point (saturating_sub)',
            other if hasnt else 'neither'))
    used = set()

    def visit(x, anc):
        if x.get('k') == 'index':
            fc2 = H.field_chain(unalias(x['e']))
            if fc2:
                used.add(tuple(fc2[1]))
        if x.get('k') == 'mcall' and x.get('name') == 'get':
            fc2 = H.field_chain(unalias(x['recv']))
            if fc2:
                used.add(tuple(fc2[1]))
    H.walk(body, visit)
    if used != {(lst,)}:
        why = why or 'the found index is applied to %s instead of `%s`' % (sorted(used), lst)
    return why


def _lookup_tree(ctx, vh, lst, fb):
    """the lookup as a decision tree over the search result: Ok(i) -> element i; Err(0) -> nothing (checked_sub) or the
    first element (saturating_sub); Err(i) -> element i - 1"""
    import symeval as SE
    ev = SE.SymEval(None, budget=6000)
    body = vh['body']
    try:
        tree = ev.seq(list(body.get('stmts', [])), body.get('expr'), {},
                      lambda env, tail: ev.value(tail, env) if tail is not None else ('v', {'k': 'unit'}),
                      kret=lambda vt, env=None: vt)
    except SE.Stop:
        return False
    search = M('binary_search_by', F(ANY(), lst), ANY())
    cases = {}
    for path, leaf in SE.leaves(tree):
        sigs = []
        for c, pol in path:
            if c[0] == 'pat' and search.m(ctx, c[2]):
                sg = repr(c[1])
                is_ok = "'name': 'Ok'" in sg
                is_err0 = "'name': 'Err'" in sg and "'v': 0" in sg
                sigs.append(('ok' if is_ok else 'err0' if is_err0 else 'err', pol))
            else:
                return False
        pos = [x for x in sigs if x[1]]
        if pos:
            case = pos[-1][0]
        else:
            rest = {'ok', 'err0', 'err'} - {x[0] for x in sigs}
            case = next(iter(rest)) if len(rest) == 1 else None
        cases.setdefault(case, []).append(leaf)
    if set(cases) != {'ok', 'err0', 'err'} or any(len(v) != 1 for v in cases.values()):
        return False
    elem = lambda idx: OR(C('Some', INDEX(F(ANY(), lst), idx)), M('get', F(ANY(), lst), idx))
    lk, l0, le = cases['ok'][0], cases['err0'][0], cases['err'][0]
    ok = elem(ANY()).m(ctx, lk) and elem(BIN('Sub', ANY(), K(1))).m(ctx, le)
    if fb == 'checked_sub':
        ok = ok and P('None').m(ctx, l0)
    else:
        ok = ok and (elem(K(0)).m(ctx, l0) or M('first', F(ANY(), lst)).m(ctx, l0))
    return ok


def _pat_name(p):
    if p.get('k') in ('ptstruct', 'pstruct'):
        return p.get('path', {}).get('name')
    if p.get('k') == 'pexpr':
        return p.get('e', {}).get('name')
    if p.get('k') == 'path':
        return p.get('name')
    return None


def _ret_is(ctx, hfn, pat):
    body = hfn['body']
    tail = body.get('expr') if body.get('k') == 'block' else body
    ok = tail is not None and pat.m(ctx, tail)
    return (ok, '' if ok else 'unexpected body')


def _cae_lookup(ctx, hfn, lookup, ty):
    """exact idiom: `match control_points.<lookup>(self.time) { Some(e) => self.is_redundant(e),
    None => self.is_redundant(&T::default()) }` as the whole body (any other shape: cannot establish)"""
    body = hfn['body']
    tail = strip(body.get('expr') if body.get('k') == 'block' and not body.get('stmts') else body)
    if not (isinstance(tail, dict) and tail.get('k') == 'match'):
        return (False, 'redundancy test is not a single `match %s(self.time)`; the active point or, when there is '
                       'none, the default point must decide (cannot establish this for another shape)' % lookup)
    if not M(lookup, L('control_points'), F(L('self'), 'time')).m(ctx, tail['scrut']):
        return (False, 'redundancy is not tested against `%s(self.time)`' % lookup)
    arms = {}
    for a in tail['arms']:
        arms[_pat_name(a['pat'])] = a
    if set(arms) != {'Some', 'None'} or any('guard' in a for a in tail['arms']):
        return (False, 'the lookup result must be matched as Some(existing) / None without guards')
    sb = H.pat_bindings(arms['Some']['pat'])
    if not sb or not M('is_redundant', L('self'), L(sb[0])).m(ctx, arms['Some']['body']):
        return (False, 'an active point exists but the new point is not compared with it')
    if not M('is_redundant', L('self'), C('default')).m(ctx, arms['None']['body']):
        return (False, 'when no point is active the new point must be compared with the default point')
    return (True, '')


def _cae_sample(ctx, hfn):
    bs = find(ctx, hfn['body'], M('binary_search_by', ANY(), ANY()))
    if len(bs) != 1:
        return (False, 'sample redundancy does not search the sample list')
    n = strip(bs[0][0])
    fc = H.field_chain(strip(n['recv']))
    if not fc or fc[1] != ['sample_points']:
        return (False, 'sample redundancy searches another list')
    if not find(ctx, hfn['body'], M('checked_sub', L('i'), K(1))):
        return (False, 'before the first sample point nothing is redundant (checked_sub expected)')
    none_false = bool(find(ctx, hfn['body'], M('map_or', ANY(), K(False), ANY())))
    if not none_false:
        def vm(n, anc, acc=[]):
            return None
        for (n, _a) in find(ctx, hfn['body'], ANY()):
            n = strip(n)
            if isinstance(n, dict) and n.get('k') == 'match' and not n.get('src', '').startswith('TryDesugar'):
                for a in n['arms']:
                    if _pat_name(a['pat']) == 'None' and K(False).m(ctx, a['body']):
                        none_false = True
    if not none_false:
        return (False, 'no existing sample point must mean "not redundant"')
    if not find(ctx, hfn['body'], M('is_redundant', L('self'), ANY())):
        return (False, 'the new sample point is not compared with the active one')
    return (True, '')


# ------------------------------------------------------------------------------ C12 structural

def _nan_guard_hir(facts, fn_path):
    """On the parser with crate-local calls inlined: every `TimingPoint::new(_, beat_len, ..)` is preceded by an
    `if [g &&] beat_len.is_nan() { return Err(..) }` that (1) is evaluated whenever the constructor is (it does not
    sit in a branch the constructor is not in; extra conjuncts g are among the constructor's own guards) and (2)
    tests the value handed to the constructor.  An early return inside an inlined helper counts only if the
    helper's result is propagated with `?` (or the constructor sits in that helper too)."""
    from hp import resolve_value
    hfn = dict.get(facts.hir, fn_path)
    if hfn is None:
        return None, 'parser not found', 0
    vh = H.inlined_fn(facts, hfn, depth=3, keep=('TimingPoint::new',))
    ctx = Ctx(facts, H.binding_inits(vh), vh)
    news, tests = [], []
    order = {}

    def visit(n, path):
        order[id(n)] = len(order)
        if n.get('k') == 'call' and n['f'].get('k') == 'path' and n['f'].get('def', '').endswith('timing::TimingPoint::new'):
            news.append((n, path))
        if n.get('k') == 'if':
            nan = []

            def conj(c, acc):
                c = strip(c)
                if isinstance(c, dict) and c.get('k') == 'binary' and c.get('op') == 'And':
                    conj(c['a'], acc)
                    conj(c['b'], acc)
                else:
                    acc.append(c)
            cs = []
            conj(n['c'], cs)
            nan = [c for c in cs if isinstance(c, dict) and c.get('k') == 'mcall' and c.get('name') == 'is_nan']
            rets = []
            H.walk(n['t'], lambda x, anc: rets.append(x) if x.get('k') == 'ret' else None)
            if len(nan) == 1 and rets and all('Err' in repr(r.get('e', {}).get('f', r.get('e', {}))) for r in rets):
                tests.append((n, path, nan[0], [c for c in cs if c is not nan[0]]))
    H.walk_paths(vh['body'], visit)
    if not news:
        return False, 'no TimingPoint::new call found in the parser or its helpers', 0

    def cond_positions(path):
        return [(id(a), k) for a, k in path if (a.get('k'), k) in COND_POS_]

    for n, npath in news:
        if len(n['args']) < 2:
            return False, 'unexpected constructor arity', len(news)
        want = canon(resolve_value(ctx, n['args'][1]))
        n_guards = [canon(resolve_value(ctx, a['c'])) for a, k in npath if a.get('k') == 'if' and k == 't']
        n_anc = {id(a) for a, k in npath}
        n_cond = set(cond_positions(npath))
        good = False
        for tnode, tpath, nan_call, extra in tests:
            if order[id(tnode)] >= order[id(n)]:
                continue
            if not set(cond_positions(tpath)) <= n_cond:
                continue
            if canon(resolve_value(ctx, nan_call['recv'])) != want:
                continue
            if any(canon(resolve_value(ctx, x)) not in n_guards for x in extra):
                continue
            # a return inside an inlined helper the constructor is not part of must be propagated by `?`
            inl = [i for i, (a, k) in enumerate(tpath) if a.get('inl') and id(a) not in n_anc]
            if inl:
                outer = tpath[:inl[0]]
                if not any(H.is_try(a) and k == 'scrut' for a, k in outer[-3:]):
                    continue
            good = True
            break
        if not good:
            return False, 'constructor call at line %s has no such test' % n.get('ln'), len(news)
    return True, '', len(news)


COND_POS_ = H.COND_POS

def run_c12(facts, out):
    with_inlined_fallback(_run_c12, facts, out,
                          '<section::timing_points::decode::TimingPoints as decode::DecodeBeatmap>::parse_timing_points',
                          keep=('add_control_point', 'TimingPoint::new', 'DifficultyPoint::new', 'EffectPoint::new',
                                'SamplePoint::new', 'parse_num', 'parse_with_limits'), depths=(0, 1, 2, 3))


def _run_c12(facts, out):
    TIMING = '<section::timing_points::decode::TimingPoints as decode::DecodeBeatmap>::parse_timing_points'
    b = facts.body(TIMING)
    out.anchor('SS-C12', 'parse_timing_points', b is not None)
    if b is not None:
        # is_nan test dominates TimingPoint::new
        nanb = [bb for bb, t in b.calls() if callee_of(t) and callee_of(t)['name'] == 'is_nan']
        newb = [(bb, t) for bb, t in b.calls() if callee_of(t) and facts.ref_path(callee_of(t)['path']) == CP + 'timing::TimingPoint::new']
        mir_ok = None
        for bb, t in newb:
            ok = False
            for nb in nanb:
                # the switch on the is_nan result: TimingPoint::new only on the false edge
                tgt = b.term(nb).get('t')
                sw = b.term(tgt) if tgt is not None else None
                if sw and sw['k'] == 'switch':
                    for lab, tg in b.edges(tgt):
                        if lab == 0 and b.dominates(tg, bb):
                            ok = True
            mir_ok = ok if mir_ok is None else (mir_ok and ok)
        hir_ok, hir_why, n_new = (None, '', 0)
        if not mir_ok or len(newb) != 1:
            # the timing point may be built in a helper (parse-then-apply pipelines): same question on the parser
            # with its crate-local calls inlined
            hir_ok, hir_why, n_new = _nan_guard_hir(facts, TIMING)
        out.anchor('SS-C12', 'TimingPoint::new call in the parser', len(newb) == 1 or n_new >= 1, '%d/%d' % (len(newb), n_new))
        if newb or n_new:
            ok = bool(mir_ok) and len(newb) == 1 or bool(hir_ok)
            sp = loc_of(newb[0][1]['sp']) if newb else '%s:%d' % (b.file, b.line)
            out.add('SS-C12', TIMING, 'nan-test-dominates-timing-point', sp, ok,
                    '' if ok else ('a timing point can be built from a NaN beat length (no dominating is_nan early exit%s)'
                                   % ('; ' + hir_why if hir_why else '')), ordinal=False)
        # scroll speed assigned only under mode in {Taiko, Mania}
        hfn = facts.hir.get(TIMING)
        ctx = Ctx(facts, H.binding_inits(hfn), hfn)
        gated = []

        def visit(n, anc):
            if n.get('k') == 'assign':
                fc = H.field_chain(n['l'])
                if fc and fc[1] == ['scroll_speed']:
                    conds = [a for a in anc if a.get('k') == 'if']
                    gated.append((n, conds))
        H.walk(hfn['body'], visit)
        okg = bool(gated)
        for n, conds in gated:
            g = False
            for c in conds:
                txt = repr(c['c'])
                if 'general::GameMode::Taiko' in txt and 'general::GameMode::Mania' in txt and \
                        'GameMode::Osu' not in txt and 'GameMode::Catch' not in txt:
                    g = True
            okg = okg and g
        out.add('SS-C12', TIMING, 'scroll-speed-mode-gated', '%s:%d' % (b.file, gated[0][0]['ln'] if gated else b.line), okg,
                '' if okg else 'scroll speed is assigned outside the `mode in {Taiko, Mania}` guard', ordinal=False)
        # the four kinds are added with (time, point, timing_change); timing only under timing_change
        adds = find(ctx, hfn['body'], M('add_control_point', L('state'), L('time'), ANY(), L('timing_change')))
        out.add('SS-C12', TIMING, 'four-adds', '%s:%d' % (b.file, b.line), len(adds) == 4,
                '' if len(adds) == 4 else '%d add_control_point(time, _, timing_change) calls instead of 4' % len(adds),
                ordinal=False)
        # every line yields a difficulty, an effect and a sample point (with defaults for omitted fields);
        # only the timing point depends on the line being a timing change
        cond_adds = []
        for n, anc in adds:
            conds = [a for a in anc if a.get('k') in ('if', 'match') and not a.get('src', '').startswith('TryDesugar')]
            if not conds:
                continue
            if len(conds) == 1 and conds[0].get('k') == 'if' and L('timing_change').m(ctx, conds[0]['c']):
                continue
            cond_adds.append(n)
        okc = len(adds) == 4 and not cond_adds and sum(
            1 for n, anc in adds if any(a.get('k') == 'if' for a in anc)) == 1
        out.add('SS-C12', TIMING, 'adds-unconditional', '%s:%d' % (b.file, cond_adds[0].get('ln', b.line) if cond_adds else b.line), okc,
                '' if okc else ('a control point is queued only under a condition other than `timing_change` for the timing '
                                'point: a line that omits optional fields must still yield difficulty, effect and sample points '
                                'with the defaults'), ordinal=False)
    # flush: all four pending kinds, and the conversion flushes before moving control_points out
    fl = TPD + 'TimingPointsState::flush_pending_points'
    hfn = facts.hir.get(fl)
    out.anchor('SS-C12', 'flush_pending_points', hfn is not None)
    if hfn is not None:
        # the four pending slots are recognised by their type (Option<TimingPoint> ..), wherever they live
        vh = H.inlined_fn(facts, hfn, depth=2, keep=('ControlPoints::add',))
        ctx = Ctx(facts, H.binding_inits(vh), vh)
        taken = set()
        for (n, _a) in find(ctx, vh['body'], M('take', ANY())):
            rty = strip(strip(n)['recv']).get('ty', '') or ''
            for kind, tyname in (('timing', 'TimingPoint'), ('difficulty', 'DifficultyPoint'), ('effect', 'EffectPoint'),
                                 ('sample', 'SamplePoint')):
                if 'Option<' in rty and rty.rstrip('>').endswith('::' + tyname):
                    taken.add(kind)
        nadd = len([1 for (n, _a) in find(ctx, vh['body'], M('add', ANY(), ANY()))
                    if (strip(n).get('def') or '').endswith('ControlPoints::add')])
        ok = len(taken) == 4 and nadd == 4
        bb = facts.body(fl)
        out.add('SS-C12', fl, 'flush-all-kinds', '%s:%d' % (bb.file, bb.line), ok,
                '' if ok else 'the pending group flush handles %s (%d adds); all four kinds must be flushed' % (sorted(taken), nadd),
                ordinal=False)
    conv = ('<section::timing_points::decode::TimingPoints as std::convert::From<'
            'section::timing_points::decode::TimingPointsState>>::from')
    cb = facts.body(conv)
    out.anchor('SS-C12', 'From<TimingPointsState>', cb is not None)
    if cb is not None:
        flb = [bb for bb, t in cb.calls() if callee_of(t) and facts.ref_path(callee_of(t)['path']) == fl]
        # first read of state.control_points
        reads = []
        for bi, blk in enumerate(cb.blocks):
            if blk.get('cleanup'):
                continue
            for s in blk['st']:
                if s['k'] == 'assign' and 'control_points' in repr(s['rv']) and "'l': 1" in repr(s['rv']):
                    reads.append(bi)
        ok = len(flb) == 1 and bool(reads) and all(cb.dominates(flb[0], r) and flb[0] != r for r in reads)
        out.add('SS-C12', conv, 'flush-before-move-out', '%s:%d' % (cb.file, cb.line), ok,
                '' if ok else 'the last pending group is not flushed before the control points are moved out',
                ordinal=False)
    # add_control_point: flush on time change; timing-change lines keep the first pending point,
    # inherited lines overwrite; the keep-first / overwrite logic may live in helpers or inline
    ac = TPD + 'TimingPointsState::add_control_point'
    hfn = facts.hir.get(ac)
    out.anchor('SS-C12', 'add_control_point', hfn is not None)
    if hfn is not None:
        ctx = Ctx(facts, H.binding_inits(hfn), hfn)
        bb = facts.body(ac)
        flushes = OR(M('flush_pending_points', ANY()), M('flush_into', ANY(), ANY()), M('flush', ANY()), M('flush', ANY(), ANY()))
        p1 = find(ctx, hfn['body'], IF(BIN('Ge', M('abs', BIN('Sub', L('time'), F(ANY(), ANY_FIELD))), ANY()), CONTAINS(flushes)))
        if not p1:
            # any method of the crate whose (inlined) body flushes the four slots
            def is_flush_call(n):
                n = strip(n)
                d = n.get('def') if n.get('k') == 'mcall' else (n['f'].get('def') if n.get('k') == 'call' and n['f'].get('k') == 'path' else None)
                return bool(d) and dict.__contains__(facts.hir, d) and 'flush' in d.rsplit('::', 1)[-1]
            for (n, _a) in find(ctx, hfn['body'], IF(BIN('Ge', M('abs', BIN('Sub', L('time'), ANY())), ANY()), ANY())):
                found = []
                H.walk(strip(n)['t'], lambda x, anc: found.append(x) if x.get('k') in ('call', 'mcall') and is_flush_call(x) else None)
                if found:
                    p1 = [(n, _a)]
        out.add('SS-C12', ac, 'flush-on-time-change', '%s:%d' % (bb.file, bb.line), bool(p1),
                '' if p1 else 'the pending group is not flushed when the time changes', ordinal=False)
        ifs = [n for (n, _a) in find(ctx, hfn['body'], IF(L('timing_change'), ANY(), ANY()))]
        ok = False
        why = 'no `if timing_change { keep first } else { overwrite }` decision found'
        for n in ifs:
            n = strip(n)
            keep = _keeps_first(facts, ctx, n['t'])
            over = _overwrites(facts, ctx, n.get('e'))
            if keep and over:
                ok = True
            else:
                why = ('same-time grouping changed: a timing-change line must keep the first pending point (%s), an '
                       'inherited line must overwrite it (%s)') % ('ok' if keep else 'not established',
                                                                   'ok' if over else 'not established')
        if not ok:
            # the same truth table as one condition: store iff `!timing_change || pending.is_none()`
            merged = IF(BIN('Or', UN('Not', L('timing_change')), M('is_none', ANY()), commutative=True), ANY())
            for (n, _a) in find(ctx, hfn['body'], merged):
                n = strip(n)
                if 'e' not in n and _overwrites(facts, ctx, n['t']):
                    ok = True
        out.add('SS-C12', ac, 'group-logic', '%s:%d' % (bb.file, bb.line), ok, '' if ok else why, ordinal=False)
        rem = find(ctx, hfn['body'], ANY())
        sets_time = False

        def vt(n, anc):
            nonlocal sets_time
            if n.get('k') == 'assign':
                fc = H.field_chain(n['l'])
                if fc and fc[1] and ('time' in fc[1][-1]) and fc[0] in ('self', 'state') and L('time').m(ctx, n['r']):
                    sets_time = True
        H.walk(hfn['body'], vt)
        out.add('SS-C12', ac, 'remembers-group-time', '%s:%d' % (bb.file, bb.line), sets_time,
                '' if sets_time else 'the time of the pending group is not remembered', ordinal=False)


def _assigns_some(ctx, e):
    """`*x = Some(point)`-like assignment inside e: returns list of (assign node, ancestors)"""
    res = []

    def v(n, anc):
        if n.get('k') == 'assign':
            r = strip(n['r'])
            if isinstance(r, dict) and r.get('k') == 'call' and r['f'].get('name') == 'Some':
                res.append((n, anc))
    H.walk(e, v)
    return res


def _helper_body(facts, e, names):
    """if e contains a method/fn call named in `names` that resolves to a local fn, its HIR"""
    found = []

    def v(n, anc):
        if n.get('k') == 'mcall' and n.get('name') in names:
            found.append(n.get('def'))
        if n.get('k') == 'call' and n['f'].get('k') == 'path' and n['f'].get('name') in names:
            found.append(n['f'].get('def'))
    H.walk(e, v)
    for d in found:
        h = facts.hir.get(d)
        if h is not None:
            return h
    return None


def _keeps_first(facts, ctx, e):
    if e is None:
        return False
    # inline: an assignment of Some(..) guarded by `<pending>.is_none()`
    for n, anc in _assigns_some(ctx, e):
        if any(a.get('k') == 'if' and M('is_none', ANY()).m(ctx, a['c']) for a in anc):
            return True
        return False
    h = _helper_body(facts, e, ('push_front',))
    if h is not None:
        c2 = Ctx(facts, H.binding_inits(h), h)
        for n, anc in _assigns_some(c2, h['body']):
            return any(a.get('k') == 'if' and M('is_none', ANY()).m(c2, a['c']) for a in anc)
    return False


def _overwrites(facts, ctx, e):
    if e is None:
        return False
    for n, anc in _assigns_some(ctx, e):
        return not any(a.get('k') == 'if' for a in anc)
    h = _helper_body(facts, e, ('push_back',))
    if h is not None:
        c2 = Ctx(facts, H.binding_inits(h), h)
        for n, anc in _assigns_some(c2, h['body']):
            return not any(a.get('k') == 'if' for a in anc)
    return False


# ------------------------------------------------------------------------------ C14 structural

def with_inlined_fallback(rule, facts, out, fn_path, keep=(), depths=(0, 1, 2)):
    """run an HIR-shaped rule; if it cannot establish something on the function as written, retry on the
    function with its crate-local helper calls inlined (depth 1, then 2) and report the best outcome"""
    from common import Out
    tries = []
    orig = dict.get(facts.hir, fn_path)
    if orig is None:
        rule(facts, out)
        return
    for dpt in depths:
        o = Out(getattr(out, 'cfg', 'x'))
        try:
            if dpt:
                dict.__setitem__(facts.hir, fn_path, H.inlined_fn(facts, orig, depth=dpt, keep=keep))
            rule(facts, o)
        finally:
            dict.__setitem__(facts.hir, fn_path, orig)
        bad = sum(1 for i in o.insts if not i.ok) + len(o.missing)
        tries.append((bad, dpt, o))
        if bad == 0:
            break
    tries.sort(key=lambda x: (x[0], x[1]))
    best = tries[0][2]
    out.insts.extend(best.insts)
    out.anchors.extend(best.anchors)
    out.missing.extend(best.missing)


def run_c14(facts, out):
    with_inlined_fallback(_run_c14, facts, out,
                          '<section::hit_objects::decode::HitObjects as decode::DecodeBeatmap>::parse_hit_objects',
                          keep=('first_object', 'last_object_was_spinner', 'has_flag', 'parse_with_limits', 'parse_num', 'convert_path_str', 'read_custom_sample_banks', 'convert_sound_type'))


def _kind_table(facts, ctx, hfn):
    """(ok, why, a byte without kind bits is rejected)"""
    import symeval as SE
    import itertools
    KIND = 'section::hit_objects::HitObjectKind'
    target = []

    def query(st, env, ev):
        # the first binding / struct field whose value has type HitObjectKind
        if isinstance(st, dict) and st.get('k') == 'slet' and 'init' in st and not target:
            ty = (strip(st['init']).get('ty') or '') if isinstance(strip(st['init']), dict) else ''
            vs = set()
            H.walk(st['init'], lambda n, a: vs.add(n['name']) if n.get('k') == 'path' and
                   n.get('def', '').startswith(KIND + '::') else None)
            if ty == KIND or len(vs) >= 2:
                t = ev.value(st['init'], env)
                target.append(t)
                return t
        return None
    ev = SE.SymEval(query, budget=60000)
    body = hfn['body']
    try:
        ev.seq(list(body.get('stmts', [])), body.get('expr'), {}, lambda env, tail: ('v', {'k': 'end'}))
    except SE.Stop:
        return False, 'the kind decision is too large to evaluate', False
    if not target:
        return False, 'no value of type HitObjectKind is computed in the line parser', False
    tree = target[0]
    FLAGS = ('CIRCLE', 'SLIDER', 'SPINNER', 'HOLD')
    VAR = {'CIRCLE': 'Circle', 'SLIDER': 'Slider', 'SPINNER': 'Spinner', 'HOLD': 'Hold'}

    def flag_of(c):
        if c[0] != 'e':
            return None
        e = strip(c[1])
        pol = True
        while isinstance(e, dict) and e.get('k') == 'unary' and e.get('op') == 'Not':
            e = strip(e['e'])
            pol = not pol
        if isinstance(e, dict) and e.get('k') in ('mcall', 'call'):
            name = e.get('name') if e['k'] == 'mcall' else e['f'].get('name')
            args = ([e['recv']] + e['args']) if e['k'] == 'mcall' else e['args']
            if name == 'has_flag' and len(args) == 2:
                a0 = strip(args[1])
                if isinstance(a0, dict) and a0.get('k') == 'path' and a0.get('name') in FLAGS and \
                        'HitObjectType' in a0.get('def', ''):
                    return a0['name'], pol
        return None

    def outcomes(t, val):
        """variants / errors reachable under the flag assignment (tests on other things: both sides)"""
        if t[0] == 'v':
            return [t[1]]
        _, c, th, el = t
        f = flag_of(c)
        if f is None:
            return outcomes(th, val) + outcomes(el, val)
        return outcomes(th if (val[f[0]] == f[1]) else el, val)

    def classify(leaf):
        if isinstance(leaf, dict) and leaf.get('k') == 'returned':
            inner = leaf.get('e')
            txt = repr(inner)
            return 'unknown-kind-error' if 'UnknownHitObjectType' in txt else 'error'
        vs = []
        H.walk(leaf if isinstance(leaf, dict) else {}, lambda n, a: vs.append(n['name']) if n.get('k') == 'path' and
               n.get('def', '').startswith(KIND + '::') else None)
        if vs:
            return vs[-1]
        txt = repr(leaf)
        if 'UnknownHitObjectType' in txt:
            return 'unknown-kind-error'
        return 'error' if ('Err' in txt or 'returned' in txt) else '?'
    rejected = True
    for bits in itertools.product((True, False), repeat=4):
        val = dict(zip(FLAGS, bits))
        first = next((VAR[f] for f in FLAGS if val[f]), None)
        got = {classify(l) for l in outcomes(tree, val)}
        if first is None:
            if got - {'unknown-kind-error', 'error'}:
                rejected = False
            if 'unknown-kind-error' not in got:
                rejected = False
            continue
        bad = got - {first, 'error', 'unknown-kind-error'}
        if bad or first not in got:
            return False, ('with kind bits %s the line becomes %s; the legacy precedence circle > slider > spinner > hold '
                           'gives %s' % ([f for f in FLAGS if val[f]], sorted(got), first)), rejected
    return True, '', rejected


def _run_c14(facts, out):
    HITOBJ = '<section::hit_objects::decode::HitObjects as decode::DecodeBeatmap>::parse_hit_objects'
    hfn = facts.hir.get(HITOBJ)
    out.anchor('SS-C14', 'parse_hit_objects (HIR)', hfn is not None)
    if hfn is None:
        return
    ctx = Ctx(facts, H.binding_inits(hfn), hfn)
    b = facts.body(HITOBJ)
    # kind decision as a table over the four kind bits (symbolic evaluation: if/else chain, match with guards,
    # early returns and helpers give the same tree)
    ok, why_k, unknown_rejected = _kind_table(facts, ctx, hfn)
    out.add('SS-C14', HITOBJ, 'kind-precedence', '%s:%d' % (b.file, b.line), ok,
            '' if ok else why_k, ordinal=False)
    node = None
    # else branch is an error
    tail_err = unknown_rejected
    out.add('SS-C14', HITOBJ, 'unknown-kind-rejected', '%s:%d' % (b.file, b.line), bool(tail_err),
            '' if tail_err else 'a type byte without a kind flag is not rejected', ordinal=False)
    # new_combo flag stripped before the kind tests; combo rules agree between circle and slider
    for field in ('new_combo', 'combo_offset'):
        ci = struct_field_inits(hfn, 'section::hit_objects::circle::HitObjectCircle', field)
        si = struct_field_inits(hfn, 'section::hit_objects::slider::HitObjectSlider', field)
        ok = len(ci) == 1 and len(si) == 1 and canon(ci[0][0]) == canon(si[0][0])
        out.add('SS-C14', HITOBJ, 'circle/slider:' + field, '%s:%d' % (b.file, ci[0][1] if ci else b.line), ok,
                '' if ok else 'circle and slider compute `%s` differently' % field, ordinal=False)
    def resolved(cx, e, depth=0):
        # the expression a field initialiser stands for: single-`let` locals and fields of a struct a helper returns
        e0 = strip(e)
        if depth < 6 and isinstance(e0, dict):
            if e0.get('k') == 'local':
                its = unique_inits(cx, e0['name'])
                if len(its) == 1 and strip(its[0]) is not e0:
                    return resolved(cx, its[0], depth + 1)
            if e0.get('k') == 'field':
                pf = project_field(cx, e0)
                if pf is not None:
                    return resolved(pf[1], pf[0], depth + 1)
        return e, cx
    nc = struct_field_inits(hfn, 'section::hit_objects::circle::HitObjectCircle', 'new_combo')
    ctx0 = ctx
    if nc:
        e, ctx = resolved(ctx0, nc[0][0])
        first = OR(M('first_object', L('state')), M('is_none', F(L('state'), 'last_object')))
        FLAG = OR(L('new_combo'), F(ANY(), 'new_combo'))       # the parsed flag, possibly a field of a small struct
        ok = bool(find(ctx, e, first)) and bool(find(ctx, e, M('last_object_was_spinner', L('state')))) \
            and bool(find(ctx, e, FLAG))
        out.add('SS-C14', HITOBJ, 'forced-new-combo', '%s:%d' % (b.file, nc[0][1]), ok,
                '' if ok else 'new_combo must be `first_object || last_object_was_spinner || flag`', ordinal=False)
    ctx = ctx0
    co = struct_field_inits(hfn, 'section::hit_objects::circle::HitObjectCircle', 'combo_offset')
    if co:
        FLAG = OR(L('new_combo'), F(ANY(), 'new_combo'))
        OFFS = OR(L('combo_offset'), F(ANY(), 'combo_offset'))
        e_co, ctx = resolved(ctx0, co[0][0])
        ok = VIA(IF(FLAG, CONTAINS(OFFS), CONTAINS(K(0)))).m(ctx, e_co)
        ctx = ctx0
        out.add('SS-C14', HITOBJ, 'combo-offset-only-with-new-combo', '%s:%d' % (b.file, co[0][1]), ok,
                '' if ok else 'combo offset must count only together with the new-combo flag', ordinal=False)
    sp = struct_field_inits(hfn, 'section::hit_objects::spinner::HitObjectSpinner', 'new_combo')
    if sp:
        ok = OR(L('new_combo'), F(ANY(), 'new_combo')).m(ctx, sp[0][0])
        out.add('SS-C14', HITOBJ, 'spinner-new-combo', '%s:%d' % (b.file, sp[0][1]), ok, '' if ok else 'spinner new_combo is not the flag', ordinal=False)
    # last_object set after success only is EA's business; here: it stores the stripped type
    la = find(ctx, hfn['body'], ANY())
    # last_object_was_spinner tests SPINNER
    fn = 'section::hit_objects::decode::HitObjectsState::last_object_was_spinner'
    h2 = facts.hir.get(fn)
    if h2 is not None:
        c2 = Ctx(facts, H.binding_inits(h2), h2)
        ok = bool(find(c2, h2['body'], M('has_flag', ANY(), P('HitObjectType::SPINNER'))))
        bb = facts.body(fn)
        out.add('SS-C14', fn, 'tests-spinner-flag', '%s:%d' % (bb.file, bb.line), ok, '' if ok else 'does not test the SPINNER flag', ordinal=False)


# ------------------------------------------------------------------------------ C15 phase order

def run_c15(facts, out):
    fn = ('<section::hit_objects::decode::HitObjects as std::convert::From<'
          'section::hit_objects::decode::HitObjectsState>>::from')
    b = facts.body(fn)
    out.anchor('SS-C15', 'From<HitObjectsState>', b is not None)
    if b is None:
        return
    sortb = [(bb, t) for bb, t in b.calls() if callee_of(t) and callee_of(t)['name'] in
             ('sort_by', 'sort_unstable_by', 'sort', 'sort_by_key', 'sort_unstable', 'sort_unstable_by_key', 'sort_by_cached_key')]
    ppb = [(bb, t) for bb, t in b.calls() if callee_of(t) and facts.ref_name(callee_of(t)) == 'post_process_breaks']
    LOOP_CALLS = ('duration_with_bufs', 'end_time_with_bufs', 'timing_point_at', 'sample_point_at')

    def does_loop_work(path, depth=0, seen=None):
        """a crate-local function that (transitively) performs the velocity / sample-point lookups"""
        seen = seen if seen is not None else set()
        b2 = facts.bodies.get(path)
        if b2 is None or path in seen or depth > 2:
            return False
        seen.add(path)
        for _bb, t2 in b2.calls():
            c2 = callee_of(t2)
            if c2 and (c2['name'] in LOOP_CALLS or (c2.get('local') and does_loop_work(c2['path'], depth + 1, seen))):
                return True
        return False
    durb = [(bb, t) for bb, t in b.calls() if callee_of(t) and (
        callee_of(t)['name'] in LOOP_CALLS or
        (callee_of(t).get('local') and facts.ref_name(callee_of(t)) != 'post_process_breaks' and does_loop_work(callee_of(t)['path'])))]
    out.anchor('SS-C15', 'sort / break post-processing / velocity loop calls', len(sortb) == 1 and len(ppb) == 1 and len(durb) >= 1,
               'sort=%d breaks=%d loop=%d' % (len(sortb), len(ppb), len(durb)))
    if len(sortb) == 1 and len(ppb) == 1 and durb:
        sb, st = sortb[0]
        pb, pt = ppb[0]
        ok = b.dominates(sb, pb) and sb != pb and all(b.dominates(pb, d) and d != pb for d, _t in durb)
        out.add('SS-C15', fn, 'phase-order', loc_of(st['sp']), ok,
                '' if ok else 'phases must run as: stable sort -> break post-processing -> velocity/sample loop', ordinal=False)
        c = callee_of(st)
        okn = c['name'] == 'sort_by'
        out.add('SS-C15', fn, 'stable-sort-callee', loc_of(st['sp']), okn,
                '' if okn else '`%s` is not the stable comparator sort (file order among equal times would be lost)' % c['name'],
                ordinal=False)
        # sort operates on the same vector that is post-processed and stored
    hfn = facts.hir.get(fn)
    ctx = Ctx(facts, H.binding_inits(hfn), hfn)
    srt = find(ctx, hfn['body'], M('sort_by', L('hit_objects'), ANY()))
    okc = False
    if srt:
        cl = strip(strip(srt[0][0])['args'][0])
        if cl.get('k') == 'closure':
            body = strip(cl['body'])
            ps = [p.get('name') for p in cl.get('params', [])]
            okc = len(ps) == 2 and M('total_cmp', F(L(ps[0]), 'start_time'), F(L(ps[1]), 'start_time')).m(ctx, body)
    out.add('SS-C15', fn, 'sort-key', '%s:%d' % (b.file, b.line), okc,
            '' if okc else 'hit objects are not sorted by `a.start_time.total_cmp(&b.start_time)` (ascending)', ordinal=False)
    # post_process_breaks: first object after each break -> new combo
    pp = 'section::hit_objects::decode::HitObjectsState::post_process_breaks'
    h2 = facts.hir.get(pp)
    out.anchor('SS-C15', 'post_process_breaks', h2 is not None)
    if h2 is not None:
        c2 = Ctx(facts, H.binding_inits(h2), h2)
        cond = find(c2, h2['body'], BIN('Lt', F(ANY(), 'end_time'), F(L('h'), 'start_time')))
        sets = 0
        for r_, mult, _n in H.new_combo_or_sites(facts, h2):
            if L('force_new_combo').m(c2, r_):
                sets += mult
            else:
                from hp import slice_cursor_break_flag
                r2_ = strip(r_)
                if isinstance(r2_, dict) and r2_.get('k') == 'local':
                    its_ = unique_inits(c2, r2_['name'])
                    if len(its_) == 1:
                        r_ = its_[0]
                scf = slice_cursor_break_flag(c2, h2, r_)
                if scf is not None and scf[0]:
                    sets += mult
                    cond = cond or [True]
        ok = bool(cond) and sets == 3
        bb = facts.body(pp)
        out.add('SS-C15', pp, 'new-combo-after-break', '%s:%d' % (bb.file, bb.line), ok,
                '' if ok else 'the first circle/slider/spinner after a finished break must get new_combo (found %d setters)' % sets,
                ordinal=False)


# ------------------------------------------------------------------------------ C18 / C19 siblings

def run_curve_siblings(facts, out):
    CUR = 'section::hit_objects::slider::curve::'
    a = facts.hir.get(CUR + 'Curve::new')
    bfn = CUR + "BorrowedCurve::<'bufs>::new"
    bb = facts.hir.get(bfn)
    out.anchor('SS-C18', 'Curve::new and BorrowedCurve::new', a is not None and bb is not None)
    if a is not None and bb is not None:
        for name, h in (('Curve::new', a), (bfn, bb)):
            ctx = Ctx(facts, H.binding_inits(h), h)
            # both constructors run calculate_path(mode, points, bufs[, &mut optimized_len]) and then
            # calculate_length(bufs, expected_len, optimized_len) on their own parameters -- directly or through a
            # shared private helper (looked at with its call inlined)
            ok = False
            for dpt in (0, 1, 2):
                vh = H.inlined_fn(facts, h, depth=dpt, keep=('calculate_path', 'calculate_length')) if dpt else h
                c3 = Ctx(facts, H.binding_inits(vh), vh)
                p1 = find(c3, vh['body'], OR(C('calculate_path', L('mode'), L('points'), L('bufs'), ANY()),
                                             C('calculate_path', L('mode'), L('points'), L('bufs'))))
                p2 = find(c3, vh['body'], C('calculate_length', L('bufs'), L('expected_len'), ANY()))
                if len(p1) == 1 and len(p2) == 1:
                    ok = True
                    break
            body = facts.body(CUR + 'Curve::new' if name == 'Curve::new' else bfn)
            out.add('SS-C18', body.path, 'constructor-calls', '%s:%d' % (body.file, body.line), ok,
                    '' if ok else ('the curve constructor must call calculate_path(mode, points, bufs, ..) and '
                                   'calculate_length(bufs, expected_len, optimized_len); the owned and borrowed API would '
                                   'otherwise produce different curves'), ordinal=False)
    # accessor families delegate to the same free functions with (path, lengths)
    fam = {
        'position_at': ['path', 'lengths', 'progress'],
        'progress_to_dist': ['lengths', 'progress'],
        'dist': ['lengths'],
        'idx_of_dist': ['lengths', 'd'],
        'interpolate_vertices': ['path', 'lengths', 'i', 'd'],
    }
    for owner in ('Curve', "BorrowedCurve::<'bufs>"):
        for m_, args in fam.items():
            fn = CUR + owner + '::' + m_
            h = facts.hir.get(fn)
            out.anchor('SS-C19', 'accessor ' + fn, h is not None)
            if h is None:
                continue
            ctx = Ctx(facts, H.binding_inits(h), h)
            pats = []
            for x in args:
                pats.append(F(L('self'), x) if x in ('path', 'lengths') else L(x))
            body = h['body']
            tail = body.get('expr') if body.get('k') == 'block' else body
            ok = tail is not None and C(CUR + m_, *pats).m(ctx, tail)
            bd = facts.body(fn)
            out.add('SS-C19', fn, 'delegates', '%s:%d' % (bd.file, bd.line), ok,
                    '' if ok else 'accessor does not delegate to `%s(%s)`' % (m_, ', '.join(args)), ordinal=False)


# ------------------------------------------------------------------------------ C20 structural

def run_c20(facts, out):
    EV = 'section::hit_objects::slider::event::'
    nxt = "<%sSliderEventsIter<'_> as std::iter::Iterator>::next" % EV
    b = facts.body(nxt)
    out.anchor('SS-C20', 'SliderEventsIter::next', b is not None, nxt)
    st_adt = facts.adts.get(EV + 'SliderEventsIterState')
    out.anchor('SS-C20', 'SliderEventsIterState', st_adt is not None)
    if b is not None and st_adt is not None:
        variants = [v['name'] for v in st_adt['variants']]
        # switch on discr((*_1).state)
        trans = {}
        kinds = {}
        for bi, blk in enumerate(b.blocks):
            t = blk['term']
            if t['k'] != 'switch':
                continue
            dl = op_local(t['discr'])
            d = [x for x in b.defs.get(dl, []) if x[2] == 'assign' and x[3]['rv']['k'] == 'discr'] if dl is not None else []
            if not d:
                continue
            pl = d[0][3]['rv']['pl']
            if field_path(pl) != ('state',) or pl['l'] != 1:
                continue
            for lab, tgt in b.edges(bi):
                if lab == 'otherwise' or lab >= len(variants):
                    continue
                cur = variants[lab]
                # blocks reachable from tgt without passing the switch block again
                seen = set()
                stack = [tgt]
                while stack:
                    x = stack.pop()
                    if x in seen or x == bi:
                        continue
                    seen.add(x)
                    stack.extend(b.succ(x))
                for x in seen:
                    for s in b.blocks[x]['st']:
                        if s['k'] == 'assign' and field_path(s['pl']) == ('state',) and s['pl']['l'] == 1:
                            rv = s['rv']
                            nm = None
                            if rv['k'] == 'aggr':
                                nm = rv.get('variant')
                            elif rv['k'] == 'use':
                                vd = value_def(b, op_local(rv['op'])) if op_local(rv['op']) is not None else None
                                if vd and vd[0] == 'assign' and vd[1]['rv']['k'] == 'aggr':
                                    nm = vd[1]['rv'].get('variant')
                            if nm != cur:       # staying in the state (next span) is not a transition
                                trans.setdefault(cur, set()).add(nm)
                        if s['k'] == 'assign' and s['rv']['k'] == 'aggr' and s['rv'].get('adt') == EV + 'SliderEvent':
                            idx = s['rv']['fields'].index('kind')
                            o = s['rv']['ops'][idx]
                            vd = None
                            if o['k'] in ('copy', 'move'):
                                vd = value_def(b, op_local(o))
                            if vd and vd[0] == 'assign' and vd[1]['rv']['k'] == 'aggr':
                                kinds.setdefault(cur, set()).add(vd[1]['rv'].get('variant'))
                    # an event built by a private helper method (`self.tail_event()`)
                    tt = b.blocks[x]['term']
                    if tt['k'] == 'call':
                        cc = callee_of(tt)
                        cb = facts.bodies.get(cc['path']) if cc else None
                        if cb is not None and cb.locals[0].get('adt') == EV + 'SliderEvent':
                            for bi2, si2, kd2, st2 in cb.defs.get(0, []):
                                if kd2 == 'assign' and st2['rv']['k'] == 'aggr' and st2['rv'].get('adt') == EV + 'SliderEvent':
                                    o2 = st2['rv']['ops'][st2['rv']['fields'].index('kind')]
                                    vd2 = value_def(cb, op_local(o2)) if o2['k'] in ('copy', 'move') else None
                                    if vd2 and vd2[0] == 'assign' and vd2[1]['rv']['k'] == 'aggr':
                                        kinds.setdefault(cur, set()).add(vd2[1]['rv'].get('variant'))
        exp = {'Head': {'Ticks'}, 'Ticks': {'LastTick'}, 'LastTick': {'Tail'}, 'Tail': {'Done'}}
        got = {k: v for k, v in trans.items()}
        ok = got == exp
        out.add('SS-C20', nxt, 'state-order', '%s:%d' % (b.file, b.line), ok,
                '' if ok else 'state transitions are %s; the legacy stream is Head -> Ticks -> LastTick -> Tail -> Done'
                % {k: sorted(x for x in v if x) for k, v in got.items()}, ordinal=False)
        expk = {'Head': {'Head'}, 'LastTick': {'LastTick'}, 'Tail': {'Tail'}}
        okk = kinds == expk
        out.add('SS-C20', nxt, 'event-kind-per-state', '%s:%d' % (b.file, b.line), okk,
                '' if okk else 'events emitted per state are %s, expected %s' % (
                    {k: sorted(v) for k, v in kinds.items()}, {k: sorted(v) for k, v in expk.items()}), ordinal=False)
    # control dependence in the span generator: found by what it does (it pushes Tick events),
    # not by its private name
    def kind_of_aggr(body, rv):
        if rv['k'] == 'aggr' and rv.get('adt') == EV + 'SliderEvent':
            o = rv['ops'][rv['fields'].index('kind')]
            l = op_local(o)
            vd = value_def(body, l) if l is not None else None
            if vd and vd[0] == 'assign' and vd[1]['rv']['k'] == 'aggr':
                return vd[1]['rv'].get('variant')
        return None

    def kind_of_value(body, l, depth=0):
        vd = value_def(body, l) if l is not None else None
        if not vd:
            return None
        if vd[0] == 'assign':
            return kind_of_aggr(body, vd[1]['rv'])
        c = callee_of(vd[1])
        cb = facts.bodies.get(c['path']) if c else None
        if cb is not None and depth < 2:
            for bi, si, kd, st in cb.defs.get(0, []):
                if kd == 'assign':
                    k2 = kind_of_aggr(cb, st['rv'])
                    if k2:
                        return k2
        return None

    gens = []
    for p2, b2 in sorted(facts.bodies.items()):
        if not p2.startswith(EV):
            continue
        has_rep = has_ext = False
        for bb, t in b2.calls():
            c = callee_of(t)
            if c and c['name'] == 'push' and len(t['args']) == 2 and kind_of_value(b2, op_local(t['args'][1])) == 'Tick':
                gens.append(b2)
                break
            if c and c['name'] == 'push' and len(t['args']) == 2 and kind_of_value(b2, op_local(t['args'][1])) == 'Repeat':
                has_rep = True
            if c and c['name'] == 'extend' and len(t['args']) == 2:
                has_ext = True
        else:
            if has_rep and has_ext and '{closure' not in p2:
                gens.append(b2)         # the ticks of the span are appended with one `extend` of an iterator pipeline
    out.anchor('SS-C20', 'the function that generates the ticks of a span', len(gens) == 1, str([g_.path for g_ in gens]))
    g = gens[0] if len(gens) == 1 else None
    gt = g.path if g is not None else EV + 'generate_ticks'
    if g is not None:
        pushes = []
        for bb, t in g.calls():
            c = callee_of(t)
            if c and c['name'] == 'push' and len(t['args']) == 2:
                k2 = kind_of_value(g, op_local(t['args'][1]))
                kind = {'Repeat': 'repeat', 'Tick': 'tick'}.get(k2)
                pushes.append((bb, t, kind))
        nrep = sum(1 for p in pushes if p[2] == 'repeat')
        ntick = sum(1 for p in pushes if p[2] == 'tick')
        if ntick == 0:
            # iterator form: the ticks of the span are produced by a pipeline (`successors(..).take_while(..).map(|d| Tick
            # event)`) and appended with one `extend`: that call is the tick emission
            hg = facts.hir.get(g.path)
            tick_in_closure = []
            if hg is not None:
                def vt(n, anc):
                    if n.get('k') == 'struct' and (n.get('adt') or '').endswith('SliderEvent') and \
                            any(f['n'] == 'kind' and 'Tick' in repr(f['e']) and 'LastTick' not in repr(f['e']) for f in n['fields']) \
                            and any(a.get('k') == 'closure' for a in anc):
                        tick_in_closure.append(n)
                H.walk(hg['body'], vt)
            exts = [(bb, t) for bb, t in g.calls() if callee_of(t) and callee_of(t)['name'] == 'extend' and len(t['args']) == 2]
            if tick_in_closure and len(exts) == 1:
                pushes.append((exts[0][0], exts[0][1], 'tick'))
                ntick = 1
        out.anchor('SS-C20', 'repeat/tick pushes in generate_ticks', nrep == 2 and ntick == 1, 'repeat=%d tick=%d' % (nrep, ntick))
        for bb, t, kind in pushes:
            guards = _guards(g, bb)
            dep_td = []
            for sbb in guards:
                sl = _slice_fields(g, op_local(g.term(sbb)['discr']))
                if 'tick_dist' in sl:
                    dep_td.append(sbb)
            if kind == 'repeat':
                ok = not dep_td
                out.add('SS-C20', gt, 'repeat-independent-of-tick-distance', loc_of(t['sp']), ok,
                        '' if ok else ('a repeat event is only emitted when a test on the tick distance passes (guard at %s): '
                                       'a zero tick distance would lose repeats') % loc_of(g.term(dep_td[0])['sp']))
            elif kind == 'tick':
                ok = bool(dep_td)
                out.add('SS-C20', gt, 'ticks-need-positive-tick-distance', loc_of(t['sp']), ok,
                        '' if ok else 'the tick loop is not guarded by a test on the tick distance (zero distance never terminates)')
                # "identically placed on every span": whether a tick is emitted at a distance must not depend
                # on which span is generated (only its time is mirrored)
                span_params = [i for i in range(1, g.argc + 1) if 'SliderEventsIter' not in g.locals[i]['s']]
                dep_span = [sbb for sbb in _control_deps(g, bb)
                            if _slice_locals(g, op_local(g.term(sbb)['discr'])) & set(span_params)]
                ok = not dep_span
                out.add('SS-C20', gt, 'tick-placement-independent-of-span', loc_of(t['sp']), ok,
                        '' if ok else ('whether a tick is emitted depends on the span being generated (guard at %s): ticks '
                                       'would not be identically placed on every span') % loc_of(g.term(dep_span[0])['sp']))
        # reversal only under !reversed
        for bb, t in g.calls():
            c = callee_of(t)
            if c and c['name'] == 'reverse':
                guards = _guards(g, bb)
                fields = set()
                for sbb in guards:
                    fields |= _slice_fields(g, op_local(g.term(sbb)['discr']))
                ok = 'tick_dist' not in fields and 'len' not in fields
                out.add('SS-C20', gt, 'reverse-guard', loc_of(t['sp']), ok,
                        '' if ok else 'the buffer reversal depends on the tick distance')
    # the encoder callers (osu! sliders / catch juicestreams) derive their parameters identically:
    # callers = the functions of the encoder that construct a SliderEventsIter
    def _constructs_iter(h):
        hit = []

        def v(n, anc):
            if n.get('k') == 'call' and n['f'].get('k') == 'path' and \
                    n['f'].get('def', '').endswith('SliderEventsIter::<\'ticks_buf>::new'):
                hit.append(n)
            elif n.get('k') == 'call' and n['f'].get('k') == 'path' and 'SliderEventsIter' in n['f'].get('def', '') \
                    and n['f'].get('def', '').endswith('::new'):
                hit.append(n)
        H.walk(h['body'], v)
        return bool(hit)
    callers = sorted(p_ for p_, h in facts.hir.items() if p_.startswith('encode::') and _constructs_iter(h))
    out.anchor('SS-C20', 'encoder callers slider_events / juicestream_events', bool(callers), str(callers))
    if callers:
        def local_callees(h):
            res = set()

            def v(n, anc):
                if n.get('k') == 'call' and n['f'].get('k') == 'path' and n['f'].get('def') in facts.hir:
                    res.add(n['f']['def'])
                if n.get('k') == 'mcall' and n.get('def') in facts.hir:
                    res.add(n['def'])
            H.walk(h['body'], v)
            return res
        # functions that reach the constructor only through a shared helper count as its users
        users = sorted(p_ for p_, h in facts.hir.items() if p_.startswith('encode::') and p_ not in callers
                       and local_callees(h) & set(callers) and 'events' in p_)
        group = users if len(users) >= 2 else callers
        f1 = facts.hir[group[0]]
        f2 = facts.hir[group[1]] if len(group) > 1 else None
        shared = (local_callees(f1) & local_callees(f2)) if f2 is not None else set()
        i1 = H.binding_inits(f1)
        i2 = H.binding_inits(f2) if f2 is not None else None
        for nm in ('dist', 'span_count', 'span_duration', 'tick_dist_multiplier'):
            if f2 is None:
                # a single function serves every mode: one derivation by construction
                out.add('SS-C20', group[0], 'same-derivation:' + nm, 'src/encode.rs', True, '',
                        {'note': 'single constructor caller %s' % group[0]}, ordinal=False)
                continue
            a = [canon(x) for x in i1.get(nm, [])]
            bq = [canon(x) for x in i2.get(nm, [])]
            ok = bool(a) and a == bq
            if not a and not bq and shared:
                # both callers obtain it from the same helper: identical by construction
                ok = True
            out.add('SS-C20', group[1], 'same-derivation:' + nm, 'src/encode.rs', ok,
                    '' if ok else '`%s` is derived differently in %s and %s' % (nm, group[0], group[1]), ordinal=False)
        for nm in group[:2]:
            h = facts.hir[nm]
            ctx = Ctx(facts, H.binding_inits(h), h)
            pat = C('SliderEventsIter', L('start_time'), L('span_duration'), F(L('slider'), 'velocity'), L('tick_dist'),
                    L('dist'), L('span_count'), L('ticks'))
            ok = bool(find(ctx, h['body'], pat))
            if not ok:
                for sh in (shared or set(callers)):
                    c3 = Ctx(facts, H.binding_inits(facts.hir[sh]), facts.hir[sh])
                    if find(c3, facts.hir[sh]['body'], pat):
                        ok = True
            out.add('SS-C20', nm, 'constructor-args', 'src/encode.rs', ok,
                    '' if ok else 'SliderEventsIter::new is not called with (start_time, span_duration, velocity, tick_dist, dist, span_count, ticks)',
                    ordinal=False)


def _reach(body, a, b_):
    seen = {a}
    st = [a]
    while st:
        x = st.pop()
        if x == b_:
            return True
        for s in body.succ(x):
            if s not in seen:
                seen.add(s)
                st.append(s)
    return False


def _reach_fwd(body, a, b_):
    """reachability without back edges (an edge into a dominator of its source): within one loop iteration"""
    seen = {a}
    st = [a]
    while st:
        x = st.pop()
        if x == b_:
            return True
        for s in body.succ(x):
            if s in body.dom.get(x, ()) and s != x:
                continue
            if s not in seen:
                seen.add(s)
                st.append(s)
    return False


def _guards(body, bb, same_iteration=False):
    """switch blocks that dominate bb and have a successor from which bb is not reachable
    (same_iteration: ... not reachable before the enclosing loop starts over)"""
    out = []
    reach = _reach_fwd if same_iteration else _reach
    for d in sorted(body.dom.get(bb, [])):
        if d == bb:
            continue
        t = body.term(d)
        if t['k'] != 'switch':
            continue
        succ = body.succ(d)
        if any(not (s == bb or reach(body, s, bb)) for s in succ):
            out.append(d)
    return out


def _control_deps(body, bb):
    """switch blocks bb is (transitively) control-dependent on within one loop iteration: from the
    switch one successor reaches bb before the loop starts over and another does not"""
    res = []
    work = [bb]
    seen = set()
    while work:
        x = work.pop()
        for d, blk in enumerate(body.blocks):
            if d in seen or d == x or blk['term']['k'] != 'switch' or blk.get('cleanup'):
                continue
            succ = body.succ(d)
            r = [s == x or _reach_fwd(body, s, x) for s in succ]
            if any(r) and not all(r):
                seen.add(d)
                res.append(d)
                work.append(d)
    return sorted(res)


def _slice_locals(body, l, limit=60):
    """locals in the backward slice of local l"""
    seen = set()
    work = [l]
    while work and len(seen) < limit:
        x = work.pop()
        if x is None or x in seen:
            continue
        seen.add(x)
        for bi, si, kind, s in body.defs.get(x, []):
            if kind == 'assign':
                def rec(v):
                    if isinstance(v, dict):
                        if 'pl' in v and isinstance(v['pl'], dict) and 'l' in v['pl']:
                            work.append(v['pl']['l'])
                        if 'l' in v and 'p' in v and isinstance(v.get('p'), list):
                            work.append(v['l'])
                        for vv in v.values():
                            rec(vv)
                    elif isinstance(v, list):
                        for vv in v:
                            rec(vv)
                rec(s['rv'])
            else:
                for a in s['args']:
                    pl = op_place(a)
                    if pl is not None:
                        work.append(pl['l'])
    return seen


def _slice_fields(body, l, limit=40):
    """field names read in the backward slice of local l"""
    fields = set()
    seen = set()
    work = [l]
    while work and len(seen) < limit:
        x = work.pop()
        if x is None or x in seen:
            continue
        seen.add(x)
        for bi, si, kind, s in body.defs.get(x, []):
            places = []
            if kind == 'assign':
                def rec(v):
                    if isinstance(v, dict):
                        if 'pl' in v and isinstance(v['pl'], dict) and 'l' in v['pl']:
                            places.append(v['pl'])
                        for vv in v.values():
                            rec(vv)
                    elif isinstance(v, list):
                        for vv in v:
                            rec(vv)
                rec(s['rv'])
            else:
                for a in s['args']:
                    pl = op_place(a)
                    if pl is not None:
                        places.append(pl)
            for pl in places:
                for e in pl['p']:
                    if e['k'] == 'field':
                        fields.add(e['n'])
                work.append(pl['l'])
    return fields
