"""Interprocedural effect analyses over the monomorphic call graph.

 * points-to (flow-insensitive, per instance): which abstract locations a reference-carrying
   local may point into.  AbsLoc = (root, path); root = ('p', i) for parameter i or ('l', n)
   for an address-taken local; path = tuple of field names.  Prefix semantics: a location
   covers everything below it.
 * W[g]      locations possibly written by g (transitively), relative to its parameters
 * errW[g]   locations possibly written on a path on which g returns Err  (EA, C06)
 * KBU       kill-before-use: on every path the first access to a buffer is a kill (C18/C20/C06)
 * clean-on-exit: a buffer is killed after its last write on every non-unwinding exit
"""
from collections import defaultdict
from facts import place_key, op_place, op_local, callee_of, place_str
from common import loc_of

KILL_CALLEES = {
    'std::vec::Vec::<T, A>::clear', 'std::string::String::clear',
    'std::collections::VecDeque::<T, A>::clear',
}
TAKE_CALLEES = {'std::mem::take'}            # use, then kill (arg 0)
APPEND_CALLEES = {'std::vec::Vec::<T, A>::append'}   # arg 1 is used then killed, arg 0 is written
PENDING_PRESERVING = {'std::result::Result::<T, E>::map_err', 'std::result::Result::<T, E>::map'}
# extern functions that only read through a `&mut`-typed handle passed to them
READONLY_EXTERN = set()


def ty_carries_borrow(ty):
    s = ty['s']
    if '&' in s or "'" in s or '*const' in s or '*mut' in s:
        return True
    # generic parameters / projections may be anything
    if len(s) <= 2 and s[:1].isupper():
        return True
    if s.startswith('<') and ' as ' in s:
        return True
    if 'closure@' in s:
        return True
    return False


def ty_is_mut_handle(ty):
    s = ty['s']
    return '&mut ' in s or 'Mut<' in s or '*mut' in s or s.startswith('&mut')


def covers(a, b):
    """a, b AbsLocs: do they overlap (one is a prefix of the other, same root)?"""
    if a[0] != b[0]:
        return False
    n = min(len(a[1]), len(b[1]))
    return a[1][:n] == b[1][:n]


def under(a, b):
    """a is b or below b"""
    return a[0] == b[0] and a[1][:len(b[1])] == b[1]


class InstAnalysis:
    """per-instance points-to + event extraction"""

    def __init__(self, eff, iid):
        self.eff = eff
        self.facts = eff.facts
        self.iid = iid
        self.inst = self.facts.inst[iid]
        self.body = self.facts.bodies[self.inst['def']]
        self.calls = self.facts.inst_calls[iid]
        self.pt = defaultdict(set)
        # closure bodies: local 1 is the environment; capture k is root ('c', k)
        self.is_closure = '{closure' in self.body.path.rsplit('::', 1)[-1]
        self._compute_pt()

    # ---------------------------------------------------------------- points-to
    def _capture_loc(self, pl):
        """closure environment access `_1.k` / `(*_1).k` [+ derefs/fields] -> {(('c', k), fields)}"""
        proj = pl['p']
        i = 0
        if i < len(proj) and proj[i]['k'] == 'deref':
            i += 1
        if i < len(proj) and proj[i]['k'] == 'field':
            k = proj[i]['n']
            path = tuple(e['n'] for e in proj[i + 1:] if e['k'] == 'field')
            return {(('c', k), path)}
        return None

    def loc_of_place(self, pl):
        """abstract locations denoted by the memory place `pl`"""
        base = pl['l']
        proj = pl['p']
        if self.is_closure and base == 1:
            c = self._capture_loc(pl)
            if c is not None:
                return c
        derefs = [i for i, e in enumerate(proj) if e['k'] == 'deref']
        if not derefs:
            path = tuple(e['n'] for e in proj if e['k'] == 'field')
            return {(('l', base), path)}
        first = derefs[0]
        cur = set(self.pt[base])
        # fields before the first deref select a pointer stored in a local aggregate: field-insensitive
        rest = proj[first + 1:]
        out = set()
        for (root, path) in cur:
            p = path
            truncated = False
            for e in rest:
                if e['k'] == 'field' and not truncated:
                    p = p + (e['n'],)
                elif e['k'] == 'deref':
                    # pointer loaded from memory: stay within the region reached so far
                    truncated = False
            out.add((root, p))
        return out

    def val_of_place(self, pl):
        """abstract locations a pointer value read from `pl` may point into"""
        if self.is_closure and pl['l'] == 1:
            c = self._capture_loc(pl)
            if c is not None:
                return c
        if not any(e['k'] == 'deref' for e in pl['p']):
            return set(self.pt[pl['l']])
        return self.loc_of_place(pl)

    def val_of_operand(self, o):
        pl = op_place(o)
        if pl is None:
            return set()
        return self.val_of_place(pl)

    def _compute_pt(self):
        body = self.body
        pt = self.pt
        for i in range(1, body.argc + 1):
            if self.is_closure and i == 1:
                continue
            if ty_carries_borrow(body.locals[i]):
                pt[i].add((('p', i), ()))
        changed = True
        it = 0
        while changed and it < 50:
            changed = False
            it += 1
            for bi, blk in enumerate(body.blocks):
                for s in blk['st']:
                    if s['k'] != 'assign':
                        continue
                    d = s['pl']
                    rv = s['rv']
                    vals = set()
                    k = rv['k']
                    if k in ('ref', 'rawptr'):
                        vals = self.loc_of_place(rv['pl'])
                    elif k == 'use':
                        vals = self.val_of_operand(rv['op'])
                    elif k == 'cast':
                        vals = self.val_of_operand(rv['op'])
                    elif k == 'aggr':
                        for o in rv['ops']:
                            vals |= self.val_of_operand(o)
                    elif k == 'binop':
                        vals = self.val_of_operand(rv['a']) | self.val_of_operand(rv['b'])
                    if vals:
                        tgt = d['l']
                        if any(e['k'] == 'deref' for e in d['p']):
                            continue   # pointer stored into the heap: not tracked
                        if not vals <= pt[tgt]:
                            pt[tgt] |= vals
                            changed = True
                t = blk['term']
                if t['k'] == 'call':
                    d = t['dest']
                    if any(e['k'] == 'deref' for e in d['p']):
                        continue
                    vals = self.call_result_pt(bi, t)
                    if vals and not vals <= pt[d['l']]:
                        pt[d['l']] |= vals
                        changed = True

    def call_result_pt(self, bb, t):
        rec = self.calls.get(bb, {})
        if not ty_carries_borrow(t['ret_ty']):
            return set()
        out = set()
        if 'callee' in rec:
            cs = self.eff.ret_pt(rec['callee'])
            if cs is not None:
                return self.translate(t, cs)
        via = rec.get('via', [])
        via_defs = {self.facts.inst[v]['def'] for v in via}
        for a, ty in zip(t['args'], t['arg_tys']):
            if ty.get('closure') in via_defs:
                continue    # consumed closure: only what it *returns* can flow into the result
            out |= self.val_of_operand(a)
        for v in via:
            cs = self.eff.ret_pt(v)
            if not cs:
                continue
            cops = self.closure_ops(t, self.facts.inst[v]['def'])
            for (root, path) in cs:
                if root[0] == 'c' and cops is not None and root[1].isdigit() and int(root[1]) < len(cops):
                    for (r2, p2) in self.val_of_operand(cops[int(root[1])]):
                        out.add((r2, p2 + path))
                else:
                    for a in t['args']:
                        out |= self.val_of_operand(a)
        return out

    # ---------------------------------------------------------------- events
    def eff_args(self, t):
        """(args, arg_tys) as seen by the callee body: closure calls through Fn*/call_* pass the
        arguments as one tuple, the closure body receives them spread out"""
        key = id(t)
        cache = self.__dict__.setdefault('_effargs', {})
        if key in cache:
            return cache[key]
        args, tys = t['args'], t['arg_tys']
        c = callee_of(t)
        if c and c.get('trait') in ('std::ops::FnOnce', 'std::ops::FnMut', 'std::ops::Fn') and len(args) == 2:
            tl = op_local(args[1])
            if tl is not None:
                defs = self.body.defs.get(tl, [])
                if len(defs) == 1 and defs[0][2] == 'assign' and defs[0][3]['rv']['k'] == 'aggr' \
                        and defs[0][3]['rv']['ak'] == 'tuple':
                    ops = defs[0][3]['rv']['ops']
                    otys = []
                    for o in ops:
                        pl = op_place(o)
                        if pl is not None and not pl['p']:
                            otys.append(self.body.locals[pl['l']])
                        else:
                            otys.append({'s': '?'})
                    args = [args[0]] + list(ops)
                    tys = [tys[0]] + otys
        cache[key] = (args, tys)
        return cache[key]

    def closure_ops(self, t, cdef=None):
        """operands captured by the closure passed to / called by terminator t (from the closure
        aggregate that builds it in this body)"""
        from facts import resolve_ref, value_def
        for a in t['args']:
            l = op_local(a)
            if l is None:
                continue
            ty = self.body.locals[l]
            cand = [l]
            pl = resolve_ref(self.body, l)
            if pl is not None and not pl['p']:
                cand.append(pl['l'])
            for c in cand:
                if self.body.locals[c].get('closure') is None and 'closure@' not in self.body.locals[c]['s']:
                    continue
                if cdef is not None and self.body.locals[c].get('closure') != cdef:
                    continue
                vd = value_def(self.body, c)
                if vd and vd[0] == 'assign' and vd[1]['rv']['k'] == 'aggr' and vd[1]['rv']['ak'] == 'closure':
                    return vd[1]['rv']['ops']
        return None

    def translate(self, t, locs, truncate_non_ref=True):
        """callee-relative AbsLocs (rooted at callee params) -> caller AbsLocs"""
        out = set()
        args, tys = self.eff_args(t)
        cops = None
        for (root, path) in locs:
            if root[0] == 'c':
                if cops is None:
                    cops = self.closure_ops(t)
                try:
                    k = int(root[1])
                except ValueError:
                    continue
                if cops is not None and k < len(cops):
                    for (r2, p2) in self.val_of_operand(cops[k]):
                        out.add((r2, p2 + path))
                else:
                    # the closure was built elsewhere (it is a parameter here): whatever the closure
                    # value itself carries -- for a direct Fn*::call* that is argument 0
                    c0 = callee_of(t)
                    if c0 and c0.get('trait') in ('std::ops::FnOnce', 'std::ops::FnMut', 'std::ops::Fn') and args:
                        pj = self._param_holding(args[0])
                        if pj is not None:
                            # capture k of the closure held by parameter pj: resolved where the closure is built
                            out.add((('p', pj), ('#c%d' % k,) + path))
                            continue
                        cap_pl = self._capture_holding(args[0]) if self.is_closure else None
                        if cap_pl is not None:
                            # the closure being called is itself a capture of this closure (`|| calculate(..)`):
                            # capture k of that captured closure, resolved where this closure is built
                            cl_ = self._capture_loc(cap_pl)
                            if cl_:
                                for (r2, p2) in cl_:
                                    out.add((r2, p2 + ('#c%d' % k,) + path))
                                continue
                        for (r2, p2) in self.val_of_operand(args[0]):
                            out.add((r2, p2))
                    else:
                        for a in args:
                            for (r2, p2) in self.val_of_operand(a):
                                out.add((r2, p2))
                continue
            if root[0] != 'p':
                continue
            j = root[1] - 1
            if j >= len(args):
                continue
            a = args[j]
            aty = tys[j]
            if not path and aty.get('closure'):
                # the closure value itself (moved on, called): what it captures is reached through `#c` paths
                continue
            if path and isinstance(path[0], str) and path[0].startswith('#c'):
                # a capture of the closure passed as this argument
                kk = int(path[0][2:])
                ops = self._closure_ops_of_arg(a)
                if ops is not None and kk < len(ops):
                    for (r2, p2) in self.val_of_operand(ops[kk]):
                        out.add((r2, p2 + path[1:]))
                    continue
                pj = self._param_holding(a)
                if pj is not None:
                    out.add((('p', pj), path))
                    continue
                if self.is_closure and op_place(a) is not None and op_place(a)['l'] == 1:
                    c = self._capture_loc(op_place(a))
                    if c is not None:
                        for (r2, p2) in c:
                            out.add((r2, p2 + path))
                        continue
                for (r2, p2) in self.val_of_operand(a):
                    out.add((r2, p2))
                continue
            # `Option<&mut T>` is the reference it may hold: callee paths below it are paths below the pointee
            direct = aty.get('ref') is not None or aty.get('s', '').startswith(('std::option::Option<&', 'core::option::Option<&'))
            for (r2, p2) in self.val_of_operand(a):
                out.add((r2, p2 + path if direct else p2))
        return out

    def _param_holding(self, o):
        """the parameter whose (moved / reborrowed) value operand o is, if any"""
        pl = op_place(o)
        if pl is None:
            return None
        cur = pl['l']
        for _ in range(8):
            if 1 <= cur <= self.body.argc:
                return None if (self.is_closure and cur == 1) else cur
            defs = self.body.defs.get(cur, [])
            if len(defs) != 1 or defs[0][2] != 'assign':
                return None
            rv = defs[0][3]['rv']
            if rv['k'] == 'use':
                p2 = op_place(rv['op'])
                if p2 is None or p2['p']:
                    return None
                cur = p2['l']
            elif rv['k'] == 'ref' and all(e['k'] == 'deref' for e in rv['pl']['p']):
                cur = rv['pl']['l']
            else:
                return None
        return None

    def _capture_holding(self, o):
        """the place `_1.k` of the closure environment whose (moved / reborrowed) value operand o is, if any"""
        pl = op_place(o)
        for _ in range(8):
            if pl is None:
                return None
            if pl['l'] == 1 and any(e['k'] == 'field' for e in pl['p']):
                return pl
            if pl['p'] and not all(e['k'] == 'deref' for e in pl['p']):
                return None
            defs = self.body.defs.get(pl['l'], [])
            if len(defs) != 1 or defs[0][2] != 'assign':
                return None
            rv = defs[0][3]['rv']
            if rv['k'] in ('use', 'cast'):
                pl = op_place(rv['op'])
            elif rv['k'] in ('ref', 'rawptr'):
                pl = rv['pl']
            else:
                return None
        return None

    def _closure_ops_of_arg(self, o):
        from facts import resolve_ref, value_def
        l = op_local(o)
        if l is None:
            return None
        cand = [l]
        pl = resolve_ref(self.body, l)
        if pl is not None and not pl['p']:
            cand.append(pl['l'])
        for c in cand:
            vd = value_def(self.body, c)
            if vd and vd[0] == 'assign' and vd[1]['rv']['k'] == 'aggr' and vd[1]['rv'].get('ak') == 'closure':
                return vd[1]['rv']['ops']
        return None

    def block_events(self, bb):
        """ordered events of a block: list of dicts
        {kind: write|read|kill|take|call, locs, sp, desc, ...}"""
        body = self.body
        blk = body.blocks[bb]
        evs = []
        for s in blk['st']:
            if s['k'] == 'assign':
                rv = s['rv']
                # reads through pointers
                for pl in self._rvalue_read_places(rv):
                    if any(e['k'] == 'deref' for e in pl['p']):
                        evs.append({'kind': 'read', 'locs': self.loc_of_place(pl), 'sp': s['sp'],
                                    'desc': 'read of %s' % place_str(pl)})
                    elif pl['l'] in self.tracked_locals():
                        evs.append({'kind': 'read', 'locs': self.loc_of_place(pl), 'sp': s['sp'],
                                    'desc': 'read of %s' % place_str(pl)})
                d = s['pl']
                if any(e['k'] == 'deref' for e in d['p']):
                    evs.append({'kind': 'write', 'locs': self.loc_of_place(d), 'sp': s['sp'],
                                'desc': 'assignment to %s' % place_str(d), 'exact': True,
                                'fresh': rv['k'] in ('aggr',) or (rv['k'] == 'use' and rv['op']['k'] == 'const')})
                elif d['l'] in self.tracked_locals():
                    evs.append({'kind': 'write', 'locs': self.loc_of_place(d), 'sp': s['sp'],
                                'desc': 'assignment to %s' % place_str(d), 'exact': True, 'fresh': True})
            elif s['k'] == 'setdiscr':
                d = s['pl']
                if any(e['k'] == 'deref' for e in d['p']):
                    evs.append({'kind': 'write', 'locs': self.loc_of_place(d), 'sp': s['sp'],
                                'desc': 'set discriminant of %s' % place_str(d)})
        t = blk['term']
        if t['k'] == 'call':
            evs.append({'kind': 'call', 'bb': bb, 't': t, 'sp': t['sp']})
        return evs

    _tl = None

    def tracked_locals(self):
        """locals whose address is taken (roots ('l', n) that appear in some pt set)"""
        if self._tl is None:
            s = set()
            for l, locs in self.pt.items():
                for (root, _p) in locs:
                    if root[0] == 'l':
                        s.add(root[1])
            self._tl = s
        return self._tl

    def _rvalue_read_places(self, rv):
        k = rv['k']
        ops = []
        if k in ('use', 'cast'):
            ops = [rv['op']]
        elif k == 'binop':
            ops = [rv['a'], rv['b']]
        elif k == 'unop':
            ops = [rv['a']]
        elif k == 'aggr':
            ops = rv['ops']
        elif k == 'discr':
            return [rv['pl']]
        out = []
        for o in ops:
            pl = op_place(o)
            if pl is not None:
                out.append(pl)
        return out

    def call_effects(self, bb, t):
        """(writes, reads, kills, takes) of a call, as sets of caller AbsLocs, plus callee info"""
        rec = self.calls.get(bb, {})
        c = callee_of(t)
        cpath = c['path'] if c else None
        res = {'writes': set(), 'reads': set(), 'kills': set(), 'takes': set(), 'callee': None,
               'cpath': cpath, 'name': (c['name'] if c else 'fnptr'), 'full': (c['full'] if c else 'fn pointer')}
        if 'callee' in rec:
            res['callee'] = rec['callee']
            return res
        args = t['args']
        tys = t['arg_tys']
        if cpath in KILL_CALLEES and args:
            res['kills'] = self.val_of_operand(args[0])
            return res
        if cpath in TAKE_CALLEES and args:
            res['takes'] = self.val_of_operand(args[0])
            return res
        if cpath in APPEND_CALLEES and len(args) == 2:
            res['writes'] = self.val_of_operand(args[0])
            res['takes'] = self.val_of_operand(args[1])
            return res
        via_defs = {self.facts.inst[v]['def'] for v in rec.get('via', [])}
        # reference plumbing: `Option<&mut T>::unwrap_or_else(..)` and friends hand the reference on without touching
        # what it points to (the result aliases the argument through the points-to of extern call results)
        plumbing = bool(cpath) and cpath.startswith('std::option::Option::<T>::') and \
            cpath.rsplit('::', 1)[-1] in ('unwrap', 'expect', 'unwrap_or', 'unwrap_or_else', 'unwrap_unchecked') and \
            bool(tys) and tys[0].get('s', '').startswith(('std::option::Option<&', 'core::option::Option<&'))
        for ai, (a, ty) in enumerate(zip(args, tys)):
            if ty.get('closure') in via_defs:
                continue    # a closure the callee runs: handled through its own summary below
            if plumbing and ai == 0:
                continue
            locs = self.val_of_operand(a)
            if not locs:
                continue
            if ty_is_mut_handle(ty):
                res['writes'] |= locs
            else:
                res['reads'] |= locs
        # closures handed to an extern function run inside it
        res['via'] = list(rec.get('via', []))
        res['direct_writes'] = set(res['writes'])
        res['direct_reads'] = set(res['reads'])
        for v in rec.get('via', []):
            w = self.eff.W(v)
            r = self.eff.R(v)
            # captures are translated through the closure's construction site; the closure's own
            # parameters come from the extern function's arguments (already counted above)
            vdef = self.facts.inst[v]['def']
            cops = self.closure_ops(t, vdef)
            for (src, dst) in ((w, 'writes'), (r, 'reads')):
                for (root, path) in src:
                    if root[0] != 'c':
                        continue
                    try:
                        k = int(root[1])
                    except ValueError:
                        continue
                    if cops is not None and k < len(cops):
                        for (r2, p2) in self.val_of_operand(cops[k]):
                            res[dst].add((r2, p2 + path))
                    else:
                        for a in args:
                            res[dst] |= self.val_of_operand(a)
        return res


class Effects:
    def __init__(self, facts):
        self.facts = facts
        self._ia = {}
        self._retpt = {}
        self._W = {}
        self._R = {}
        self._errW = {}
        self._inprogress = set()

    def ia(self, iid):
        if iid not in self._ia:
            # guard recursion: register a placeholder first
            self._ia[iid] = None
            self._ia[iid] = InstAnalysis(self, iid)
        return self._ia[iid]

    def ret_pt(self, iid):
        """locations (relative to params) the return value of instance iid may point into"""
        if iid in self._retpt:
            return self._retpt[iid]
        self._retpt[iid] = set()    # recursion guard
        inst = self.facts.inst[iid]
        if inst['def'] not in self.facts.bodies:
            return None
        a = self.ia(iid)
        if a is None:
            return set()
        out = {(root, path) for (root, path) in a.pt[0] if root[0] in ('p', 'c')}
        self._retpt[iid] = out
        return out

    # ------------------------------------------------------------ W / R (flow-insensitive)
    def _wr(self, iid):
        if iid in self._W:
            return
        self._W[iid] = set()
        self._R[iid] = set()
        inst = self.facts.inst[iid]
        if inst['def'] not in self.facts.bodies:
            return
        a = self.ia(iid)
        if a is None:
            return
        W, R = set(), set()
        body = a.body
        for bb in range(len(body.blocks)):
            if body.is_cleanup(bb):
                continue
            for ev in a.block_events(bb):
                if ev['kind'] == 'write':
                    W |= ev['locs']
                elif ev['kind'] == 'read':
                    R |= ev['locs']
                elif ev['kind'] == 'call':
                    ce = a.call_effects(bb, ev['t'])
                    if ce['callee'] is not None:
                        self._wr(ce['callee'])
                        W |= a.translate(ev['t'], self._W[ce['callee']])
                        R |= a.translate(ev['t'], self._R[ce['callee']])
                    else:
                        W |= ce['writes'] | ce['kills'] | ce['takes']
                        R |= ce['reads'] | ce['takes']
        self._W[iid] = {l for l in W if l[0][0] in ('p', 'c')}
        self._R[iid] = {l for l in R if l[0][0] in ('p', 'c')}

    def W(self, iid):
        self._wr(iid)
        return self._W[iid]

    def R(self, iid):
        self._wr(iid)
        return self._R[iid]

    # ------------------------------------------------------------ EA: errW (flow-sensitive)
    def errW(self, iid):
        """dict AbsLoc -> origin for locations possibly written when instance iid returns Err.
        Also returns may_err flag.  (errW, may_err)"""
        if iid in self._errW:
            return self._errW[iid]
        inst = self.facts.inst[iid]
        if inst['def'] not in self.facts.bodies:
            self._errW[iid] = ({}, False)
            return self._errW[iid]
        # recursion guard: assume everything written
        self._errW[iid] = ({l: {'desc': 'recursive call', 'loc': '?'} for l in self.W(iid)}, True)
        a = self.ia(iid)
        res = EAFlow(self, a).run()
        self._errW[iid] = res
        return res


class EAFlow:
    """forward may-analysis: Dirty (committed writes) and Pending (writes that happened only if
    the callee whose result a local holds returned Ok)."""

    def __init__(self, eff, a):
        self.eff = eff
        self.a = a
        self.body = a.body
        self.origin = {}

    def note(self, loc, sp, desc, chain=None):
        if loc not in self.origin:
            self.origin[loc] = {'loc': loc_of(sp) if sp else '?', 'desc': desc, 'chain': chain or []}

    def run(self):
        body = self.body
        # state: dict retkind -> (dirty frozenset, pending frozenset of (placekey, kind, frozenset(locs)))
        # retkind = how `_0` was last defined on the paths summarised: none | ok | err | maybe
        IN = {0: {'none': (frozenset(), frozenset())}}
        work = [0]
        self.at_return = {}
        self.discr_of = {}
        for bi, blk in enumerate(body.blocks):
            for s in blk['st']:
                if s['k'] == 'assign' and s['rv']['k'] == 'discr' and not s['pl']['p']:
                    self.discr_of[s['pl']['l']] = place_key(s['rv']['pl'])
        steps = 0
        while work:
            b = work.pop()
            steps += 1
            if steps > 100000:
                break
            outs = []
            for rk, (dirty, pending) in IN[b].items():
                outs.extend(self.transfer(b, rk, set(dirty),
                                          {pk: (kind, set(locs)) for (pk, kind, locs) in pending}))
            for tgt, rk, d2, p2 in outs:
                new = (frozenset(d2), frozenset((pk, v[0], frozenset(v[1])) for pk, v in p2.items()))
                cur = IN.setdefault(tgt, {})
                old = cur.get(rk)
                if old is None:
                    cur[rk] = new
                    if tgt not in work:
                        work.append(tgt)
                else:
                    od, op_ = old
                    md = od | new[0]
                    pm = {}
                    for (pk, kind, locs) in list(op_) + list(new[1]):
                        if pk in pm:
                            pm[pk] = (kind, pm[pk][1] | locs)
                        else:
                            pm[pk] = (kind, locs)
                    mp = frozenset((pk, v[0], frozenset(v[1])) for pk, v in pm.items())
                    if md != od or mp != op_:
                        cur[rk] = (md, mp)
                        if tgt not in work:
                            work.append(tgt)
        return self.finish()

    def ret_kind_of_rvalue(self, rv):
        if rv['k'] == 'aggr' and rv.get('adt') == 'std::result::Result':
            return 'err' if rv.get('variant') == 'Err' else 'ok'
        if rv['k'] == 'use' and op_place(rv['op']) is not None:
            return 'maybe'
        return 'ok'

    def transfer(self, b, rk, dirty, pend):
        """returns list of (succ, retkind, dirty, pend)"""
        body = self.body
        a = self.a
        blk = body.blocks[b]
        for s in blk['st']:
            if s['k'] != 'assign':
                if s['k'] == 'setdiscr' and any(e['k'] == 'deref' for e in s['pl']['p']):
                    for l in a.loc_of_place(s['pl']):
                        dirty.add(l)
                        self.note(l, s['sp'], 'write in %s' % body.path)
                continue
            d = s['pl']
            rv = s['rv']
            dk = place_key(d)
            if dk == (0, ()):
                rk = self.ret_kind_of_rvalue(rv)
            src = op_place(rv['op']) if rv['k'] == 'use' else None
            if src is not None:
                sk = place_key(src)
                moved = False
                for pk in list(pend):
                    if sk[0] == pk[0] and sk[1][:len(pk[1])] == pk[1]:
                        kind, locs = pend[pk]
                        rest = sk[1][len(pk[1]):]
                        if rest == ():
                            pend[dk] = (kind, set(locs))
                            if rv['op']['k'] == 'move' and dk != pk:
                                del pend[pk]
                            if dk == (0, ()):
                                rk = 'maybe' if kind in ('res', 'cf') else ('err' if kind in ('err', 'residual') else rk)
                            moved = True
                        elif rest[:1] in (('@Ok',), ('@Continue',)):
                            dirty |= locs
                            del pend[pk]
                            moved = True
                        elif rest[:1] in (('@Err',), ('@Break',)):
                            if kind == 'cf':
                                pend[dk] = ('residual', set())
                            moved = True
                        break
                if moved:
                    continue
            if any(e['k'] == 'deref' for e in d['p']):
                for l in a.loc_of_place(d):
                    dirty.add(l)
                    self.note(l, s['sp'], 'assignment to `%s` in %s' % (self.describe(l), body.path))
            if dk in pend and src is None:
                kind, locs = pend.pop(dk)
                dirty |= locs
        t = blk['term']
        k = t['k']
        res = []
        if k == 'call':
            rk = self.do_call(b, t, dirty, pend, rk)
            if 't' in t:
                res.append((t['t'], rk, dirty, pend))
        elif k == 'switch':
            dl = op_local(t['discr'])
            hold = self.discr_of.get(dl) if dl is not None else None
            if hold is not None and hold in pend and pend[hold][0] in ('res', 'cf'):
                kind, locs = pend[hold]
                explicit = {lab for lab, _t in body.edges(b) if lab != 'otherwise'}
                for label, tgt in body.edges(b):
                    if label == 'otherwise' and explicit == {1}:
                        label = 0
                    elif label == 'otherwise' and explicit == {0}:
                        label = 1
                    if label == 0:
                        d2 = set(dirty) | locs
                        p2 = {pk: (v[0], set(v[1])) for pk, v in pend.items() if pk != hold}
                        res.append((tgt, rk, d2, p2))
                    elif label == 1:
                        p2 = {pk: (v[0], set(v[1])) for pk, v in pend.items() if pk != hold}
                        p2[hold] = (kind, set())
                        res.append((tgt, rk, set(dirty), p2))
                    else:
                        res.append((tgt, rk, set(dirty), {pk: (v[0], set(v[1])) for pk, v in pend.items()}))
            else:
                for s2 in body.succ(b):
                    res.append((s2, rk, set(dirty), {pk: (v[0], set(v[1])) for pk, v in pend.items()}))
        elif k == 'drop':
            pk = place_key(t['pl'])
            if pk in pend:
                kind, locs = pend.pop(pk)
                dirty |= locs
            res.append((t['t'], rk, dirty, pend))
        elif k == 'return':
            cur = self.at_return.setdefault(rk, (set(), {}))
            cur[0].update(dirty)
            for pk, v in pend.items():
                if pk in cur[1]:
                    cur[1][pk] = (v[0], cur[1][pk][1] | v[1])
                else:
                    cur[1][pk] = (v[0], set(v[1]))
        else:
            for s2 in body.succ(b):
                res.append((s2, rk, set(dirty), {pk: (v[0], set(v[1])) for pk, v in pend.items()}))
        return res

    def describe(self, l):
        root, path = l
        base = 'param%d' % root[1] if root[0] == 'p' else '_%d' % root[1]
        return base + ''.join('.' + p for p in path)

    def do_call(self, b, t, dirty, pend, rk):
        a = self.a
        to_ret = place_key(t['dest']) == (0, ())
        ce = a.call_effects(b, t)
        dk = place_key(t['dest'])
        # a pending holder passed to a call
        consumed = []
        for ai, arg in enumerate(t['args']):
            pl = op_place(arg)
            if pl is None:
                continue
            ak = place_key(pl)
            if ak in pend:
                consumed.append((ai, ak))
        c = callee_of(t)
        cpath = ce['cpath']
        is_branch = bool(c and c.get('trait') == 'std::ops::Try' and c['name'] == 'branch')
        is_from_res = bool(c and c.get('trait') == 'std::ops::FromResidual')
        if consumed and (is_branch or cpath in PENDING_PRESERVING):
            ai, ak = consumed[0]
            kind, locs = pend.pop(ak)
            pend[dk] = ('cf' if is_branch else 'res', set(locs))
            return 'maybe' if to_ret else rk
        if is_from_res:
            for ai, ak in consumed:
                pend.pop(ak)
            pend[dk] = ('err', set())
            return 'err' if to_ret else rk
        for ai, ak in consumed:
            kind, locs = pend.pop(ak)
            dirty |= locs
        if ce['callee'] is not None:
            cid = ce['callee']
            ew, may_err = self.eff.errW(cid)
            w = self.eff.W(cid)
            cdef = self.eff.facts.inst[cid]['def']
            tw = a.translate(t, w)
            if may_err:
                te = set()
                for l, org in ew.items():
                    for tl in a.translate(t, {l}):
                        te.add(tl)
                        self.note(tl, t['sp'], 'written by `%s` before it returns Err' % cdef,
                                  [org] if org else [])
                for l in te:
                    dirty.add(l)
                rest = tw - te
                for l in rest:
                    self.note(l, t['sp'], 'written by `%s` (only when it returns Ok)' % cdef)
                pend[dk] = ('res', rest)
                return 'maybe' if to_ret else rk
            for l in tw:
                dirty.add(l)
                self.note(l, t['sp'], 'written by call to `%s`' % cdef)
            pend.pop(dk, None)
            return 'ok' if to_ret else rk
        for l in ce['writes'] | ce['kills'] | ce['takes']:
            dirty.add(l)
            self.note(l, t['sp'], 'written by call to `%s` in %s' % (ce['full'], self.body.path))
        if dk in pend:
            kind, locs = pend.pop(dk)
            dirty |= locs
        if to_ret:
            rs = t['ret_ty']['s']
            if rs.startswith('std::result::Result<') or (len(rs) <= 2 and rs[:1].isupper()):
                return 'maybe'
            return 'ok'
        return rk

    def finish(self):
        errw = {}
        may_err = False
        for rk, (dirty, pend) in self.at_return.items():
            if rk in ('err', 'maybe'):
                may_err = True
                for l in dirty:
                    if l[0][0] in ('p', 'c'):
                        errw[l] = self.origin.get(l)
        return (errw, may_err)


# ------------------------------------------------------------------------ KBU

class KBU:
    """kill-before-use of a buffer location from a root instance.

    state per location: 'U' untouched since entry, 'K' killed.  join(U, K) = U.
    A use while 'U' is a violation."""

    def __init__(self, eff, writes_only=False):
        self.eff = eff
        self.memo = {}
        # writes_only: only appending to / modifying the location while 'U' is a violation (reads are
        # not: used where a returned reference may or may not alias the buffer)
        self.writes_only = writes_only

    def summary(self, iid, loc):
        """(violations_from_U, exit_state_from_U) for callee instance iid wrt. callee-relative loc.
        violations: list of dicts; exit_state: 'K' iff every path to a return ends killed"""
        key = (iid, loc)
        if key in self.memo:
            return self.memo[key]
        self.memo[key] = ([], 'U')
        res = self.flow(iid, loc)
        self.memo[key] = res
        return res

    def flow(self, iid, loc, entry='U'):
        eff = self.eff
        a = eff.ia(iid)
        body = a.body
        IN = {0: entry}
        work = [0]
        viols = []
        seen_v = set()
        exits = []
        OUT = {}
        while work:
            b = work.pop()
            st = IN[b]
            for ev in a.block_events(b):
                if ev['kind'] in ('read', 'write'):
                    if ev['kind'] == 'read' and self.writes_only:
                        continue
                    if any(covers(l, loc) for l in ev['locs']):
                        exact_fresh = ev['kind'] == 'write' and ev.get('exact') and ev.get('fresh') and \
                            all(under(loc, l) for l in ev['locs'])
                        if exact_fresh:
                            st = 'K'
                        elif st == 'U':
                            k = (b, ev['desc'])
                            if k not in seen_v:
                                seen_v.add(k)
                                viols.append({'fn': body.path, 'loc': loc_of(ev['sp']), 'what': ev['desc']})
                elif ev['kind'] == 'call':
                    t = ev['t']
                    ce = a.call_effects(b, t)
                    if ce['callee'] is not None:
                        cid = ce['callee']
                        # which callee-relative locations correspond to loc?
                        touched = False
                        cw = eff.W(cid) | eff.R(cid)
                        cands = set()
                        _eargs0, _etys0 = a.eff_args(t)
                        for cl in cw:
                            if cl[0][0] == 'p' and not cl[1] and isinstance(cl[0][1], int) and 1 <= cl[0][1] <= len(_etys0) and \
                                    _etys0[cl[0][1] - 1].get('closure'):
                                # the closure value itself being moved / called: what it captures is reached through
                                # the `#c` paths, which are translated precisely
                                continue
                            for tl in a.translate(t, {cl}):
                                if covers(tl, loc):
                                    cands.add(cl)
                        # also the exact location passed as a parameter
                        eargs, etys = a.eff_args(t)
                        for j, (arg, aty) in enumerate(zip(eargs, etys)):
                            for al in a.val_of_operand(arg):
                                if under(loc, al) and aty.get('ref') is not None:
                                    cands.add((('p', j + 1), loc[1][len(al[1]):]))
                        # use the most specific candidates that denote loc itself
                        rel = set()
                        for cl in cands:
                            rel.add(cl)
                        exit_states = []
                        for cl in rel:
                            # only analyse callee-relative locs that translate to exactly loc or cover it
                            cv, cexit = self.summary(cid, cl)
                            if st == 'U':
                                for v in cv:
                                    k = (b, v['fn'], v['loc'], v['what'])
                                    if k not in seen_v:
                                        seen_v.add(k)
                                        v2 = dict(v)
                                        v2['via'] = [body.path + ' ' + loc_of(t['sp'])] + v.get('via', [])
                                        viols.append(v2)
                            exit_states.append(cexit)
                        if rel:
                            if st == 'U' and exit_states and all(e == 'K' for e in exit_states):
                                st = 'K'
                    else:
                        hits_k = any(under(loc, l) for l in ce['kills'])
                        hits_t = any(covers(l, loc) for l in ce['takes'])
                        hits_w = any(covers(l, loc) for l in ce.get('direct_writes', ce['writes']))
                        hits_r = any(covers(l, loc) for l in ce.get('direct_reads', ce['reads'])) and not self.writes_only
                        # closures the extern function may run: apply their own kill-before-use summary
                        for v in ce.get('via', []):
                            vdef = eff.facts.inst[v]['def']
                            cops = a.closure_ops(t, vdef)
                            for cl in (eff.W(v) | eff.R(v)):
                                if cl[0][0] != 'c':
                                    continue
                                try:
                                    kk = int(cl[0][1])
                                except ValueError:
                                    continue
                                tls = set()
                                if cops is not None and kk < len(cops):
                                    for (r2, p2) in a.val_of_operand(cops[kk]):
                                        tls.add((r2, p2 + cl[1]))
                                if any(covers(tl, loc) for tl in tls):
                                    cv, _cexit = self.summary(v, cl)
                                    if st == 'U':
                                        for vv in cv:
                                            k = (b, vv['fn'], vv['loc'], vv['what'])
                                            if k not in seen_v:
                                                seen_v.add(k)
                                                v2 = dict(vv)
                                                v2['via'] = [body.path + ' ' + loc_of(t['sp'])] + vv.get('via', [])
                                                viols.append(v2)
                        if hits_k:
                            st = 'K'
                        elif hits_t:
                            if st == 'U':
                                k = (b, 'take')
                                if k not in seen_v:
                                    seen_v.add(k)
                                    viols.append({'fn': body.path, 'loc': loc_of(t['sp']),
                                                  'what': 'contents taken by `%s`' % ce['full']})
                            st = 'K'
                        elif hits_w or hits_r:
                            if st == 'U':
                                k = (b, ce['full'])
                                if k not in seen_v:
                                    seen_v.add(k)
                                    viols.append({'fn': body.path, 'loc': loc_of(t['sp']),
                                                  'what': 'passed to `%s`' % ce['full']})
            OUT[b] = st
            t = body.blocks[b]['term']
            if t['k'] == 'return':
                exits.append(st)
            for s2 in body.succ(b):
                old = IN.get(s2)
                new = st if old is None else ('K' if (old == 'K' and st == 'K') else 'U')
                if old != new:
                    IN[s2] = new
                    work.append(s2)
        exit_state = 'K' if exits and all(e == 'K' for e in exits) else 'U'
        return (viols, exit_state)


def clean_on_exit(eff, iid, loc):
    """every non-unwinding exit of instance iid is reached with `loc` killed after its last
    write/use.  Returns list of offending returns."""
    a = eff.ia(iid)
    body = a.body
    IN = {0: 'clean'}
    work = [0]
    bad = []
    while work:
        b = work.pop()
        st = IN[b]
        for ev in a.block_events(b):
            if ev['kind'] == 'write' and any(covers(l, loc) for l in ev['locs']):
                st = 'dirty'
            elif ev['kind'] == 'call':
                t = ev['t']
                ce = a.call_effects(b, t)
                if ce['callee'] is not None:
                    tw = a.translate(t, eff.W(ce['callee']))
                    if any(covers(l, loc) for l in tw):
                        st = 'dirty'
                else:
                    if any(under(loc, l) for l in ce['kills']) or any(under(loc, l) for l in ce['takes']):
                        st = 'clean'
                    elif any(covers(l, loc) for l in ce['writes']):
                        st = 'dirty'
        t = body.blocks[b]['term']
        if t['k'] == 'return' and st == 'dirty':
            bad.append(loc_of(t['sp']))
        for s2 in body.succ(b):
            old = IN.get(s2)
            new = st if old is None else ('dirty' if 'dirty' in (old, st) else 'clean')
            if old != new:
                IN[s2] = new
                work.append(s2)
    return bad
