"""FR-F3/F4/SW as one decision table (C05, C01): what `parse_section` does with one line.

The function is evaluated symbolically (symeval) with its crate-local helpers inlined: one iteration of its
line loop is a tree over
   R  what `read_line` returned (a line / end of input / an error),
   S  `should_skip_line(line)`,
   H  `Section::try_from_line(line)` is `Some(next)`,
and its leaves say whether the iteration reads the next line, returns (and what), and whether the section's
parser was called (with which arguments).  The legacy framing is

   R=line & S            -> next line, parser not called
   R=line & !S & H       -> return Continue(next) with `next` from the header test, parser not called
   R=line & !S & !H      -> parser(state, line) called once, then the next line whatever the parser returned
   R=end of input        -> return Break
   R=error               -> return the error (explicitly or through `?`)

The table does not care whether this is written as `loop { match .. }`, `while let Some(line) = reader.read_line()?`,
with early `continue`s, or as classify-then-act over a small enum."""
import hirutil as H
import symeval as SE
from hp import strip


class LoopEval(SE.SymEval):
    def __init__(self, fparam):
        super().__init__(None, budget=30000)
        self.track_let_blocks = True
        self.fparam = fparam
        self.propagated = []

    def effect(self, st, env):
        e = strip(st)
        return self._calls(e, env)

    def _calls(self, e, env):
        hits = []

        def v(n, anc):
            if n.get('k') == 'call' and isinstance(n.get('f'), dict) and strip(n['f']).get('k') == 'local' and \
                    strip(n['f']).get('name') == self.fparam:
                hits.append(n)
                if any(H.is_try(a) for a in anc):
                    self.propagated.append(n.get('ln'))
        if isinstance(e, dict):
            H.walk(e, v)
        if not hits:
            return None
        env2 = dict(env)
        env2['#f'] = tuple(env.get('#f', ())) + tuple(tuple(self.subst(a, env) for a in h['args']) for h in hits)
        return env2

    def stmt(self, st, env, knext, kret, as_tail=None):
        if isinstance(st, dict) and st.get('k') == 'slet' and 'init' in st:
            e2 = self._calls(st['init'], env)
            if e2 is not None:
                env = e2
        if isinstance(st, dict) and st.get('k') == 'loop':
            body = st['body']

            def again(env2, tl):
                if tl is not None and isinstance(tl, dict):
                    return self.stmt(tl, env2, lambda e3: ('v', {'k': 'again', 'f': e3.get('#f', ())}), kret)
                return ('v', {'k': 'again', 'f': env2.get('#f', ())})
            t = self.seq(list(body.get('stmts', [])), body.get('expr'), dict(env), again, kret=kret)

            def patch(x):
                if x[0] == 'ite':
                    return ('ite', x[1], patch(x[2]), patch(x[3]))
                if isinstance(x[1], dict) and x[1].get('k') == 'break':
                    return knext(env)
                if isinstance(x[1], dict) and x[1].get('k') == 'continue':
                    return ('v', {'k': 'again', 'f': x[1].get('f', ())})
                return x
            return patch(t)
        if isinstance(st, dict) and st.get('k') == 'continue':
            return ('v', {'k': 'continue', 'f': env.get('#f', ())})
        return super().stmt(st, env, knext, kret, as_tail)


def _sig(p):
    if not isinstance(p, dict):
        return '?'
    k = p.get('k')
    while k == 'pref':
        p = p['p']
        k = p.get('k')
    if k in ('ptstruct',):
        return p['path'].get('name', '?') + '(' + ','.join(_sig(x) for x in p.get('pats', [])) + ')'
    if k == 'pexpr':
        return p['e'].get('name', '?')
    if k == 'path':
        return p.get('name', '?')
    if k == 'bind' and 'sub' in p:
        return _sig(p['sub'])
    if k in ('bind', 'wild'):
        return '_'
    return k or '?'


def table(facts, hfn):
    """[(label, ok, why)]"""
    ps = [H.pat_bindings(p_)[0] for p_ in hfn.get('params', []) if H.pat_bindings(p_)]
    if len(ps) != 3:
        return [('table', False, 'unexpected signature of parse_section')]
    reader, state, f = ps
    res = None
    why_last = ''
    for dpt in (0, 1, 2):
        vh = hfn if dpt == 0 else H.inlined_fn(facts, hfn, depth=dpt, keep=('read_line', 'try_from_line', 'should_skip_line',
                                                                           'log_error_cause'))
        ev = LoopEval(f)
        body = vh['body']
        try:
            tree = ev.seq(list(body.get('stmts', [])), body.get('expr'), {},
                          lambda env, tail: ('v', {'k': 'fnend', 'e': ev.subst(tail, env) if tail is not None else None,
                                                   'f': env.get('#f', ())}),
                          kret=lambda vt, env=None: ('v', {'k': 'ret', 'e': vt, 'f': (env or {}).get('#f', ())}))
        except SE.Stop:
            why_last = 'parse_section too large to evaluate'
            continue
        r = _judge(tree, reader, state)
        okp = not ev.propagated
        r.append(('parser-result-not-propagated', okp,
                  '' if okp else 'the parser result is propagated with `?` (line %s): a rejected line would abort the decode' % ev.propagated[0]))
        if all(x[1] for x in r):
            return r
        if res is None or sum(1 for x in r if not x[1]) < sum(1 for x in res if not x[1]):
            res = r
    return res or [('table', False, why_last)]


def _classify(c, reader):
    txt = None
    if c[0] == 'pat':
        sc = repr(c[2])[:6000]
        sg = _sig(c[1])
        if ("'read_line'" in sc or ("'k': 'mcall'" in sc and ("'name': '%s'" % reader) in sc)) and 'try_from_line' not in sc:
            if sg.startswith('Some('):
                return ('R', 'line', True, 'eof')          # on the Option (after `?`): no line = end of input
            if sg.startswith('Ok(Some'):
                return ('R', 'line', True)
            if sg.startswith('Ok(None') or sg == 'None':
                return ('R', 'eof', True)
            if sg.startswith('Err('):
                return ('R', 'err', True)
            if sg.startswith('Ok('):
                return ('R', 'ok', True)
            return None
        if 'try_from_line' in sc:
            if sg.startswith('Some(') or sg.endswith('Some(_)'):
                return ('H', None, True)
            if sg == 'None':
                return ('H', None, False)
        return None
    e = strip(c[1])
    pol = True
    while isinstance(e, dict) and e.get('k') == 'unary' and e.get('op') == 'Not':
        e = strip(e['e'])
        pol = not pol
    if isinstance(e, dict) and e.get('k') in ('call', 'mcall'):
        name = e['f'].get('name') if e['k'] == 'call' and e['f'].get('k') == 'path' else e.get('name')
        if name == 'should_skip_line':
            return ('S', None, pol)
        if name in ('is_some', 'is_none') and 'try_from_line' in repr(e)[:3000]:
            return ('H', None, pol if name == 'is_some' else not pol)
    return None


def _judge(tree, reader, state):
    out = []
    rows = {}         # (R, S, H) -> set of outcome descriptions
    unknown = []

    def walk(t, val):
        if t[0] == 'v':
            rows.setdefault((val.get('R'), val.get('S'), val.get('H')), []).append(t[1])
            return
        _, c, th, el = t
        cl = _classify(c, reader)
        if cl is None:
            walk(th, val)
            walk(el, val)
            return
        what, arg, pol = cl[:3]
        if what == 'R':
            cur = val.get('R')
            v1 = dict(val)
            if cur is None or cur == arg or (cur == 'ok' and arg in ('line', 'eof')):
                v1['R'] = arg
                walk(th, v1)
            v2 = dict(val)
            v2.setdefault('notR', set())
            v2 = dict(v2, notR=set(v2['notR']) | {arg})
            if len(cl) > 3 and v2.get('R') is None:
                v2['R'] = cl[3]
            walk(el, v2)
        else:
            v1, v2 = dict(val), dict(val)
            v1[what] = pol
            v2[what] = not pol
            if val.get(what) in (None, pol):
                walk(th, v1)
            if val.get(what) in (None, not pol):
                walk(el, v2)
    walk(tree, {})

    def leaves(pred):
        return [l for k_, ls in rows.items() if pred(k_) for l in ls]

    def kinds(ls):
        return {l.get('k') for l in ls if isinstance(l, dict)}
    has_q = any("TryDesugar" in repr(l)[:100] for ls in rows.values() for l in ls)
    # a line that is skipped
    sk = leaves(lambda k_: k_[1] is True)
    ok = bool(sk) and kinds(sk) <= {'again', 'continue'} and all(not l.get('f') for l in sk)
    out.append(('skip->next-line', ok, '' if ok else 'a skipped line is not simply followed by the next line (the parser is called / the loop is left)'))
    # header
    hd = leaves(lambda k_: k_[1] is False and k_[2] is True)
    okh = bool(hd) and kinds(hd) <= {'ret'} and all(not l.get('f') for l in hd) and \
        all("'name': 'Break'" not in repr(l.get('e'))[:4000] and "'name': 'Err'" not in repr(l.get('e'))[:4000] and
            "'name': 'None'" not in repr(l.get('e'))[:4000] for l in hd) and \
        all('try_from_line' in repr(l.get('e'))[:8000] or "'k': 'local'" in repr(l.get('e'))[:8000] for l in hd)
    out.append(('header->Continue(next)', okh, '' if okh else 'a section header line does not end the section with the header just read'))
    # content
    ct = leaves(lambda k_: k_[1] is False and k_[2] is False)
    okc = bool(ct) and kinds(ct) <= {'again', 'continue'} and all(len(l.get('f', ())) == 1 for l in ct)
    out.append(('content->parser-then-next-line', okc,
                '' if okc else ('a content line is not handed to the section parser exactly once and followed by the next line '
                                'whatever the parser returned (outcomes: %s, parser calls: %s)'
                                % (sorted(kinds(ct)), sorted({len(l.get('f', ())) for l in ct})))))
    # same line everywhere: the parser receives (state, line) where line is the read_line payload
    same = True
    for l in ct:
        for args in l.get('f', ()):
            if len(args) != 2:
                same = False
                continue
            a0, a1 = strip(args[0]), strip(args[1])
            if not (isinstance(a0, dict) and a0.get('k') == 'local' and a0.get('name') == state):
                same = False
            if not (isinstance(a1, dict) and a1.get('k') == 'local'):
                same = False
    out.append(('parser-gets-state-and-line', same and bool(ct), '' if same and ct else 'the parser is not called with (state, the line just read)'))
    # end of input
    eof = leaves(lambda k_: k_[0] == 'eof')
    fe = [l for ls in rows.values() for l in ls if isinstance(l, dict) and l.get('k') == 'fnend']
    oke = (bool(eof) and kinds(eof) <= {'ret', 'fnend'} and all('Break' in repr(l.get('e'))[:3000] or 'None' in repr(l.get('e'))[:3000] for l in eof)) \
        or (not eof and bool(fe) and all('Break' in repr(l.get('e'))[:3000] or 'None' in repr(l.get('e'))[:3000] for l in fe))
    out.append(('eof->Break', oke, '' if oke else 'end of input does not end the section loop with Break / None'))
    err = leaves(lambda k_: k_[0] == 'err')
    okr = (bool(err) and kinds(err) <= {'ret'} and all('Err' in repr(l.get('e'))[:3000] for l in err)) or (not err)
    out.append(('error->Err', okr, '' if okr else 'a read error does not leave parse_section as that error'))
    return out


def first_section_table(facts, hfn):
    """parse_first_section as a table: (after the optional look at the current line) every line read is tested for a
    section header: a header ends the search with that section, any other line is passed over, end of input gives
    `None`, a read error is returned.  [(label, ok, why)]"""
    ps = [H.pat_bindings(p_)[0] for p_ in hfn.get('params', []) if H.pat_bindings(p_)]
    reader = ps[0] if ps else 'reader'
    best = None
    for dpt in (0, 1, 2):
        vh = hfn if dpt == 0 else H.inlined_fn(facts, hfn, depth=dpt, keep=('read_line', 'try_from_line', 'curr_line'))
        ev = LoopEval('__none__')
        body = vh['body']
        try:
            tree = ev.seq(list(body.get('stmts', [])), body.get('expr'), {},
                          lambda env, tail: ('v', {'k': 'fnend', 'e': ev.subst(tail, env) if tail is not None else None}),
                          kret=lambda vt, env=None: ('v', {'k': 'ret', 'e': vt}))
        except SE.Stop:
            continue
        rows = {'hdr': [], 'nohdr': [], 'eof': [], 'err': [], 'other': []}

        def walk(t, val):
            if t[0] == 'v':
                key = 'other'
                if val.get('R') == 'eof':
                    key = 'eof'
                elif val.get('R') == 'err':
                    key = 'err'
                elif val.get('R') in ('line', 'ok') and val.get('H') is True:
                    key = 'hdr'
                elif val.get('R') in ('line', 'ok') and val.get('H') is False:
                    key = 'nohdr'
                rows[key].append(t[1])
                return
            _, c, th, el = t
            cl = _classify(c, reader)
            if cl is None:
                walk(th, val)
                walk(el, val)
                return
            what, arg, pol = cl[:3]
            if what == 'R':
                v1 = dict(val)
                v1['R'] = arg
                walk(th, v1)
                v2 = dict(val)
                if len(cl) > 3:
                    v2['R'] = cl[3]
                walk(el, v2)
            elif what == 'H':
                v1, v2 = dict(val), dict(val)
                v1['H'], v2['H'] = pol, not pol
                walk(th, v1)
                walk(el, v2)
            else:
                walk(th, val)
                walk(el, val)
        walk(tree, {})
        kinds = lambda ls: {l.get('k') for l in ls if isinstance(l, dict)}
        txt = lambda l: repr(l.get('e'))[:4000]
        r = []
        okh = bool(rows['hdr']) and kinds(rows['hdr']) <= {'ret'} and all(
            ("'k': 'local'" in txt(l) or 'try_from_line' in txt(l)) and "'name': 'None'" not in txt(l) for l in rows['hdr'])
        r.append(('first:header->that-section', okh, '' if okh else 'a header line does not end the search with the section it names'))
        okn = bool(rows['nohdr']) and kinds(rows['nohdr']) <= {'again', 'continue'}
        r.append(('first:other-line->next-line', okn, '' if okn else 'a line that is no header is not simply passed over'))
        eofl = rows['eof'] or [l for l in rows['other'] if isinstance(l, dict) and l.get('k') in ('fnend',)]
        oke = bool(eofl) and all("'name': 'None'" in txt(l) for l in eofl)
        r.append(('first:eof->None', oke, '' if oke else 'end of input does not give `None`'))
        okr = all("'name': 'Err'" in txt(l) for l in rows['err'])
        r.append(('first:error->Err', okr, '' if okr else 'a read error is not returned'))
        if all(x[1] for x in r):
            return r
        if best is None or sum(1 for x in r if not x[1]) < sum(1 for x in best if not x[1]):
            best = r
    return best or [('first:table', False, 'parse_first_section could not be evaluated')]
