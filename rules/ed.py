"""ED / AL / EP: I/O error discipline, reader API allow-list, error provenance.

ED  every io::Result produced by a call in the decode/encode paths ends in a propagating
    sink on every CFG path on which it may be an Err.
AL  reader methods used on the decode path never synthesise an error on clean input.
EP  no io::Error is constructed on the decode path, no foreign error is converted into one.
FL  every Ok return of Beatmap::encode is the value of Write::flush.
WR  the encoder only uses write_all / write_fmt / flush.
"""
from facts import place_key, op_place, op_local, callee_of, place_str
from common import loc_of, is_io_result

PROPAGATING_COMBINATORS = {
    'std::result::Result::<T, E>::map',
    'std::result::Result::<T, E>::and_then',
    'std::result::Result::<T, E>::map_err',   # accepted only when the closure/ctor is identity-preserving: see below
}

# reader methods whose Err is always the underlying reader's own
AL_ALLOWED = {'fill_buf', 'consume', 'read_until', 'read', 'read_to_end', 'take', 'by_ref', 'chain',
              'bytes', 'skip_until', 'has_data_left'}
AL_SYNTHESISING = {'read_exact': 'UnexpectedEof on a clean end of input',
                   'read_line': 'InvalidData on non-UTF-8 input',
                   'lines': 'InvalidData on non-UTF-8 input',
                   'read_to_string': 'InvalidData on non-UTF-8 input',
                   'read_buf_exact': 'UnexpectedEof on a clean end of input'}
# primitives that may surface ErrorKind::Interrupted (std's wrappers retry internally)
INTERRUPTIBLE = {'fill_buf', 'read', 'write', 'read_buf', 'read_vectored', 'write_vectored'}

WRITE_ALLOWED = {'write_all', 'write_fmt', 'flush', 'by_ref'}

IOERR_CTORS = ('std::io::Error::new', 'std::io::Error::other', 'std::io::Error::from_raw_os_error',
               'std::io::Error::last_os_error', 'std::io::Error::from')


def _promoted_is_interrupted(body, idx):
    proms = body.j.get('promoted', [])
    if idx >= len(proms):
        return False
    for b in proms[idx]['blocks']:
        for s in b['st']:
            if s['k'] == 'assign' and s['rv']['k'] == 'aggr' and s['rv'].get('adt') == 'std::io::ErrorKind':
                return s['rv'].get('variant') == 'Interrupted'
    return False


class _Tracker:
    """forward exploration of one io::Result instance"""

    def __init__(self, body, call_bb):
        self.body = body
        self.call_bb = call_bb
        self.problems = []
        self.sinks = set()
        self.kind_locals = {}   # local holding ErrorKind of payload -> True
        self.eq_locals = {}     # local holding `kind == Interrupted`
        self.discr_of = {}      # local -> holder place key (discr read)

    def run(self):
        t = self.body.term(self.call_bb)
        dest = place_key(t['dest'])
        if 't' not in t:
            return
        if dest == (0, ()):
            # value produced straight into the return place
            holders = frozenset([((0, ()), 'res')])
        else:
            holders = frozenset([(dest, 'res')])
        seen = set()
        work = [(t['t'], 0, holders, False)]
        while work:
            st = work.pop()
            if st in seen:
                continue
            seen.add(st)
            if len(seen) > 20000:
                self.problems.append(('exploration bound exceeded', None))
                return
            self.step(st, work)

    # -- helpers
    def holder_of(self, holders, pk):
        for h, k in holders:
            if h == pk:
                return k
        return None

    def derived(self, holders, pk):
        """pk is a projection of some holder: returns (holder, kind, rest)"""
        for h, k in holders:
            if pk[0] == h[0] and pk[1][:len(h[1])] == h[1]:
                return h, k, pk[1][len(h[1]):]
        return None

    def step(self, st, work):
        bb, idx, holders, retry = st
        body = self.body
        blk = body.blocks[bb]
        # reaching the originating call again = retry completed
        if bb == self.call_bb and idx == 0 and retry:
            self.sinks.add('retry')
            return
        hs = set(holders)
        stmts = blk['st']
        i = idx
        while i < len(stmts):
            s = stmts[i]
            i += 1
            if s['k'] != 'assign':
                continue
            dst = place_key(s['pl'])
            rv = s['rv']
            k = rv['k']
            src_pl = None
            if k == 'use':
                src_pl = op_place(rv['op'])
            if k == 'discr':
                pk = place_key(rv['pl'])
                if self.holder_of(hs, pk):
                    self.discr_of[dst[0]] = pk
                continue
            if k == 'ref':
                pk = place_key(rv['pl'])
                d = self.derived(hs, pk)
                if d:
                    # shared reference to the result or its payload: inspection handle
                    hs.add((dst, 'ref'))
                continue
            if src_pl is not None:
                pk = place_key(src_pl)
                d = self.derived(hs, pk)
                if d:
                    h, hk, rest = d
                    moved = rv['op']['k'] == 'move'
                    if rest == ():
                        newk = hk
                    elif hk == 'res' and rest[:1] == ('@Err',):
                        newk = 'err'
                    elif hk == 'cf' and rest[:1] == ('@Break',):
                        newk = 'err'
                    elif hk == 'ref':
                        newk = 'ref'
                    elif hk == 'res' and rest[:1] == ('@Ok',):
                        newk = None     # Ok payload: not tracked
                    elif hk == 'cf' and rest[:1] == ('@Continue',):
                        newk = None
                    else:
                        newk = hk
                    if newk:
                        if moved and hk != 'ref':
                            hs.discard((h, hk))
                        # overwriting dst kills older holder at dst
                        hs = {x for x in hs if x[0] != dst}
                        hs.add((dst, newk))
                    continue
            if k == 'aggr' and rv['ak'] == 'adt' and rv.get('adt') == 'std::result::Result' and rv.get('variant') == 'Err':
                o = rv['ops'][0]
                pl = op_place(o)
                if pl is not None:
                    pk = place_key(pl)
                    hk = self.holder_of(hs, pk)
                    if hk == 'err':
                        hs.discard((pk, hk))
                        hs = {x for x in hs if x[0] != dst}
                        hs.add((dst, 'res_err'))
                        continue
            # any other statement that reads a holder is an unrecognised use
            used = self.stmt_uses(rv, hs)
            if used:
                self.problems.append(('io::Result used in an unrecognised way: %s' % used, s['sp']))
                return
            # plain overwrite of a holder location
            if any(x[0] == dst for x in hs):
                lost = [x for x in hs if x[0] == dst and x[1] != 'ref']
                if lost:
                    self.problems.append(('io::Result overwritten before being propagated', s['sp']))
                    return
                hs = {x for x in hs if x[0] != dst}
        live = {x for x in hs if x[1] != 'ref'}
        t = blk['term']
        tk = t['k']
        if not live and not retry:
            # nothing left to propagate on this path (moved into a sink already handled)
            return
        if tk == 'return':
            if retry:
                self.problems.append(('Interrupted error dropped without retrying the call', t['sp']))
                return
            k0 = self.holder_of(hs, (0, ()))
            if k0 in ('res', 'res_err'):
                self.sinks.add('return')
                rest = {x for x in live if x[0] != (0, ())}
                if rest:
                    self.problems.append(('io::Result still held in %s at return' % sorted(rest), t['sp']))
                return
            self.problems.append(('function returns while an unpropagated io::Result is held in %s' %
                                  ', '.join('_%d%s' % (h[0], ''.join(h[1])) for h, _ in live), t['sp']))
            return
        if tk == 'goto':
            work.append((t['t'], 0, frozenset(hs), retry))
            return
        if tk == 'switch':
            dl = op_local(t['discr'])
            if dl is not None and dl in self.discr_of:
                pk = self.discr_of[dl]
                hk = self.holder_of(hs, pk)
                if hk in ('res', 'cf'):
                    explicit = {lab for lab, _t in body.edges(bb) if lab != 'otherwise'}
                    for label, tgt in body.edges(bb):
                        if label == 'otherwise' and explicit == {1}:
                            label = 0       # two-variant enum: everything but Err/Break is Ok/Continue
                        if label == 0:
                            # Ok / Continue: obligation discharged on this edge
                            rest = frozenset(x for x in hs if x[0] != pk)
                            if any(x[1] != 'ref' for x in rest) or retry:
                                work.append((tgt, 0, rest, retry))
                            else:
                                self.sinks.add('ok-edge')
                        else:
                            work.append((tgt, 0, frozenset(hs), retry))
                    return
            if dl is not None and dl in self.eq_locals:
                for label, tgt in body.edges(bb):
                    if label == 0:
                        work.append((tgt, 0, frozenset(hs), retry))
                    else:
                        # kind == Interrupted: the error may be dropped, the call must be retried
                        work.append((tgt, 0, frozenset(hs), 'armed'))
                return
            for label, tgt in body.edges(bb):
                work.append((tgt, 0, frozenset(hs), retry))
            return
        if tk == 'drop':
            pk = place_key(t['pl'])
            hk = self.holder_of(hs, pk)
            if hk and hk != 'ref':
                if retry == 'armed':
                    hs2 = frozenset(x for x in hs if x[0] != pk)
                    work.append((t['t'], 0, hs2, True))
                    return
                if hk in ('res', 'cf', 'err', 'res_err'):
                    self.problems.append(('io::Result dropped without being propagated', t['sp']))
                    return
            work.append((t['t'], 0, frozenset(hs), retry))
            return
        if tk == 'assert':
            work.append((t['t'], 0, frozenset(hs), retry))
            return
        if tk == 'call':
            c = callee_of(t)
            cpath = c['path'] if c else None
            args = t['args']
            arg_hold = []
            for a in args:
                pl = op_place(a)
                if pl is None:
                    arg_hold.append(None)
                    continue
                d = self.derived(hs, place_key(pl))
                arg_hold.append(d)
            dst = place_key(t['dest'])
            used = [d for d in arg_hold if d]
            if not used:
                # unrelated call; dest overwrite check
                if any(x[0] == dst and x[1] != 'ref' for x in hs):
                    self.problems.append(('io::Result overwritten before being propagated', t['sp']))
                    return
                hs = {x for x in hs if x[0] != dst}
                if 't' in t:
                    work.append((t['t'], 0, frozenset(hs), retry))
                return
            h, hk, rest = used[0]
            name = c['name'] if c else None
            if cpath and cpath.endswith('Try>::branch') or (c and c.get('trait') == 'std::ops::Try' and name == 'branch'):
                if hk == 'res' and rest == ():
                    hs.discard((h, hk))
                    hs = {x for x in hs if x[0] != dst}
                    hs.add((dst, 'cf'))
                    work.append((t['t'], 0, frozenset(hs), retry))
                    return
            if c and c.get('trait') == 'std::ops::FromResidual' and name == 'from_residual':
                if hk == 'err':
                    full = c['full']
                    hs.discard((h, hk))
                    hs = {x for x in hs if x[0] != dst}
                    hs.add((dst, 'res_err'))
                    self.sinks.add('?')
                    if 't' in t:
                        work.append((t['t'], 0, frozenset(hs), retry))
                    return
            if cpath in PROPAGATING_COMBINATORS and hk == 'res' and rest == () and arg_hold[0]:
                if cpath.endswith('map_err'):
                    # only error-preserving when it does not apply to io::Error at all
                    self.problems.append(('map_err applied to an io::Result (error may be replaced)', t['sp']))
                    return
                hs.discard((h, hk))
                hs = {x for x in hs if x[0] != dst}
                hs.add((dst, 'res'))
                self.sinks.add('combinator')
                if 't' in t:
                    work.append((t['t'], 0, frozenset(hs), retry))
                return
            if cpath == 'std::io::Error::kind' and hk == 'ref':
                self.kind_locals[dst[0]] = True
                # reference to the kind value
                if 't' in t:
                    work.append((t['t'], 0, frozenset(hs), retry))
                return
            # unrecognised consumer
            self.problems.append(('io::Result passed to `%s` (not a propagating sink)' % (cpath or 'fn pointer'), t['sp']))
            return
        if tk in ('unreachable', 'resume', 'terminate'):
            return
        self.problems.append(('unhandled terminator %s' % tk, t.get('sp')))

    def stmt_uses(self, rv, hs):
        places = []
        k = rv['k']
        if k in ('use',):
            pl = op_place(rv['op'])
            if pl:
                places.append(pl)
        elif k in ('binop',):
            for o in (rv['a'], rv['b']):
                pl = op_place(o)
                if pl:
                    places.append(pl)
        elif k in ('unop',):
            pl = op_place(rv['a'])
            if pl:
                places.append(pl)
        elif k == 'cast':
            pl = op_place(rv['op'])
            if pl:
                places.append(pl)
        elif k == 'aggr':
            for o in rv['ops']:
                pl = op_place(o)
                if pl:
                    places.append(pl)
        for pl in places:
            d = self.derived(hs, place_key(pl))
            if d and d[1] != 'ref':
                return place_str(pl)
        return None


def _scan_eq_locals(body, tr):
    """find locals holding `kind(payload) == ErrorKind::Interrupted` (flow-insensitive pre-pass)"""
    # refs to kind locals
    refs = {}
    proms = {}
    for bi, b in enumerate(body.blocks):
        for s in b['st']:
            if s['k'] != 'assign' or s['pl']['p']:
                continue
            rv = s['rv']
            if rv['k'] == 'ref' and not rv['pl']['p']:
                refs[s['pl']['l']] = rv['pl']['l']
            if rv['k'] == 'ref' and rv['pl']['p'] and rv['pl']['p'][0]['k'] == 'deref' and len(rv['pl']['p']) == 1:
                refs[s['pl']['l']] = ('deref', rv['pl']['l'])
            if rv['k'] == 'use' and rv['op']['k'] == 'const' and 'promoted' in rv['op']:
                proms[s['pl']['l']] = rv['op']['promoted']
    kind_dests = set()
    for bi, t in body.calls():
        c = callee_of(t)
        if c and c['path'] == 'std::io::Error::kind' and not t['dest']['p']:
            kind_dests.add(t['dest']['l'])
    for bi, t in body.calls():
        c = callee_of(t)
        if not c or c.get('impl_trait') != 'std::cmp::PartialEq' and c.get('trait') != 'std::cmp::PartialEq':
            continue
        if 'ErrorKind' not in c['full']:
            continue
        if len(t['args']) != 2:
            continue
        a, b = t['args']
        la, lb = op_local(a), op_local(b)
        ok_a = la in refs and refs[la] in kind_dests
        ok_b = False
        if lb in refs and isinstance(refs[lb], tuple):
            src = refs[lb][1]
            if src in proms and _promoted_is_interrupted(body, proms[src]):
                ok_b = True
        if ok_a and ok_b and c['name'] == 'eq' and not t['dest']['p']:
            tr.eq_locals[t['dest']['l']] = True


def check_fn(body, out, rule='ED'):
    """check every io::Result-producing call in one body"""
    n = 0
    for bb, t in body.calls():
        if body.is_cleanup(bb):
            continue
        if not is_io_result(t['ret_ty']['s']):
            continue
        c = callee_of(t)
        if c and c.get('trait') in ('std::ops::FromResidual', 'std::ops::Try'):
            continue
        if c and c['path'] in PROPAGATING_COMBINATORS:
            # the combinator's own output is tracked as the continuation of its input
            # but it is also an instance of its own (its result must be propagated too)
            pass
        name = c['name'] if c else 'fnptr'
        tr = _Tracker(body, bb)
        _scan_eq_locals(body, tr)
        tr.run()
        n += 1
        interruptible = bool(c and c.get('trait') in ('std::io::Read', 'std::io::BufRead', 'std::io::Write')
                             and name in INTERRUPTIBLE)
        ok = not tr.problems
        why = ''
        detail = {'callee': c['full'] if c else 'fn pointer', 'sinks': sorted(tr.sinks)}
        if tr.problems:
            msg, sp = tr.problems[0]
            why = msg + (' at %s' % loc_of(sp) if sp else '')
        elif interruptible and 'retry' not in tr.sinks:
            ok = False
            why = '`%s` can surface ErrorKind::Interrupted but is not wrapped in the retry idiom' % name
        out.add(rule, body.path, 'call:' + name, loc_of(t['sp']), ok, why, detail)
    return n


def decode_encode_roots(facts, out):
    dec, enc = [], []
    for i in facts.instances:
        d = i['def']
        if d in ('decode::from_bytes', 'decode::from_str', 'decode::from_path') or d == 'decode::DecodeBeatmap::decode':
            dec.append(i['id'])
        if d.startswith('encode::<impl beatmap::Beatmap>::encode'):
            enc.append(i['id'])
    out.anchor('ED', 'decode roots (from_bytes/from_str/from_path/decode)', len(dec) >= 27,
               '%d instances' % len(dec))
    out.anchor('ED', 'encode roots (Beatmap::encode*)', len(enc) >= 3, '%d instances' % len(enc))
    return dec, enc


def path_bodies(facts, root_ids):
    ids = facts.reachable_instances(root_ids)
    paths = sorted({facts.inst[i]['def'] for i in ids})
    return [facts.bodies[p] for p in paths if p in facts.bodies], ids


def run(facts, out, all_bodies=False):
    if all_bodies:
        dec_bodies = enc_bodies = list(facts.bodies.values())
        dec_ids = enc_ids = set(facts.inst)
    else:
        dec, enc = decode_encode_roots(facts, out)
        dec_bodies, dec_ids = path_bodies(facts, dec)
        enc_bodies, enc_ids = path_bodies(facts, enc)
    seen = set()
    n = 0
    for b in dec_bodies + enc_bodies:
        if b.path in seen:
            continue
        seen.add(b.path)
        n += check_fn(b, out)
    # ---- AL / EP on the decode path
    for b in dec_bodies:
        for bb, t in b.calls():
            if b.is_cleanup(bb):
                continue
            c = callee_of(t)
            if not c:
                continue
            tr = c.get('trait')
            if tr in ('std::io::Read', 'std::io::BufRead'):
                nm = c['name']
                if nm in AL_SYNTHESISING:
                    out.add('AL', b.path, 'call:' + nm, loc_of(t['sp']), False,
                            'reader method `%s` synthesises an error that does not originate in the reader (%s)'
                            % (nm, AL_SYNTHESISING[nm]), {'callee': c['full']})
                elif nm in AL_ALLOWED:
                    out.add('AL', b.path, 'call:' + nm, loc_of(t['sp']), True, '', {'callee': c['full']})
                else:
                    out.add('AL', b.path, 'call:' + nm, loc_of(t['sp']), False,
                            'reader method `%s` is not in the allow-list of error-transparent methods' % nm,
                            {'callee': c['full']})
            if c['path'].startswith('std::io::Error::') and c['name'] in ('new', 'other', 'from_raw_os_error',
                                                                             'last_os_error', 'new_const'):
                out.add('EP', b.path, 'ioerror-ctor:' + c['name'], loc_of(t['sp']), False,
                        'an io::Error is constructed on the decode path; Err must only come from the reader',
                        {'callee': c['full']})
            if c.get('impl_self', {}).get('s') == 'std::io::Error' and c['name'] == 'from':
                out.add('EP', b.path, 'ioerror-from', loc_of(t['sp']), False,
                        'a value is converted into io::Error on the decode path', {'callee': c['full']})
            if c.get('trait') == 'std::ops::FromResidual' and is_io_result(t['ret_ty']['s']):
                full = c['full']
                ok = 'std::result::Result<std::convert::Infallible, std::io::Error>' in full
                out.add('EP', b.path, 'from_residual', loc_of(t['sp']), ok,
                        '' if ok else '`?` converts a non-I/O error into io::Error: %s' % full,
                        {'callee': full})
    # ---- WR on the encode path
    for b in enc_bodies:
        for bb, t in b.calls():
            if b.is_cleanup(bb):
                continue
            c = callee_of(t)
            if not c:
                continue
            if c.get('trait') == 'std::io::Write':
                nm = c['name']
                ok = nm in WRITE_ALLOWED
                out.add('WR', b.path, 'call:' + nm, loc_of(t['sp']), ok,
                        '' if ok else 'encoder uses `Write::%s` (short writes / Interrupted are not handled by it)' % nm,
                        {'callee': c['full']})
    # ---- WB: a by-value writer is never dropped on an Ok path without a checked flush
    for b in enc_bodies:
        check_writer_drop(b, out)
    # ---- FL flush must-pass-through in Beatmap::encode
    if not all_bodies:
        enc_body = facts.body('encode::<impl beatmap::Beatmap>::encode')
        out.anchor('FL', 'Beatmap::encode', enc_body is not None)
        if enc_body is not None:
            check_flush(enc_body, out)
    return n


def reaching_defs_of_return(body):
    """for each return block: set of definition sites (bb, idx|'term') of _0 reaching it"""
    # forward dataflow: state = frozenset of def sites
    IN = {0: frozenset(['entry'])}
    work = [0]
    OUT = {}
    while work:
        b = work.pop()
        cur = set(IN[b])
        blk = body.blocks[b]
        for si, s in enumerate(blk['st']):
            if s['k'] == 'assign' and s['pl']['l'] == 0 and not s['pl']['p']:
                cur = {(b, si)}
        t = blk['term']
        if t['k'] == 'call' and t['dest']['l'] == 0 and not t['dest']['p']:
            cur = {(b, 'term')}
        OUT[b] = frozenset(cur)
        for s in body.succ(b):
            new = IN.get(s, frozenset()) | OUT[b]
            if new != IN.get(s):
                IN[s] = new
                work.append(s)
    res = {}
    for r in body.returns():
        if r in OUT:
            res[r] = OUT[r]
    return res


def check_flush(body, out):
    rd = reaching_defs_of_return(body)
    nflush = 0
    for r, defs in rd.items():
        for d in defs:
            if d == 'entry':
                out.add('FL', body.path, 'return-without-value', loc_of(body.term(r)['sp']), False,
                        'return reached with _0 undefined')
                continue
            bb, si = d
            if si == 'term':
                t = body.term(bb)
                c = callee_of(t)
                if c and c.get('trait') == 'std::io::Write' and c['name'] == 'flush':
                    nflush += 1
                    out.add('FL', body.path, 'return<-flush', loc_of(t['sp']), True, '', {'callee': c['full']})
                elif c and c.get('trait') == 'std::ops::FromResidual':
                    out.add('FL', body.path, 'return<-?', loc_of(t['sp']), True)
                else:
                    out.add('FL', body.path, 'return<-call:' + (c['name'] if c else '?'), loc_of(t['sp']), False,
                            'encode returns the value of `%s`, not of a checked flush' % (c['full'] if c else '?'))
            else:
                s = body.blocks[bb]['st'][si]
                rv = s['rv']
                if rv['k'] == 'aggr' and rv.get('variant') == 'Err':
                    out.add('FL', body.path, 'return<-Err', loc_of(s['sp']), True)
                else:
                    out.add('FL', body.path, 'return<-' + rv['k'], loc_of(s['sp']), False,
                            'encode can return Ok without its value coming from a checked Write::flush')
    if nflush == 0:
        out.add('FL', body.path, 'flush-missing', '%s:%d' % (body.file, body.line), False,
                'no return of encode takes its value from Write::flush')


def _ret_def_transfer(body, b, cur):
    blk = body.blocks[b]
    for si, s in enumerate(blk['st']):
        if s['k'] == 'assign' and s['pl']['l'] == 0 and not s['pl']['p']:
            cur = {(b, si)}
    t = blk['term']
    if t['k'] == 'call' and t['dest']['l'] == 0 and not t['dest']['p']:
        cur = {(b, 'term')}
    return cur


def ret_defs_via(body, via_bb):
    """definitions of _0 that can reach a `return` along a path that passes through block via_bb:
    returns {return_bb: set(defs)}"""
    # global reaching defs at entry of every block
    IN = {0: frozenset(['entry'])}
    work = [0]
    while work:
        b = work.pop()
        out = frozenset(_ret_def_transfer(body, b, set(IN[b])))
        for s in body.succ(b):
            new = IN.get(s, frozenset()) | out
            if new != IN.get(s):
                IN[s] = new
                work.append(s)
    if via_bb not in IN:
        return {}
    # propagate only from via_bb
    IN2 = {via_bb: IN[via_bb]}
    work = [via_bb]
    res = {}
    while work:
        b = work.pop()
        out = frozenset(_ret_def_transfer(body, b, set(IN2[b])))
        if body.term(b)['k'] == 'return':
            res[b] = res.get(b, frozenset()) | out
        for s in body.succ(b):
            new = IN2.get(s, frozenset()) | out
            if new != IN2.get(s):
                IN2[s] = new
                work.append(s)
    return res


def check_writer_drop(body, out):
    """WB: locals that are written through `std::io::Write` by value (not behind a reference) may
    own an internal buffer (BufWriter, generic W): every normal-path drop that can be followed by an
    Ok return must get its Ok value from `Write::flush` on that very local."""
    from facts import resolve_ref
    writers = set()
    for bb, t in body.calls():
        c = callee_of(t)
        if c and c.get('trait') == 'std::io::Write' and t['args']:
            l0 = op_local(t['args'][0])
            pl = resolve_ref(body, l0) if l0 is not None else None
            if pl is not None and not pl['p']:
                ty = body.locals[pl['l']]
                if ty.get('ref') is None and not ty['s'].startswith('&'):
                    writers.add(pl['l'])
    # by-value writer parameters / locals of buffering types even if only passed on
    for l, ty in enumerate(body.locals):
        if ty['s'].startswith('std::io::BufWriter<') or ty['s'].startswith('std::io::LineWriter<'):
            writers.add(l)
    for w in sorted(writers):
        for bi, blk in enumerate(body.blocks):
            if blk.get('cleanup'):
                continue
            t = blk['term']
            if t['k'] != 'drop' or t['pl']['p'] or t['pl']['l'] != w:
                continue
            bad = None
            for r, defs in ret_defs_via(body, bi).items():
                for d in defs:
                    if d == 'entry':
                        continue
                    bb2, si = d
                    if si == 'term':
                        t2 = body.term(bb2)
                        c2 = callee_of(t2)
                        if c2 and c2.get('trait') == 'std::ops::FromResidual':
                            continue
                        if c2 and c2.get('trait') == 'std::io::Write' and c2['name'] == 'flush':
                            l0 = op_local(t2['args'][0])
                            pl = resolve_ref(body, l0) if l0 is not None else None
                            if pl is not None and not pl['p'] and pl['l'] == w:
                                continue
                        bad = loc_of(t2['sp'])
                    else:
                        s = body.blocks[bb2]['st'][si]
                        if s['rv']['k'] == 'aggr' and s['rv'].get('variant') == 'Err':
                            continue
                        bad = loc_of(s['sp'])
            out.add('WB', body.path, 'writer-drop:_%d' % w, loc_of(t['sp']), bad is None,
                    '' if bad is None else ('a writer held by value (it may buffer internally) is dropped on a path that '
                                            'returns Ok (value set at %s) without a checked flush on it: a write error at '
                                            'drop time is lost and encode reports success') % bad)
