"""Shared result types for rules."""
from collections import Counter


class Inst:
    """one rule instance (an obligation at a specific construct)"""

    def __init__(self, rule, fn, construct, loc, ok, why='', detail=None, cfg=None):
        self.rule = rule
        self.fn = fn
        self.construct = construct
        self.loc = loc
        self.ok = ok
        self.why = why
        self.detail = detail or {}
        self.cfg = cfg

    @property
    def key(self):
        return '%s/%s/%s' % (self.rule, self.fn, self.construct)

    def to_json(self):
        d = {'rule': self.rule, 'key': self.key, 'fn': self.fn, 'construct': self.construct,
             'loc': self.loc, 'status': 'ok' if self.ok else 'violation', 'why': self.why}
        if self.detail:
            d['detail'] = self.detail
        if self.cfg:
            d['config'] = self.cfg
        return d


class Out:
    """collector used by every rule; assigns ordinals so keys are unique without line numbers"""

    def __init__(self, cfg=None):
        self.insts = []
        self.cfg = cfg
        self._ord = Counter()
        self.anchors = []      # (rule, what, found?) anchor resolution records
        self.missing = []      # anchors that could not be resolved (fail closed)

    def add(self, rule, fn, construct, loc, ok, why='', detail=None, ordinal=True):
        if ordinal:
            k = (rule, fn, construct)
            n = self._ord[k]
            self._ord[k] += 1
            if n:
                construct = '%s#%d' % (construct, n)
        i = Inst(rule, fn, construct, loc, ok, why, detail, self.cfg)
        self.insts.append(i)
        return i

    def anchor(self, rule, what, found, note=''):
        self.anchors.append({'rule': rule, 'anchor': what, 'found': bool(found), 'note': note})
        if not found:
            self.missing.append((rule, what, note))

    def by_rule(self, *rules):
        return [i for i in self.insts if i.rule in rules or any(i.rule.startswith(r + '-') for r in rules)]


def loc_of(sp):
    return '%s:%d' % (sp['file'], sp['line'])


def is_io_result(ty_s):
    return ty_s.startswith('std::result::Result<') and ty_s.endswith('std::io::Error>')
