"""Run the mirlint driver (the compiler) over a source tree and return the fact file."""
import os
import shutil
import subprocess
import tempfile
import time

VERIF = os.path.dirname(os.path.dirname(os.path.abspath(__file__)))
DRIVER = os.path.join(VERIF, 'mirlint', 'target', 'release', 'mirlint')
_SYSROOT = None


def sysroot():
    global _SYSROOT
    if _SYSROOT is None:
        _SYSROOT = subprocess.check_output(['rustc', '+nightly', '--print', 'sysroot'], text=True).strip()
    return _SYSROOT


def scratch_root():
    base = os.environ.get('VERIF_SCRATCH') or os.environ.get('TMPDIR') or '/tmp'
    os.makedirs(base, exist_ok=True)
    return base


class DriverError(Exception):
    pass


def ensure_driver():
    if not os.path.exists(DRIVER):
        r = subprocess.run(['cargo', '+nightly', 'build', '--release', '--offline', '--manifest-path',
                            os.path.join(VERIF, 'mirlint', 'Cargo.toml')], capture_output=True, text=True)
        if r.returncode != 0 or not os.path.exists(DRIVER):
            raise DriverError('cannot build mirlint driver:\n' + r.stderr[-4000:])


def build_facts(repo_dir, features=(), crates='rosu_map', keep=None):
    """compile `repo_dir` (lib target) under the driver; returns (facts_path, tmpdir, seconds).
    The caller removes tmpdir."""
    ensure_driver()
    tmp = tempfile.mkdtemp(prefix='mirlint-', dir=scratch_root())
    out = os.path.join(tmp, 'facts.json')
    env = dict(os.environ)
    env['LD_LIBRARY_PATH'] = sysroot() + '/lib' + (':' + env['LD_LIBRARY_PATH'] if env.get('LD_LIBRARY_PATH') else '')
    env['RUSTFLAGS'] = '-Zmir-opt-level=0 -Awarnings'
    env['RUSTC_WORKSPACE_WRAPPER'] = DRIVER
    env['MIRLINT_OUT'] = out
    env['MIRLINT_CRATES'] = crates
    env['CARGO_TARGET_DIR'] = os.path.join(tmp, 'target')
    env['CARGO_NET_OFFLINE'] = 'true'
    cmd = ['cargo', '+nightly', 'check', '--offline', '--lib', '--manifest-path',
           os.path.join(repo_dir, 'Cargo.toml')]
    if features:
        cmd += ['--features', ','.join(features)]
    t0 = time.time()
    r = subprocess.run(cmd, env=env, capture_output=True, text=True)
    dt = time.time() - t0
    if r.returncode != 0 or not os.path.exists(out):
        shutil.rmtree(tmp, ignore_errors=True)
        raise DriverError('driver run failed (rc=%d) for %s features=%s\n%s' %
                          (r.returncode, repo_dir, features, r.stderr[-6000:]))
    # the target dir is not needed any more
    shutil.rmtree(os.path.join(tmp, 'target'), ignore_errors=True)
    return out, tmp, dt


def copy_tree(repo_dir):
    """scratch copy of the parts of the repo the lib build needs; returns dir (caller removes)"""
    tmp = tempfile.mkdtemp(prefix='mirlint-src-', dir=scratch_root())
    for name in ('Cargo.toml', 'Cargo.lock'):
        p = os.path.join(repo_dir, name)
        if os.path.exists(p):
            shutil.copy(p, os.path.join(tmp, name))
    shutil.copytree(os.path.join(repo_dir, 'src'), os.path.join(tmp, 'src'))
    # README is referenced by Cargo.toml `readme`; not needed for check
    return tmp
